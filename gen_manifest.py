#!/usr/bin/env python3
"""Regenerate MANIFEST.json from registry.py (single source of truth)."""
import json, os, sys
sys.path.insert(0, os.path.dirname(os.path.abspath(__file__)))
import registry
checks = []
for pid in sorted(registry.PROPS):
    s = registry.PROPS[pid]
    engines = [e.upper() for e in ("e1", "e2", "e3") if s.get(e)]
    checks.append(dict(
        property_id=pid,
        quick_cmd="python3 /verif/check.py %s --tier quick" % pid,
        thorough_cmd="python3 /verif/check.py %s --tier thorough" % pid,
        evidence_file="/verif/evidence/%s.json" % pid,
        replay_cmd_template="python3 /verif/check.py %s --replay {path}" % pid,
        engine="+".join(engines),
        level_claimed=dict(category=s.get("level", "other"), text=s["claim"], design_ref="DESIGN.md §3 " + pid),
        level_note=s["note"],
        technique=s["technique"],
    ))
na = list(registry.NOT_APPLICABLE)
have = set(registry.PROPS) | set(x["property_id"] for x in na)
for i in range(1, 21):
    pid = "C%02d" % i
    if pid not in have:
        na.append(dict(property_id=pid, reason="not claimed at this commit: the static check designed in DESIGN.md §3 is not built/armed yet"))
na.sort(key=lambda x: x["property_id"])
m = dict(
    version=1,
    setup_cmd="bash /verif/setup.sh",
    hooks=dict(guard="NMTOOLS_VERIF", enable="-DNMTOOLS_VERIF on the analysis compile lines (clang++ -I/repo/include); the repository's own build never defines it",
               baseline_off_cmd="cd /repo && cmake -G Ninja -B _build && cmake --build _build && ctest --test-dir _build -j8 --timeout 900",
               source_commits=registry.HOOK_COMMITS, add_only=True),
    engines=[
        dict(name="E1 oblige", path="/verif/engines/e1.py", serves_properties=[p for p in sorted(registry.PROPS) if registry.PROPS[p].get("e1")],
             kind_free_text="static: obligations (branch to extern noreturn) over symbolic arguments, discharged by LLVM 14 -O2 dead-branch elimination; residual calls in the optimised IR are the report"),
        dict(name="E2 nmlint", path="/verif/tools/nmlint.cc", serves_properties=[p for p in sorted(registry.PROPS) if registry.PROPS[p].get("e2")],
             kind_free_text="static: libTooling AST/CFG rules over template definitions and instantiation drivers"),
        dict(name="E3 witness", path="/verif/engines/e3.py", serves_properties=[p for p in sorted(registry.PROPS) if registry.PROPS[p].get("e3")],
             kind_free_text="static: batched compile-pass / compile-fail type-level witnesses (-fsyntax-only)"),
    ],
    checks=checks,
    notes="All checks are static analyses of /repo's working tree; exit 2 = analysis broken (never a pass). Known findings: /verif/known_findings.json.",
    not_applicable=na,
)
json.dump(m, open(os.path.join(os.path.dirname(os.path.abspath(__file__)), "MANIFEST.json"), "w"), indent=1)
print("MANIFEST.json: %d checks, %d not applicable" % (len(checks), len(registry.NOT_APPLICABLE)))
