"""Which analysis components decide which property (DESIGN.md §3)."""

E1_TECH = "static: LLVM -O2 dead-branch elimination of symbolic obligations (compile-time assertion over optimised IR)"
E1_NOTE = ("Trusted: LLVM 14 mid-end soundness, libstdc++, correctness of the obligation text in /verif/obligations. "
           "Fixed-rank container kinds (std::array, utl::array, tuples) and, where stated, bounded run-time-length utl::static_vector with the length fixed by ASSUME "
           "(this exercises the library's run-time-loop branches); heap containers (std::vector) are not covered. "
           "A behaviour-preserving rewrite LLVM can no longer normalise would be reported (small-step obligations keep this unlikely).")
E1_RULE = ("E1: one obligation per (clause, container kind, rank, axis/case); non-trivial = the obligation point is reachable in the optimised "
           "declare-mode IR; distinct by (driver function, obligation id, integer parameters)")

E2_NOTE = ("Trusted: clang 14 front end (names resolved, templates parsed), the canonicaliser in tools/nmlint.cc, and the reviewed oracle/exception "
           "tables under /verif/tools. Rules are over the resolved AST of the template definitions, not text; a refactor that keeps the idiom "
           "(renamed locals, extra local variables, reordered independent statements) stays silent, a new idiom must be added to the table with a reason.")
E2_TECH = "static: custom libTooling fact extractor + rules over canonical AST facts (forwarding / table agreement)"

PROPS = {
 "C01": dict(
    level="proof",
    claim="Proof, for every extent and index at ranks 1..4 (thorough: 1..6) on fixed-rank shape containers, of the stride, offset, indices, ndindex, product and reverse formulas the property states, and that ndarray_t/hybrid_ndarray address element (i..) at the layout's offset for row- and column-major; the bijection / round-trip / row-major-order clauses, which follow from them only by the mixed-radix theorem, are decided exhaustively for every shape with extents 1..3 at ranks 1..3 and extents 1..2 at rank 4 (c01b_roundtrip_enum: unravel = mixed-radix digits, ravel(unravel(k)) = k, ndindex visits positions in row-major order, sizes; fixed arrays and bounded run-time-length shapes), and are not decided beyond those shapes; compute_offset is also stated for indices and strides of different container kinds.",
    note=E1_NOTE + " Assumes extents>=1.",
    technique=E1_TECH,
    e1=[dict(tu="c01_index.cpp"), dict(tu="c20_ndarray.cpp"), dict(tu="c07_outer_misc.cpp"), dict(tu="c12_enum.cpp"), dict(tu="c01b_roundtrip_enum.cpp")],
    e2=[dict(rule="R-CONSTBRANCH", anchors=True)],
    rule=E1_RULE,
    explanation="Stride/offset/indices formulas of the property statement are stated as branch-to-noreturn obligations over fully symbolic shapes and indices and discharged by LLVM -O2 (dead-branch elimination = proof for all values).",
    not_decided="round-trip identity / injectivity / enumeration order for shapes beyond the enumerated ones (mixed-radix theorem, not dischargeable symbolically); heap-backed shape containers",
    assumptions=["extents >= 1 where the property says positive extents", "fixed-rank container kinds (std::array, utl::array, tuple) at the ranks listed in samples"],
 ),
 "C02": dict(
    level="proof",
    claim="Proof that the source multi-index produced by transpose/moveaxis/swapaxes/tile/repeat(non-repeated axes)/roll indexers lies inside the source shape for every in-shape destination index; that pad maps a padded coordinate to a source index inside the source shape exactly when it is not in the padding (index level, every axis and zone) and that view::pad then reads that source element, or the pad value without touching the source (ranks 1..3); and that static_vector never holds more than its capacity (inductive invariant over every mutator); buffer-position bounds for run-time shapes (non-linear) and slice-based views are not decided. (c05_slice, counted here as well) every position a slice view reads is the position Python's slice.indices designates - inside the axis by construction - for every (start, stop, step) over the enumerated small extents.",
    note=E1_NOTE,
    technique=E1_TECH,
    e1=[dict(tu="c05c_lengths.cpp"), dict(tu="c05_slice.cpp", flags=["-DC05_N=3"], count_as="C05"), dict(tu="c05_slice.cpp", flags=["-DC05_N=2", "-DC05_FIRST=8", "-DC05_LAST=21"], count_as="C05"), dict(tu="c03_rearrange.cpp"), dict(tu="c03b_dynamic.cpp"), dict(tu="c04_select.cpp"), dict(tu="c19_utl.cpp"), dict(tu="c02_capacity.cpp"), dict(tu="c03c_reshape.cpp"), dict(tu="c06b_broadcast_to.cpp"), dict(tu="c15b_pad_matmul.cpp"), dict(tu="c02c_padview.cpp"), dict(tu="c04c_take.cpp"), dict(tu="c04f_diagonal.cpp"), dict(tu="c12_enum.cpp"), dict(tu="c16c_capacity.cpp"), dict(tu="c02d_capacity2.cpp")],
    e2=[dict(rule="R-SIMD"), dict(rule="R-AXISNORM.simd")],
    e3=[dict(group="C02")],
    rule=E1_RULE,
    explanation="in-shape obligations are stated through the view's own indexer (indexing_t / decorator_t on the path); capacity obligations are an inductive class invariant (assume on entry, prove on exit).",
    not_decided="offset < buffer length for run-time shapes (non-linear); slices beyond the enumerated extents, flip/pad/concatenate/sliding_window views; dynamic buffers; SIMD accesses are under C12",
    assumptions=["destination index inside the view's shape", "extents >= 1"],
 ),
 "C03": dict(
    level="proof",
    claim="Proof of NumPy's shape law, source-index law and element law for transpose (default and compile-time axes), moveaxis and swapaxes (compile-time axes incl. negative) at ranks 1..4 for every extent and index, and the same laws for run-time axes (transpose with a run-time permutation, moveaxis with run-time ints) and for arrays whose shape is a bounded run-time-length static_vector (the library's run-time-loop branches); reshape (run-time target shape), flatten and expand_dims keep C order in closed form (source index = unravel(ravel(dst, dst_shape), src_shape)) with the requested / NumPy shape, ranks up to 3x3; shape laws of shape_reshape incl. one -1, expand_dims and atleast_nd at index level; shape_squeeze keeps exactly the non-1 extents in order for every pattern of single extents at ranks 1..4 (view::squeeze is reshape to that shape); flip_slices reverses exactly the requested axes (scalar, list incl. negative entries, None; ranks 1..4) - the element law of flip then rests on the slicing of C05, which is not decided; moveaxis with several axes: the permutation is NumPy's for EVERY pair of duplicate-free axis lists of length 2 (ranks 3, 4, entries non-negative or negative; length 3 at rank 4 in the thorough tier) - exhaustive, since the function depends only on rank and lists. (E1 view level, constant small shapes with symbolic element values: c03g_views) shape and every element of flip (None / one axis / negative axis / axis lists, flip twice), flipud/fliplr, squeeze, atleast_1d/2d/nd, reshape (ct and run-time target, one -1 in either position), flatten, transpose (default, run-time and ct permutations, permutation then inverse), moveaxis, swapaxes (negative axes) and expand_dims (one axis, negative, axis list) equal NumPy's definition written against the source array. The same view-level obligations are also decided on fixed-dimension arrays whose shape is a RUN-TIME value (std::array<size_t,R> shape pinned to the listed extents by ASSUME): the library's run-time branches (loops over len(shape), maybe-typed results that must have a value). (c03b_dynamic) index::scatter places element i at position idx[i] for fixed and bounded run-time-length vectors with compile-time or run-time indices, and transpose with compile-time axes is decided on bounded-dimension arrays as well.",
    note=E1_NOTE,
    technique=E1_TECH,
    e1=[dict(tu="c03_rearrange.cpp"), dict(tu="c03b_dynamic.cpp"), dict(tu="c03c_reshape.cpp"), dict(tu="c15_args.cpp"), dict(tu="c02_capacity.cpp"), dict(tu="c03d_squeeze.cpp"), dict(tu="c03e_flip.cpp"), dict(tu="c03f_moveaxis_multi.cpp"), dict(tu="c03g_views.cpp"), dict(tu="c03g_views_rt.cpp"), dict(tu="c02d_capacity2.cpp")],
    e2=[dict(rule="R-AXISNORM"), dict(rule="R-PARAMUSE"), dict(rule="R-CONSTBRANCH", anchors=True)],
    rule=E1_RULE + "; E2: one instance per comparison of a position with an axis-valued expression in the anchor files (R-AXISNORM)",
    explanation="expected shape and source index are written from NumPy's definitions in the driver; the element law is equality of the bits loaded through the view and through the source at the expected index.",
    not_decided="flip element law (negative-step slice), reshape with -1 at view level, atleast_nd element map, heap (std::vector) shapes, permutation property as such (injectivity follows from the mixed-radix theorem, not discharged)",
    assumptions=["destination index inside the view's shape"],
 ),
 "C04": dict(
    level="proof",
    claim="Proof of shape law, source-index law and element law for tile (reps of equal and greater length), repeat along an axis (scalar repeats, incl. negative axis) and roll along an axis for EVERY shift magnitude and sign, ranks 1..3, every extent and index (compile-time and run-time axes); concatenate at index level: result shape (summed extent on the axis, failure exactly when another extent differs), and for every destination index which operand and which source index is read, run-time axis incl. negative; pad (shape = source + both widths; a coordinate maps to the source exactly outside the padding, view::pad reads the source element or the fill value); tril/triu (kept side exactly col-row <= k resp. >= k, identity index, 1-d source used as every row); eye (fill exactly on the k-th diagonal); expand (axis extent s+(s-1)*spacing; multiples of spacing+1 map to coordinate/(spacing+1), everything else is a fill position; run-time axis incl. negative); take along a run-time axis incl. negative (shape; source coordinate = listed entry, a negative entry counted from the end, inside the extent); diagonal for either sign of the offset (shape incl. diagonal length, both diagonal coordinates inside their extents, other coordinates in order); sliding_window (windowed axes shrink by w-1, window extents appended, source = position + offset; scalar window on a run-time axis incl. negative, and one window per axis); sibling side-consistency of paired locals in the anchor files (R-PAIR). The remaining operations of the property are not decided. where(c,x,y) on three differently shaped constant-shape operands has the broadcast shape and selects x or y by the broadcast condition at every index. (E1 view level, constant small shapes with symbolic element values: c04i_views, c04j_views) shape and every element of tile (short/long reps), repeat (axis, negative axis, no axis, per-element repeats incl. 0), roll (beyond-extent and negative shifts, negative axis, no axis, several axes), take (negative / repeated entries, negative axis), compress (constant condition), concatenate (axis, negative axis, operand order, no axis), stack / hstack / vstack / dstack / column_stack (matrices and vectors), split (sections and indices), sliding_window (all axes, one axis), diagonal (offsets of either sign, chosen and negative axes on rank 3), diagflat, tril / triu (k of either sign, batches), eye / identity / tri, full / zeros / ones (_like), arange on an integer grid, pad (per-side widths), resize (nearest neighbour) and expand (spacing, negative axis, several axes) equal the definition written against the source array. The same view-level obligations are also decided on fixed-dimension arrays whose shape is a RUN-TIME value (std::array<size_t,R> shape pinned to the listed extents by ASSUME): the library's run-time branches (loops over len(shape), maybe-typed results that must have a value). (c04_select ob_c04_roll_list) index::roll with a LIST of axes - fixed or bounded run-time length, scalar or per-axis shifts, repeated axes accumulating - shifts exactly the listed axes for every shape, position and shift. (c04j_views) linspace: shape (num), first element start, with endpoint last element stop, interior elements start + i*step bit-exact in the bounds' floating-point type, with and without endpoint, num 1..11. arange over an integer grid with SYMBOLIC bounds below 2^40: len = ceil((stop-start)/step) (positive, negative step, empty range) and element i = start + i*step for a symbolic index.",
    note=E1_NOTE,
    technique=E1_TECH,
    e1=[dict(tu="c04_select.cpp"), dict(tu="c03b_dynamic.cpp"), dict(tu="c04b_concat.cpp"), dict(tu="c15b_pad_matmul.cpp"), dict(tu="c02c_padview.cpp"), dict(tu="c04d_tri.cpp"), dict(tu="c04e_window.cpp"), dict(tu="c04c_take.cpp"), dict(tu="c04f_diagonal.cpp"), dict(tu="c04g_expand.cpp"), dict(tu="c04h_cumsum.cpp"), dict(tu="c07c_where.cpp"), dict(tu="c04i_views.cpp"), dict(tu="c04j_views.cpp"), dict(tu="c04i_views_rt.cpp"), dict(tu="c04j_views_rt.cpp"), dict(tu="c07c_where_rt.cpp"), dict(tu="c04k_resize_enum.cpp"), dict(tu="c09b_bounded_values.cpp"), dict(tu="c02d_capacity2.cpp")],
    e2=[dict(rule="R-PAIR"), dict(rule="R-AXISNORM"), dict(rule="R-PARAMUSE"), dict(rule="R-CONSTBRANCH", anchors=True)],
    e3=[dict(group="C04")],
    rule=E1_RULE,
    explanation="src = dst mod shape (tile), src_axis = dst_axis / r (repeat), src_axis = (dst_axis - shift) mod extent (roll), written from the NumPy definitions.",
    not_decided="for RUN-TIME shapes: compress, take over the flattened array (axis None), stack family, split, where, generators, resize, expand with several axes, tri, per-element repeats, repeat/roll without axis (these are decided on the listed constant shapes only); linspace and arange on real grids",
    assumptions=["extents >= 1", "extents and |shift| below 2^30 for roll (int arithmetic)", "repeats >= 1"],
 ),
 "C06": dict(
    level="proof",
    claim="Proof that pairwise broadcast_shape is sound and complete w.r.t. NumPy's rule (value exactly when all right-aligned pairs are equal-or-1, then the per-axis maximum) for all rank pairs up to 3x3 (thorough 4x4) and every extent - hence order independent -, idempotent, None-neutral, that the variadic form is the left fold of the pairwise rule, (c06e_assoc_enum, exhaustive: every triple of shapes of rank 1..2 with extents 1..3 held in fixed arrays) three shapes broadcast exactly when all extents per aligned axis are equal or 1, to the per-axis maximum, independently of grouping and of the operand order (all six), and broadcasting the result with an operand or with itself changes nothing, and for view::broadcast_to (source ranks 1..3 into target ranks 1..3, every stretch pattern): value exactly when each source extent is 1 or equals the right-aligned target extent, shape = target, source index inside the source shape, stretched axes read source index 0 (kept axes: proved for rank-1 sources only); associativity is decided for those triples only. (E1, constant small shapes with symbolic integer elements) view::broadcast_to and view::broadcast_arrays have the requested / common shape and read, at every index, the source element with stretched axes at 0 and prepended axes dropped; the binary ufunc view reads its operands the same way. The same view-level obligations are also decided on fixed-dimension arrays whose shape is a RUN-TIME value (std::array<size_t,R> shape pinned to the listed extents by ASSUME): the library's run-time branches (loops over len(shape), maybe-typed results that must have a value). (E3 c06_bcast3_*) broadcast_arrays of a fixed-size array, a scalar and a run-time-shaped array: in every operand order no view claims a compile-time size; with scalars only the fixed size is kept.",
    note=E1_NOTE,
    technique=E1_TECH,
    e3=[dict(group="C06")],
    e1=[dict(tu="c06_broadcast.cpp"), dict(tu="c06b_broadcast_to.cpp"), dict(tu="c07_outer_misc.cpp"), dict(tu="c06c_bcastview.cpp"), dict(tu="c07b_bcast.cpp"), dict(tu="c06c_bcastview_rt.cpp"), dict(tu="c07b_bcast_rt.cpp"), dict(tu="c06e_assoc_enum.cpp", flags=["-DC06E_RA=1"]), dict(tu="c06e_assoc_enum.cpp", flags=["-DC06E_RA=2"])],
    e2=[dict(rule="R-PARAMUSE"), dict(rule="R-CONSTBRANCH", anchors=True), dict(rule="R-MAYBE.broadcast"), dict(rule="R-STICKYFAIL")],
    rule=E1_RULE,
    explanation="soundness and completeness are stated per first incompatible aligned axis (nested case split with the call inside each case).",
    not_decided="broadcast_to/broadcast_arrays element law, associativity beyond the fold structure, dynamic/clipped containers",
    assumptions=[],
 ),
 "C15": dict(
    level="proof",
    claim="Proof of the value/Nothing boundary of broadcast_shape (all rank pairs up to 3x3), of moveaxis with in-range versus out-of-range compile-time and run-time axes, of normalize_axis (scalar and arrays of 1..3 axes, every ndim <= 64) with NumPy's normalised value, and of shape_reshape (element-count mismatch, zero extent, negative extent, two -1, one -1 with/without divisibility, inferred extent = numel / product of the others), of shape_pad (value exactly when the width has two entries per axis) and index::pad (Nothing exactly for coordinates in the padding), and of shape_matmul (Nothing whenever the contraction lengths differ, every rank pair up to 4x4; value with NumPy's shape for operands of rank <= 2); plus, over ~6000 instantiated functions of the maybe-lifting layer (index, view, eval, kernel helper, isequal/isclose), every dereference of a maybe-typed expression is dominated by the true edge of a truth test on that expression, and every integer division in index/ and view/ has a validated or role-justified divisor (the reshape divisor is tied to the zero-extent validation). The value/Nothing boundary of the remaining operations is not decided. (E1 c15c_invalid_views, run-time shape kind) at the view level: reshape (element count, two -1, non-dividing -1, zero extent), incompatible broadcasts in ufuncs / where / broadcast_to, a pad width list of the wrong length yield Nothing; transpose with a repeated axis and concatenate / stack with mismatching operands are accepted by the unchanged tree (known findings F29, F30).",
    note=E1_NOTE + " " + E2_NOTE,
    technique=E1_TECH + " + CFG typestate/dominance rules (test-before-dereference, zero-guarded division) on instantiations",
    e1=[dict(tu="c06_broadcast.cpp"), dict(tu="c03_rearrange.cpp"), dict(tu="c03b_dynamic.cpp"), dict(tu="c15_args.cpp"), dict(tu="c06b_broadcast_to.cpp"), dict(tu="c04b_concat.cpp"), dict(tu="c15b_pad_matmul.cpp"), dict(tu="c03f_moveaxis_multi.cpp"), dict(tu="c15c_invalid_views.cpp"), dict(tu="c06e_assoc_enum.cpp", flags=["-DC06E_RA=1"]), dict(tu="c06e_assoc_enum.cpp", flags=["-DC06E_RA=2"]), dict(tu="c09b_bounded_values.cpp")],
    e2=[dict(rule="R-MAYBE-DIV"), dict(rule="R-STICKYFAIL")],
    rule=E1_RULE + "; E2: one instance per dereference of a maybe-typed expression / per integer division site in the instantiated lifting functions (drivers/maybe_inst.cpp)",
    explanation="value exactly when NumPy accepts, Nothing exactly when NumPy raises, for the listed operations; an empty optional is never dereferenced = every dereference is dominated by a truth test of the same expression (typestate rule on the CFG); no division by an unvalidated user-derived divisor.",
    not_decided="tile/repeat argument validity, matmul batch-axis mismatch (goes through a run-time-length split), 1-d x 1-d matmul (shape_matmul returns None without comparing the lengths), dynamic ranks, propagation through pipelines",
    assumptions=[],
 ),
 "C18": dict(
    level="proof",
    claim="Proof that isequal on fixed-length index arrays is exactly the conjunction of element equalities (both argument orders), that index arrays of different run-time length and ndarrays of different dimension or shape compare false (isequal and isclose), the optional/either/scalar/tuple case tables, and isclose on scalars = |a-b| < eps with the difference taken in the common type of operands and tolerance, for eleven operand-type pairs (float/double/int/long/unsigned/unsigned char/bool mixes) in either operand order (symmetry), and the tolerance reaches the comparison when one operand is wrapped in an either / optional; for run-time-length shapes (vector, static_vector, mixed) the CFG rule R-EQSHAPE requires the element loop of every instantiation to be entered only past run-time dimension and shape tests that return false; element-wise comparison of equal-shape run-time ndarrays is not decided. (c18b_arrays, constant and run-time shapes, symbolic integer elements) isequal on whole (2,3) arrays: true implies every pair of corresponding elements equal, all pairs equal implies true, one differing pair implies false; another shape or dimension gives false whatever the values; a transposed view compares like the array it denotes.",
    note=E1_NOTE + " " + E2_NOTE,
    technique=E1_TECH + " + CFG dominance rule (shape test before element loop) on instantiations",
    e1=[dict(tu="c18_isequal.cpp"), dict(tu="c18b_arrays.cpp"), dict(tu="c18b_arrays_rt.cpp")],
    e2=[dict(rule="R-EITHERSIB"), dict(rule="R-EQSHAPE"), dict(rule="R-EQLEN"), dict(rule="R-MAYBE.compare")],
    e3=[dict(group="C18")],
    rule=E1_RULE,
    explanation="every case of the property's case table is an obligation with the call under test inside the case.",
    not_decided="element loop over equal-shape ndarrays of run-time size; either with array alternatives; isclose tolerance on arrays",
    assumptions=["either objects satisfy their representation invariant (tag names an alternative)"],
 ),
 "C19": dict(
    level="proof",
    claim="Inductive proof, per mutator and per entry size 0..C, that static_vector keeps size<=Capacity, accepts/refuses resize and push_back exactly as specified with all other elements unchanged, copies equal and independent, self-assignment harmless; utl::array, tuple, maybe<int>, either<int,float> construction/copy/assignment tables. plus the ownership discipline of utl::vector on the CFG of every member (R-OWN). History equivalence with std:: is not decided; the missing destruction in either/maybe over non-trivial alternatives is a known finding (F4c).",
    note=E1_NOTE + " " + E2_NOTE,
    technique=E1_TECH + " + CFG ownership rule (allocate/deallocate pairing) on instantiations",
    e1=[dict(tu="c19_utl.cpp")],
    e3=[dict(group="C19")],
    e2=[dict(rule="R-OWN"), dict(rule="R-MEMCOPY", dirs=["nmtools/utl"])],
    rule=E1_RULE + "; E2: one instance per instantiated member function of utl::vector<int|double> and per destructor of either/maybe over a non-trivial alternative",
    explanation="class invariant assumed on entry and proved on exit of each mutator quantifies over every history; ownership discipline of utl::vector (allocate/deallocate pairing, deep copy, grow copies before freeing, destructor frees non-null) is a path property of each member function's CFG.",
    not_decided="utl::vector allocate/deallocate pairing, either/maybe with non-trivial alternatives (known finding F4c), small_vector, element-wise equality after static_vector assignment",
    assumptions=["T in {int,double,size_t}, Capacity in {1,3,4,8}"],
 ),
 "C20": dict(
    level="proof",
    claim="Proof, for ndarray_t with fixed-rank shape over fixed and bounded buffers in row- and column-major layout and for hybrid_ndarray, ranks 1..3 (thorough 4), every request: after an accepted resize shape, strides, offset-functor strides and element count agree with the request; a refused resize (wrong element count, wrong rank, over capacity) leaves shape and buffer length unchanged; default construction establishes the same invariant; compile-fail witnesses: only mutable_* views (over non-const arrays) can hand out a writable element reference. (E1 c20b_mutable, (3,4) arrays of constant and of run-time shape, symbolic values) one write through mutable_slice (ranges with steps, a reversed axis, negative bounds, an integer), mutable_reshape, mutable_flatten, mutable_ref leaves exactly the addressed source element holding the written value and every other element unchanged. (E1 c20c_cast) cast to another element type and to the fixed-dimension non-heap array kinds (constant / fixed / clipped shape over fixed / bounded buffers, classic fixed / hybrid) keeps the shape and every (converted) value.",
    note=E1_NOTE,
    technique=E1_TECH,
    e1=[dict(tu="c20_ndarray.cpp"), dict(tu="c20b_mutable.cpp"), dict(tu="c20b_mutable.cpp", flags=["-DVERIF_RT_KIND"]), dict(tu="c20c_cast.cpp"), dict(tu="c20c_cast.cpp", flags=["-DVERIF_RT_KIND"])],
    e2=[dict(rule="R-MEMCOPY", dirs=["nmtools/array/ndarray"]), dict(rule="R-SIBWRITE")],
    e3=[dict(group="C20")],
    rule=E1_RULE,
    explanation="post-state obligations over a fully symbolic array object and request.",
    not_decided="dynamic-rank kinds, distinct indices -> distinct offsets (non-linear), cast to heap-backed or bounded-dimension kinds; write-through for shapes other than the listed one",
    assumptions=["bounded buffer satisfies size<=capacity on entry (proved inductively under C19)"],
 ),
}


PROPS["C07"] = dict(
    level="other",
    claim="For every ufunc and single-expression activation (74 names) the scalar operation in the op type equals the reviewed NumPy/PyTorch oracle table with operands in order; view::X/reduce_X/accumulate_X/outer_X construct the ufunc with the op of the same name and pass operands in order; ufunc/outer views apply op to the operands' elements in tuple order; (E1) the outer variant has shape shape(a)+shape(b) and splits result index (i,j) into the leading len(a) and trailing len(b) coordinates, for all values. The broadcast element law itself is not decided. (E1, constant small shapes with symbolic integer elements) the element of a binary / comparison / unary / where view at every index equals the scalar operation on the operands' elements under NumPy broadcasting, operands in order, for 11 operand-shape combinations of ranks 1..3 (rank extension on either side, size-1 middle axes, (1,1), scalar operands on either side, a transposed view and a chained ufunc as operands); the outer variant's element and shape. The same view-level obligations are also decided on fixed-dimension arrays whose shape is a RUN-TIME value (std::array<size_t,R> shape pinned to the listed extents by ASSUME): the library's run-time branches (loops over len(shape), maybe-typed results that must have a value).",
    note=E2_NOTE,
    technique=E2_TECH,
    e1=[dict(tu="c07_outer_misc.cpp"), dict(tu="c07b_bcast.cpp"), dict(tu="c07c_where.cpp"), dict(tu="c07b_bcast_rt.cpp"), dict(tu="c07c_where_rt.cpp")],
    e2=[dict(rule="R-EITHERSIB"), dict(rule="R-UFUNC")],
    e3=[dict(group="C07")],
    rule="E2: one instance per op call operator (R-UFOP), per view-level ufunc entry point (R-UFWD), per ufunc-view application site (R-UFAPPLY); distinct by qualified function; non-trivial = the function has a body with a return",
    explanation="Name -> scalar operation and operand order are structural facts of the op types and forwarding functions; they are compared with an oracle table and with the function's own parameter list.",
    not_decided="which operand element feeds index i under broadcasting for RUN-TIME shapes (decided for the listed constant shapes only), dtype promotion, values of math functions, multi-statement activations and clip (listed in the table as not covered)",
    assumptions=["oracle table tools/ufunc_table.json reviewed against NumPy/PyTorch definitions"],
)
PROPS["C10"] = dict(
    level="other",
    claim="Every eager entry point under array/array (209) builds exactly one view by calling view::<its own name> with its own leading parameters in declaration order and returns eval() of that view with context, output and resolver forwarded; so the eager result is the evaluation of the lazy view the user would have built. R-EVAL: in every instantiated default evaluator the copy is output[ndindex(shape(output))[i]] = view[ndindex(shape(view))[i]] for i < ndindex(shape(view)).size(), reached only after shape(output)==shape(view), and the allocating overload resizes the result to shape(view) before the copy and returns it. R-FWD.defaults: a defaulted leading parameter of an eager wrapper has the default of the lazy view's parameter at the same position. (E1 c10b_eval, constant small shapes with symbolic elements) the arrays returned by array::transpose / reshape / tile / subtract (broadcast) / concatenate / sum / broadcast_to / matmul have the view's shape and, at every index, the element the operation's definition gives - this exercises the default evaluator's copy loop and result-buffer choice end to end for fixed results. (E3 c10_result_*) for reshape-to-a-clipped-shape / transpose / add / reshape / flatten over run-time-size sources, the buffer of the array type the eager resolver allocates (row- and column-major) can hold fewer elements than its capacity whenever the view has no compile-time size. (E3 c10_elem_*) for add of mixed element types over raw / fixed / hybrid / dynamic operands in both orders, the array the legacy resolver (default of na::eval) and the eager resolver allocate has the view's element type.",
    note=E2_NOTE,
    technique=E2_TECH,
    e1=[dict(tu="c10b_eval.cpp")],
    e2=[dict(rule="R-FWD.array"), dict(rule="R-EVAL")],
    e3=[dict(group="C10")],
    rule="E2: one instance per function template with a `context` parameter under include/nmtools/array/array (distinct by qualified name and parameter list); one instance per instantiated member of the default evaluator (R-EVAL)",
    explanation="Wrapper forwarding is visible in the shape of the code: wrong view, permuted/dropped/duplicated argument or evaluation of a different object is reported with the wrapper's name.",
    not_decided="composition unobservability (value level), result type adequacy (C11), non-default contexts",
    assumptions=["exception table tools/fwd_tables.json (4 entries, one reason each)"],
)
PROPS["C14"] = dict(
    level="other",
    claim="Every leaf functor callable (52) forwards its argument pack unchanged to view::<own name>; every functional:: object (126) binds the callable/op of its own name with the operand arity of the oracle table; the 73 ufunc aliases bind the op type of the same name; get_function_t<view X> hands back functional::X; the order facts of the functor machinery (R-ORDER: functors of f precede those of g in f*g, a functor's result precedes the operands still curried, leaves are collected left to right, attributes are appended); and the extraction fold ties every chained sub-composition to its operand position (R-EXTRACTPOS; violated on the unchanged tree, known finding F16). Graph node ids are not decided. (E1 c14c_functors, constant shapes (2,3) (3,) (2,1) (3,), symbolic integer elements) a functor called with all operands or curried, a functor with attributes (transpose / sum / reshape), the compositions subtract*multiply and subtract*multiply*add in EVERY split of their 3 resp. 4 operands over the calls (remaining operands passed on in order), both parenthesisations of the chain, and chains through swap / dig2 / bury2 / dup give at every index the element of the direct view expression (order-sensitive in every operand). (E1 c14b_extract, constant and run-time shapes, symbolic integer elements) for views of depth 1..3 whose nested view is the first operand (unary / binary ufunc, indexing view, reduction, ufunc over indexing, reduction over ufunc, indexing over ufunc, reduction over an explicit broadcast_to, depth 3): the extracted function composition applied to the extracted operands has a value, the view's shape and the view's element at every index. Depth 3 also THROUGH a binary ufunc whose first operand is a view built on another view (binary over indexing over unary, binary over unary over unary).",
    note=E2_NOTE,
    technique=E2_TECH,
    e1=[dict(tu="c14b_extract.cpp"), dict(tu="c14b_extract_rt.cpp"), dict(tu="c14c_functors.cpp", flags=["-DC14C_PART=1"]), dict(tu="c14c_functors.cpp", flags=["-DC14C_PART=2"]), dict(tu="c14c_functors.cpp", flags=["-DC14C_PART=3"])],
    e2=[dict(rule="R-FWD.functional"), dict(rule="R-GETFN")],
    e3=[dict(group="C14")],
    rule="E2: one instance per functor callable, functor object, op alias and get_function specialisation under include/nmtools/array/functional (core machinery files excluded); distinct by qualified name",
    explanation="A functor equals the direct view call only if its callable forwards to the view of the same name with the same arity; these are structural facts.",
    not_decided="currying / composition for run-time shapes (the functor objects do not fold there; replayed concretely: correct) and for chains other than the listed ones, operand identity, compute-graph node ids",
    assumptions=["arity oracle tools/functional_arity.json reviewed by hand"],
)

PROPS["C13"] = dict(
    level="proof",
    claim="Proof, for every launch geometry (thread, block, block size as symbols) and output ranks 1..3, that the shared per-thread body writes nothing when the global id block*block_size+thread is not below the output size or when the result is empty, and - rank 1 - that thread idx stores exactly result[idx] at out[idx] leaving other positions alone; plus the structural rule that the CUDA and HIP kernel entries rebuild the output from the raw triple, re-apply the function and call that same body with ids from the matching vendor builtins. Equality with host evaluation for rank >= 2 (flat-index round trip) and SYCL/OpenCL entries are not decided. (E1 c14b_extract, constant and run-time shapes, symbolic integer elements) for views of depth 1..3 whose nested view is the first operand (unary / binary ufunc, indexing view, reduction, ufunc over indexing, reduction over ufunc, indexing over ufunc, reduction over an explicit broadcast_to, depth 3): the extracted function composition applied to the extracted operands has a value, the view's shape and the view's element at every index.",
    note=E1_NOTE + " " + E2_NOTE + " CUDA/HIP headers are parsed with declaration stubs (/verif/stubs) for the vendor builtins; host-API parts of those headers do not parse and are ignored.",
    technique=E1_TECH + " + libTooling sibling rule on kernel entry templates",
    e1=[dict(tu="c13_kernel.cpp"), dict(tu="c14b_extract.cpp"), dict(tu="c14b_extract_rt.cpp")],
    e2=[dict(rule="R-KSIB"), dict(rule="R-GETFN")],
    rule=E1_RULE + "; E2: one instance per vendor kernel entry template",
    explanation="The guard clause quantifies over all schedules trivially because each thread's effect is a function of its own ids only; the obligation is stated for symbolic ids.",
    not_decided="out[idx] = host element idx for rank>=2 (needs the mixed-radix round trip), SYCL and OpenCL entry points (headers need vendor SDKs), host-side launch size arithmetic",
    assumptions=["output buffer and result do not alias", "buffer position k below 2^40"],
)

PROPS["C12"] = dict(
    level="other",
    claim="In every instantiated SIMD evaluator path with a linear index (unary, same-shape binary, full reduction; x86 AVX and SSE, float and double): each packed load/store at &p[i] is reachable only through the true edge of (i + lanes) <= size with lanes = register bits / element bits and size the element count, each scalar tail store only through i < size; reduction accumulators are seeded from the op's identity and all identity sources of one instantiation agree; the index functions of the axis-reduction path compare positions with their raw axis parameter, and every call that reaches them passes a visibly normalised axis (R-AXISNORM.caller). The enumerator of the 2-d broadcast binary path is enumerated exhaustively by E1 for small shapes (output (R,C) with R in 1..3 and C crossing pack boundaries, every operand shape that broadcasts to it, pack width 4; width 8 in the thorough tier): every step stays inside output and operands, every output position is produced exactly once, and each lane is paired with NumPy's broadcast partner. The outer enumerator likewise (lhs ranks 1..3, rhs ranks 1..3, last extents below, at and above the pack width): every lane pairs out[p] with lhs[p / numel(rhs)] and rhs[p % numel(rhs)]. The axis-reduction enumerator likewise (ranks 1..3, every axis, horizontal and vertical kinds): every input element is accumulated exactly once into the output position with the reduced coordinate dropped. The matmul inner index function likewise (every product of a row with a column exactly once, lanes paired by the same inner index). (E1 c12b_simd_eval / c12c_simd_binary, VALUE level, compiler-vector-extension back end, 128 bit and in the thorough tier 256 bit, fixed-buffer arrays with symbolic element values) the array returned by evaluating with a SIMD context equals the definition at every index: add.reduce / multiply.reduce of INTEGER data over every axis of 2-d and 3-d arrays (negative axes, unit extents, packs plus tails), over the whole array, with keepdims True / False / None and with an initial value; add / multiply / subtract of 1-d int, float and double arrays for every element count 1..9 (thorough 1..17), bit for bit for floating point; add over every 2-d broadcast pattern; sqrt / floor / ceil; multiply.outer; matmul with a column-major right operand. (c12d_simd_x86) the same element-wise obligations (1-d add / subtract / multiply, 2-d broadcast add, multiply.outer, sqrt; float and double, bit for bit) for the x86 SSE and AVX intrinsic back ends. Reductions and matmul with the x86 / SIMDe back ends at value level, floating-point reductions and shapes beyond the listed ones are not decided.",
    note=E2_NOTE + " Dominance is computed on clang's CFG of the instantiated evaluator members (if-constexpr resolved). " + E1_NOTE,
    technique="static: CFG dominance rule over instantiated evaluator code (custom libTooling extractor), sibling agreement of identity sources and of the float/double back-end tables; " + E1_TECH + " (exhaustive small-shape enumeration of the broadcast enumerator)",
    e1=[dict(tu="c12_enum.cpp"), dict(tu="c12b_simd_eval.cpp"), dict(tu="c12c_simd_binary.cpp", flags=["-fno-math-errno"]), dict(tu="c12c_simd_binary.cpp", flags=["-fno-math-errno", "-DC12_CTX=simd::vector_256", "-DC12C_NO_39"], thorough_only=True),
        dict(tu="c12d_simd_x86.cpp", flags=["-fno-math-errno", "-msse4.1", "-DC12_CTX=simd::x86_SSE"]), dict(tu="c12d_simd_x86.cpp", flags=["-fno-math-errno", "-mavx2", "-mfma", "-DC12_CTX=simd::x86_AVX"])],
    e2=[dict(rule="R-SIMD"), dict(rule="R-AXISNORM.simd"), dict(rule="R-SIMDSIB"), dict(rule="R-SIMDATTR")],
    rule="E2: one instance per packed access / scalar tail store / accumulator seed in each instantiated evaluator member; distinct by (instantiation, source line)",
    explanation="Never reading or writing outside the buffers is, for the linear paths, exactly the loop-guard dominance property; seeding with identity is necessary for reductions other than add.",
    not_decided="reductions / matmul values with the x86 back ends and everything with SIMDe (structural rules only there), floating-point reductions (re-association), shapes beyond the enumerated ones, enumerator offsets for symbolic run-time shapes",
    assumptions=["driver /verif/drivers/simd_inst.cpp instantiates the evaluator for the listed contexts"],
)

PROPS["C09"] = dict(
    level="other",
    claim="In each of the 41 index resolve_optype specialisations with a compile-time branch, that branch is defined as the paired run-time function applied to to_value_v of the specialisation's own parameters in parameter order, and every ct<>/clipped<> constant it builds is an unmodified element of that call's result - so the value computed at compile time is the value the run-time code computes, by construction. For shape_squeeze - whose clipped-tuple, fixed-array and run-time-length branches are three separate pieces of code - E1 additionally proves that all of them (std::array, utl::array, bounded static_vector, tuple of clipped integers) return the same, NumPy, result for every pattern of single extents at ranks 1..4. The 15-kind cast matrix (constant / fixed / bounded / dynamic / clipped shape x fixed / bounded / dynamic buffer) is checked by 15 type-level witnesses: the result of cast(a, kind) has exactly the shape knowledge and buffer kind its tag names, element type kept. Container-kind independence of the addressing functions (C01 obligations: std::array, utl::array, tuple, bounded run-time-length static_vector), of broadcast_shape (C06 obligations: std::array, utl::array, tuples incl. constants, mixed), of the run-time rearranging views (C03: fixed vs bounded-dimension arrays) and of isequal (C18: fixed, bounded, heap index arrays) is decided by counting those multi-kind obligations here as well: every kind is proved equal to ONE oracle text, hence the kinds agree with each other. STL vs non-STL builds and compiler independence are not decided.",
    note=E2_NOTE + " " + E1_NOTE,
    technique="static: custom libTooling extractor + by-construction rule on type-level branches (argument order, unmodified result); " + E1_TECH + " for branch agreement of shape_squeeze",
    e1=[dict(tu="c03d_squeeze.cpp"), dict(tu="c06_broadcast.cpp", count_as="C06"), dict(tu="c01_index.cpp", count_as="C01"), dict(tu="c01b_roundtrip_enum.cpp", count_as="C01"), dict(tu="c03b_dynamic.cpp", count_as="C03"), dict(tu="c18_isequal.cpp", count_as="C18"), dict(tu="c02d_capacity2.cpp"), dict(tu="c09b_bounded_values.cpp")],
    e3=[dict(group="C09")],
    e2=[dict(rule="R-CONSTBRANCH"), dict(rule="R-STICKYFAIL")],
    rule=E1_RULE + "; E2: one instance per resolve_optype<void, index::TAG_t, ...> specialisation that builds constants; distinct by (file, specialisation arguments)",
    explanation="A hand-written type-level computation, a swapped to_value argument or a post-adjusted constant (ct<at(result,i)+1>) is a structural deviation and is reported with the specialisation.",
    not_decided="branch-to-branch agreement inside one run-time function, Boost/STL/utl container independence beyond E1's kinds, gcc vs clang",
    assumptions=["exception tables tools/constbranch_tables.json (12 entries, one reason each)"],
)

PROPS["C11"] = dict(
    level="other",
    claim="All 33 specialisations of fixed_shape/fixed_dim/fixed_size/bounded_dim/bounded_size for view types derive every reported value only from the type of the view's own shape()/size() accessors (or its dst_shape_type/dst_size_type typedefs) or recursively from the same traits of operands: no literals, no value arithmetic other than the product of extents / operand bounds, never ::min for an upper bound and never ::max for an exact value. Because constant-index types carry their value in the type and clipped types clamp to max, 'reported = run time' resp. '>= run time' then holds by construction. Clipping events for particular run-time shapes are not decided. (E1, the view-level TUs of C03/C04/C08 in both array kinds) for each of ~150 instantiated view objects of stated shape: whatever fixed_shape / fixed_dim / fixed_size / bounded_dim / bounded_size report for the view's TYPE agrees with the object's shape (a fixed value equals it, a bound is not below it).",
    note=E2_NOTE,
    technique="static: custom libTooling extractor + provenance grammar over trait specialisations",
    e3=[dict(group="C11")],
    e1=[dict(tu="c03g_views.cpp"), dict(tu="c03g_views_rt.cpp"), dict(tu="c04i_views.cpp"), dict(tu="c04i_views_rt.cpp"), dict(tu="c04j_views.cpp"), dict(tu="c04j_views_rt.cpp"), dict(tu="c08c_reduce_views.cpp"), dict(tu="c08c_reduce_views_rt.cpp"), dict(tu="c05b_forms.cpp"), dict(tu="c05b_forms.cpp", flags=["-DVERIF_RT_KIND"])],
    e2=[dict(rule="R-TRAITPROV")],
    rule="E2: one instance per lambda body of a trait specialisation for view::decorator_t<...>; distinct by (file, line)",
    explanation="Static knowledge disagreeing with run-time objects needs a trait value that is not read from the run-time accessor's type; that is visible in the shape of the trait's definition.",
    not_decided="whether a removed per-view specialisation lets the generic operand-size fallback apply (reported as analysis-broken through the instance floor), run-time clipping",
    assumptions=[],
)

PROPS["C08"] = dict(
    level="proof",
    claim="Partial: (E1, proof for every extent and result index, ranks 2..3, one reduction axis given at compile or run time incl. negative, keepdims on/off) index::reduction_slices designates for result index r exactly [0, extent) on the reduced axis and [r_k, r_k+1) on every other axis, and remove_dims yields NumPy's result shape; (E1, element values symbolic, constant shapes (2,3) (3,2) (3,4) (4,3) (1,3) (3,1), rank-3 shapes (2,3,2) (2,2,3) (3,2,2)) the element of a reduction is the left fold, accumulator first, in increasing index order over exactly the reduction slice - shown with subtract, which is neither commutative nor associative -, with an initial value the fold starts from it, axis None folds the C-order flattening, and accumulate yields the prefix folds; (E2) sum/prod/cumsum/cumprod are the add/multiply reduction resp. accumulation with operands in order, the reduce_/accumulate_/outer_ overload families hand every parameter on, no reduction-composing view drops a parameter, the accumulate axis is normalised (c08c_reduce_views, constant and run-time shapes, symbolic integer elements) sum over one axis (positive, negative, compile-time), several axes (run-time list, negative entries, compile-time tuple), keepdims (one axis, several axes, all axes), initial value, all axes; prod, amax, amin (axis, all axes, initial), reduce_subtract (order, initial first, keepdims), reduce_maximum over several axes; cumsum, cumprod, accumulate_subtract: NumPy's shape and the fold of exactly the matching source elements at every index. With a dtype wider than the element type (int8 / uint8 / int16 data, int64 dtype) both the reductions and the accumulations (cumsum, cumprod, accumulate_subtract) fold in the result type. (E2 R-REDAXIS) reductions composed inside one view function are taken over the same axis expression.",
    note=E1_NOTE + " " + E2_NOTE + " Assumes that a (start, stop) slice selects the elements start..stop-1 in order (C05, not decided) and that flatten keeps C order (proved under C03).",
    technique=E1_TECH + " + structural fold-order rule over the reduction views (custom libTooling extractor)",
    e1=[dict(tu="c08_reduce.cpp"), dict(tu="c08b_fold.cpp"), dict(tu="c08c_reduce_views.cpp"), dict(tu="c08c_reduce_views_rt.cpp"), dict(tu="c02d_capacity2.cpp")],
    e2=[dict(rule="R-FOLD"), dict(rule="R-AXISNORM"), dict(rule="R-UFWD.reduce"), dict(rule="R-PARAMUSE"), dict(rule="R-REDAXIS"), dict(rule="R-EITHERSIB")],
    rule=E1_RULE + "; E2: one instance per sum/prod/cumsum/cumprod overload, per reduce_/accumulate_/outer_ overload, per parameter of a reduction-composing view",
    explanation="Which elements enter a fold is an index-level fact (the slices), decided for all values; the order and accumulator position are structural facts of the fold loop.",
    not_decided="several reduction axes at once, axis=None path beyond 'flatten the whole array', dtype/initial value arithmetic, mean/var/stddev/vector_norm/trace, the slicing view (C05)",
    assumptions=["slice [start,stop) selects start..stop-1 in increasing order (C05)", "extents >= 1"],
)

PROPS["C05"] = dict(
    level="proof",
    claim="Partial, small extents, every element value: (E1 c05_slice) for an axis of extent N = 1..3 (thorough: 4) EVERY combination of start and stop in {None, -N-2 .. N+2} with step in {absent, None, 1, 2, 3, -1, -2, -3} (tuple form with typed parts) gives view::slice exactly the length of Python's slice.indices rule and element k = source element start' + k*step, on arrays of constant shape and - extent 3 - on arrays whose shape is a run-time value; the same for the all-integer index-array forms {start,stop,step} / {start,stop} and for the run-time list handed to apply_slice (array of index arrays: length and elements; list of either-typed parts: lengths only), so the compile-time and run-time encodings agree with the one oracle and hence with each other. Since slice.indices clamps, |start|,|stop| > N behave like N+1, which is enumerated: for these extents the enumeration is exhaustive in start and stop. (E1 c05b_forms) integers drop their axis and negative ones count from the end, an ellipsis stands for the unnamed axes (alone, leading, trailing, between integers / ranges, standing for no axis), several sliced axes are independent, an empty range gives an empty axis, a slice of a slice composes. Extents above 4, |step| > 3 and heap-backed shapes are not decided. (c05c_lengths, index level, SYMBOLIC extent) for every extent n below 2^40: a[:] has n elements and a[::k] / a[::-k] have ceil(n/k) for k = 1, 2, 3. For the same symbolic extent and a symbolic result index i below that length, a[::k][i] reads position i*k and a[::-k][i] position n-1-i*k.",
    note=E1_NOTE + " The oracle is Python's documented slice.indices algorithm written as a constexpr function of four integers in the driver. Decided after the repair `fix: slice ranges follow Python's start/stop normalisation` (the unchanged upstream code deviated from Python for most negative / out-of-range / empty combinations, see DESIGN 8.8).",
    technique=E1_TECH + " (exhaustive enumeration of the slice parameters over small extents, element values symbolic)",
    e1=[dict(tu="c05c_lengths.cpp"), dict(tu="c05_slice.cpp", flags=["-DC05_N=1"]), dict(tu="c05_slice.cpp", flags=["-DC05_N=2"]), dict(tu="c05_slice.cpp", flags=["-DC05_N=3"]),
        dict(tu="c05_slice.cpp", flags=["-DC05_N=3", "-DVERIF_RT_KIND"]),
        dict(tu="c05_slice.cpp", flags=["-DC05_N=2", "-DC05_FIRST=8", "-DC05_LAST=21"]),
        dict(tu="c05_slice.cpp", flags=["-DC05_N=2", "-DC05_FIRST=8", "-DC05_LAST=21", "-DVERIF_RT_KIND"]),
        dict(tu="c05b_forms.cpp"), dict(tu="c05b_forms.cpp", flags=["-DVERIF_RT_KIND"]),
        dict(tu="c05_slice.cpp", flags=["-DC05_N=4"], thorough_only=True), dict(tu="c05_slice.cpp", flags=["-DC05_N=4", "-DVERIF_RT_KIND"], thorough_only=True),
        dict(tu="c05_slice.cpp", flags=["-DC05_N=3", "-DC05_FIRST=8", "-DC05_LAST=21"], thorough_only=True),
        dict(tu="c05_slice.cpp", flags=["-DC05_N=2", "-DVERIF_RT_KIND"], thorough_only=True)],
    rule=E1_RULE,
    explanation="index::shape_slice / index::slice depend on (extent, start, stop, step) only; with these as constants the whole view folds and each (combination, position) is one obligation whose expected value comes from Python's slice.indices.",
    not_decided="extents above 4, |step| above 3, step 0 (Python raises; the library has no failure channel there), heap (std::vector) shapes and slice lists, elements of the either-typed run-time list (std::variant bookkeeping does not fold), mutable_slice write-through",
    assumptions=["operands do not alias", "extent, start, stop, step as listed"],
)

PROPS["C17"] = dict(
    level="proof",
    claim="Partial, one clause only: (E1 c17_pool, index level, exhaustive over small parameters) the output shape of 2-d pooling is the standard formula - floor((H-k)/s)+1, in ceil mode the ceiling with a last window that would start beyond the input dropped (PyTorch's rule), batch and channel extents kept - for every H in 1..7, k in 1..min(H,3), s in 1..3, both modes, on either spatial axis; and the window of output position p is rows / columns [p*s, p*s+k) with the batch / channel position kept, inside the input in floor mode and starting inside it in ceil mode. (E1 c17b_conv_shape, view level, constant shapes; the run-time kind does not fold) the output shape of conv1d / conv2d is floor((L + 2p - d(k-1) - 1)/s) + 1 per spatial axis for a stride, a zero padding and a dilation given per axis (asymmetric ones included), (N, C_out, ...) in front, for a batch of 1 and (since the repair F52) of 2 samples. (E1 c17c_pool_elem, constant and run-time shapes, symbolic INTEGER values of either sign) every element of max_pool2d is the maximum of exactly its window (2x2 stride 2 on two channels, overlapping rows, a non-square kernel, ceil mode with clipped last windows). (E1 c17d_nn_elem) linear with and without bias equals the nested-loop definition for integer data of constant shape (2,3)x(2,3) / (1,3)x(2,3). (E2 R-REDAXIS) every reduction composed inside one view function (softmax, var, layer / instance / group normalisation, cosine_similarity) is taken over the same axis expression as its siblings. The ELEMENT laws of average pooling, convolution, normalisation, softmax, bilinear and the distances are NOT decided (bilinear / conv1d / conv2d do not fold; the floating-point routines are out of reach).",
    note=E1_NOTE + " The functions depend on (extent, kernel, stride, mode) only; these are constants, so the float quotient is folded by the compiler. Decided after the repair `fix: pooling in ceil mode drops a last window that would start beyond the input` (F35).",
    technique=E1_TECH + " (exhaustive enumeration of pooling parameters) + structural sibling-agreement rule over composed reductions (custom libTooling extractor)",
    e2=[dict(rule="R-REDAXIS")],
    e1=[dict(tu="c17_pool.cpp"), dict(tu="c17b_conv_shape.cpp", flags=["-DC17B_PART=1"]), dict(tu="c17b_conv_shape.cpp", flags=["-DC17B_PART=2"]), dict(tu="c17c_pool_elem.cpp"), dict(tu="c17c_pool_elem.cpp", flags=["-DVERIF_RT_KIND"]), dict(tu="c17d_nn_elem.cpp")],
    rule=E1_RULE,
    explanation="shape_pool2d / slice_pool2d are integer functions of four small parameters per axis; each (parameter combination, clause) is one obligation against the formula of the property statement.",
    not_decided="every element law of C17 except max pooling and linear on the listed shapes (average pooling, conv1d / conv2d, softmax / softmin, the normalisations, bilinear, pairwise_distance, cosine_similarity); convolution with groups and several output channels per group (output channel o is computed from group o % G on the unchanged tree, observed and not repaired); pooling extents above 7",
    assumptions=["kernel not larger than the input", "no padding, no dilation (pool2d has neither parameter)"],
)

HOOK_COMMITS = []
PROPS["C16"] = dict(
    level="other",
    claim="Partial, small scope: for operands of CONSTANT small shape with symbolic integer element values, the element of view::matmul is the sum of products over exactly the contracted index with NumPy's result shape - 2-d operands (1,1,1) (2,2,2) (2,3,2) (3,2,4) (1,4,3) (3,3,1) and batched operands incl. a broadcast batch axis on either side - and trace is the sum of the diagonal; in the thorough tier also matmulv2 (the tile/reshape/transpose/multiply/sum pipeline), dot / inner / vecdot of vectors, outer, kron (2,2)x(2,2) and tensordot with one contracted axis. Every operation of the view pipeline is compiled for those shapes and folded by LLVM, the values stay symbolic. matmul of operands of DIFFERENT rank ((M,K)x(B,K,P), (B,M,K)x(K,P), (A,B,M,K)x(B,K,P)) reads each operand's batch position at its own offset. Larger or run-time shapes, 1-d operand promotion in matmul, tensordot with explicit axis lists and floating-point data are not decided. (c16b_runtime) on fixed-dimension arrays with run-time shapes: matmul (2-d, batched with a broadcast batch axis), dot (vector.vector, vector.matrix, matrix.vector), inner, vecdot, outer, tensordot(1), trace (2-d and rank 3 with default axes) have a value and equal the defining sums. (c16c_capacity, index level) tensordot_lhs_reshape, dot_lhs_reshape, dot_lhs_tile, inner_lhs_reshape on bounded-dimension shapes that fill their capacity return a container that holds every extent (and, for tensordot, the defined extents).",
    note=E1_NOTE + " The shapes are compile-time constants (tuple of meta::ct), i.e. the constant-shape branch of every index function on the path is what is proved; the run-time-shape branches of the same pipelines are covered only as far as C01-C08 cover the individual index functions.",
    technique=E1_TECH + " on view pipelines of constant shape (symbolic values)",
    e1=[dict(tu="c16_linalg.cpp"), dict(tu="c16b_runtime.cpp"), dict(tu="c16c_capacity.cpp")],
    rule=E1_RULE,
    explanation="expected element written as the nested sum a(i,0)*b(0,j) + a(i,1)*b(1,j) + ... in index order; integer arithmetic wraps identically on both sides (-fwrapv), so the equality is exact for every value.",
    not_decided="run-time shapes, shapes beyond the listed ones, 1-d promotion in matmul, tensordot with axis lists, floating point",
    assumptions=["operands do not alias the result (views are evaluated lazily, no output buffer involved)"],
)

NOT_APPLICABLE = [
]
