"""Which analysis components decide which property (DESIGN.md §3)."""
PROPS = {
 "C01": dict(
    level="proof",
    claim="Proof, for every extent and index at ranks 1..4 (thorough: 1..6) on fixed-rank shape containers, of the stride, offset, indices, ndindex, product and reverse formulas the property states; the bijection/ordering clauses that follow from them by the mixed-radix theorem are not decided.",
    note="Trusted: LLVM 14 mid-end soundness, libstdc++, correctness of the obligation text; assumes extents>=1; dynamic/bounded containers not covered. A behaviour-preserving rewrite LLVM can no longer normalise would be reported (small-step obligations keep this unlikely).",
    technique="static: LLVM -O2 dead-branch elimination of symbolic obligations (compile-time assertion over optimised IR)",
    e1=[dict(tu="c01_index.cpp")],
    rule="E1: one obligation per (clause, container kind, rank, axis); non-trivial = the obligation point is reachable in the optimised declare-mode IR; distinct by (driver function, obligation id, integer parameters)",
    explanation="Stride/offset/indices formulas of the property statement are stated as branch-to-noreturn obligations over fully symbolic shapes and indices and discharged by LLVM -O2 (dead-branch elimination = proof for all values).",
    not_decided="round-trip identity / injectivity / enumeration order (mixed-radix theorem, not dischargeable); dynamic and bounded shape containers",
    assumptions=["extents >= 1 where the property says positive extents", "fixed-rank container kinds (std::array, utl::array, tuple) at the ranks listed in samples"],
 ),
}

HOOK_COMMITS = []
NOT_APPLICABLE = [
 dict(property_id="C05", reason="slice lengths go through ceil(float) and an 8-way sign/None case split on run-time values; no sound static argument in reach, and weaker structural proxies are not necessary conditions (DESIGN §3 C05)"),
 dict(property_id="C08", reason="which elements enter which fold is decided by run-time slices+flatten loops over run-time extents; only a shape clause would be reachable and would misrepresent the property (DESIGN §3 C08)"),
 dict(property_id="C16", reason="value-level sums over run-time contraction lengths through 5-8 stage view pipelines; nothing structural that is also necessary (DESIGN §3 C16)"),
 dict(property_id="C17", reason="floating-point results of long view pipelines with tolerance; nothing structural that is also necessary (DESIGN §3 C17)"),
]
# properties not yet claimed while the framework is being built are listed as not applicable *for now*
