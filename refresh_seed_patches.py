#!/usr/bin/env python3
# maintenance helper: make sure every /verif/seeded/<id>/patch.diff applies to the CURRENT /repo HEAD (re-bases it with a 3-way apply when
# a later fix: commit touched the same file); prints one line per seed
import os, subprocess, glob, sys
WT = "/var/tmp/seedwt"
def sh(c, cwd=None): p = subprocess.run(c, shell=True, cwd=cwd, capture_output=True, text=True); return p.returncode, p.stdout + p.stderr
if os.path.isdir(WT): sh("git -C /repo worktree remove --force " + WT)
rc, o = sh("git -C /repo worktree add --detach %s HEAD" % WT)
bad = 0
for d in sorted(glob.glob("/verif/seeded/*/")):
    pf = os.path.join(d, "patch.diff")
    sh("git checkout -q -- . && git clean -fdq", cwd=WT)
    rc, o = sh("git apply --check " + pf, cwd=WT)
    if rc == 0: print(os.path.basename(d[:-1]), "applies"); continue
    rc, o = sh("git apply --3way " + pf, cwd=WT)
    if rc == 0:
        sh("git reset -q", cwd=WT); rc2, diff = sh("git diff", cwd=WT); open(pf, "w").write(diff); print(os.path.basename(d[:-1]), "re-based (3-way)")
    else:
        bad += 1; print(os.path.basename(d[:-1]), "DOES NOT APPLY:", o.strip().splitlines()[-1][:160])
sh("git -C /repo worktree remove --force " + WT)
sys.exit(1 if bad else 0)
