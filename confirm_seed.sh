#!/bin/bash
# maintenance helper (not a registered check): confirm one seeded change in a scratch worktree that already has a full build.
# usage: confirm_seed.sh <worktree-with-_build> <seed-dir>     writes <seed-dir>/confirm.log and prints a one-line verdict
WT=$1; SD=$2; LOG=$SD/confirm.log
: > $LOG
cd $WT || exit 2
git checkout -q -- . ; git status --short | grep -v _build >> $LOG
base_summary() { for b in tests/array/numeric-tests-doctest tests/meta/numeric-tests-doctest-meta tests/utility/numeric-tests-utility-doctest tests/utl/utl/numeric-tests-utl tests/utl/meta/numeric-tests-utl-meta tests/utl/array/numeric-tests-utl-array; do ./_build/$b 2>&1 | sed "s#$WT#/repo#g" | grep -E "ERROR|test cases|assertions|^  [a-z]" ; done; }
if [ ! -f $WT/.baseline_summary ]; then cmake --build _build -j ${JOBS:-6} >> $LOG 2>&1; base_summary > $WT/.baseline_summary; fi
# demo on the unmodified tree
EXTRA=""; grep -q "simd" $SD/demo.cpp && EXTRA="-mavx2 -mfma"
g++ -std=c++17 -I$WT/include $EXTRA $SD/demo.cpp -o $SD/demo_base >> $LOG 2>&1 && ( cd $SD && timeout 120 ./demo_base > demo_base.out 2>&1; echo $? > demo_base.rc )
git apply $SD/patch.diff >> $LOG 2>&1 || { echo "$SD: PATCH DOES NOT APPLY"; exit 3; }
cmake --build _build -j ${JOBS:-6} >> $LOG 2>&1; BRC=$?
ctest --test-dir _build -j4 --timeout 900 >> $LOG 2>&1; CRC=$?
base_summary > $SD/seed_summary.txt
if diff -q $WT/.baseline_summary $SD/seed_summary.txt > /dev/null; then SAME=1; else SAME=0; fi
g++ -std=c++17 -I$WT/include $EXTRA $SD/demo.cpp -o $SD/demo_mod >> $LOG 2>&1 && ( cd $SD && timeout 120 ./demo_mod > demo_mod.out 2>&1; echo $? > demo_mod.rc )
git checkout -q -- .
echo "$(basename $SD): build_rc=$BRC ctest_rc=$CRC summaries_identical=$SAME demo_base_rc=$(cat $SD/demo_base.rc 2>/dev/null) demo_mod_rc=$(cat $SD/demo_mod.rc 2>/dev/null)" | tee -a $LOG
