#!/usr/bin/env python3
# maintenance helper: print the markdown table of DESIGN §8.6 from /verif/seeded/*/meta.json
import json, glob, os
rows = []
for p in sorted(glob.glob('/verif/seeded/*/meta.json')):
    m = json.load(open(p))
    c = m.get('confirmed_by_me', {})
    what = (m.get('what_breaks') or '').replace('\n', ' ').replace('|', '/')
    what = what[:230] + ('…' if len(what) > 230 else '')
    caught = '; '.join('%s: %s' % (k, 'caught' if 'exits 1' in v else 'MISSED (%s)' % v) for k, v in m.get('caught_by', {}).items())
    rep = ''
    for k, v in m.get('reports', {}).items():
        if v: rep = v[0].replace('|', '/')[:150]; break
    rows.append('| %s | %s | %s | %s objects recompiled, %s | %s | %s |' % (m['id'], ', '.join(os.path.basename(f) for f in (m.get('files') or [])), what,
                c.get('recompiled_test_objects'), c.get('verdict'), caught, rep))
print('| seed | file | what breaks | my confirmation | check | first report |')
print('|---|---|---|---|---|---|')
print('\n'.join(rows))
