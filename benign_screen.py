#!/usr/bin/env python3
"""Maintenance helper (not a registered check): false-alarm screen.

usage: benign_screen.py <dir-with-<id>/patch.diff> [-j N] [--props C01,C02,...] [--only <id-glob>]

Every <id>/patch.diff is a behaviour-preserving edit of the library (written by somebody who has not seen /verif). Each is
applied to a scratch copy of /repo/include (VERIF_REPO; /repo itself is not touched) and EVERY registered quick check is run
against it. A check that exits non-zero on such a tree is a false alarm (exit 1) or a brittle anchor (exit 2); the summary
is written to <dir>/screen.json.
"""
import sys, os, json, glob, shutil, subprocess, fnmatch, concurrent.futures as cf

sys.path.insert(0, "/verif")
import registry

root = os.path.abspath(sys.argv[1])
jobs = int(sys.argv[sys.argv.index("-j") + 1]) if "-j" in sys.argv else 3
props = sys.argv[sys.argv.index("--props") + 1].split(",") if "--props" in sys.argv else sorted(p for p in registry.PROPS if p not in registry.NOT_APPLICABLE)
only = sys.argv[sys.argv.index("--only") + 1] if "--only" in sys.argv else "*"
related_only = "--related" in sys.argv   # only the properties whose anchor files contain the patched file (plus the patch's own property)
ANCH = {}
for line in open("/verif/properties.jsonl"):
    d = json.loads(line); ANCH[d["id"]] = d.get("anchors", {}).get("files", [])


def related(sid, patch):
    files = [l[6:].strip() for l in open(patch) if l.startswith("+++ b/")]
    out = set([sid.split("_")[0]])
    for pid, fl in ANCH.items():
        for a in fl:
            if any(f == a or (a.endswith("/") and f.startswith(a)) for f in files): out.add(pid)
    return sorted(p for p in out if p in props)


DEPS = {}
def tu_deps():
    """repo headers every E1 driver TU includes (clang -M on the unchanged tree), cached for the run"""
    global DEPS
    if DEPS: return DEPS
    cache = "/var/tmp/benign_tu_deps.json"
    if os.path.exists(cache) and os.path.getmtime(cache) > max(os.path.getmtime(p) for p in glob.glob("/verif/obligations/*")):
        DEPS = json.load(open(cache)); return DEPS
    tus = sorted(set(c["tu"] for p in registry.PROPS.values() for c in p.get("e1", [])))
    def dep(tu):
        r = subprocess.run(["clang++", "-std=gnu++17", "-M", "-w", "-DNMTOOLS_VERIF", "-DNDEBUG", "-I/repo/include", "-I/verif/obligations", "/verif/obligations/" + tu], capture_output=True, text=True)
        fs = set(x for x in r.stdout.replace("\\\n", " ").split() if x.startswith("/repo/include/"))
        return tu, sorted(f[len("/repo/"):] for f in fs)
    with cf.ThreadPoolExecutor(6) as ex:
        DEPS = dict(ex.map(dep, tus))
    json.dump(DEPS, open(cache, "w"))
    return DEPS


def one(pd):
    sid = os.path.basename(pd); patch = os.path.join(pd, "patch.diff")
    scratch = "/var/tmp/benign_%s_%d" % (sid, os.getpid()); shutil.rmtree(scratch, ignore_errors=True); os.makedirs(scratch)
    r = subprocess.run("cp -r /repo/include %s/ && cd %s && patch -p1 -s --no-backup-if-mismatch < %s" % (scratch, scratch, patch), shell=True, capture_output=True, text=True)
    if r.returncode:
        shutil.rmtree(scratch, ignore_errors=True); return sid, dict(applies=False, err=(r.stdout + r.stderr)[-300:])
    run = related(sid, patch) if related_only else props
    files = [l[6:].strip() for l in open(patch) if l.startswith("+++ b/")]
    skip = [tu for tu, d in tu_deps().items() if not any(f in d for f in files)]
    res = dict(applies=True, checks={}, ran=run, e1_tus_reanalysed=len(tu_deps()) - len(skip))
    for p in run:
        c = subprocess.run(["python3", "/verif/check.py", p, "--tier", "quick"], capture_output=True, text=True,
                           env=dict(os.environ, VERIF_REPO=scratch, VERIF_JOBS="4", VERIF_SKIP_E1_TUS=",".join(skip)))
        if c.returncode:
            lines = c.stdout.splitlines()
            res["checks"][p] = dict(exit=c.returncode, reports=[l.strip()[:300] for l in lines if l.strip().startswith("->") or "analysis broken" in l or "BROKEN" in l][:6])
    shutil.rmtree(scratch, ignore_errors=True)
    return sid, res


dirs = sorted(d for d in glob.glob(os.path.join(root, "*")) if os.path.exists(os.path.join(d, "patch.diff")) and fnmatch.fnmatch(os.path.basename(d), only))
out = {}
if os.path.exists(os.path.join(root, "screen.json")): out = json.load(open(os.path.join(root, "screen.json")))
with cf.ThreadPoolExecutor(jobs) as ex:
    for sid, res in ex.map(one, dirs):
        out[sid] = res
        bad = res.get("checks")
        print(sid, "does not apply" if not res["applies"] else ("SILENT (%d checks, %d E1 TUs depend on the edited file)" % (len(res["ran"]), res["e1_tus_reanalysed"]) if not bad else "ALARM " + json.dumps(bad)[:600]), flush=True)
        json.dump(out, open(os.path.join(root, "screen.json"), "w"), indent=1)
