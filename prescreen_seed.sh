#!/bin/bash
# maintenance helper: run checks against a scratch copy of /repo/include with a seed patch applied (does not touch /repo)
# usage: prescreen_seed.sh <patch> <Cxx> [<Cxx> ...]
P=$1; shift
D=/var/tmp/pre_$$; rm -rf $D; mkdir -p $D; cp -r /repo/include $D/
( cd $D && patch -p1 -s --no-backup-if-mismatch < $P ) || { echo "PATCH DOES NOT APPLY: $P"; rm -rf $D; exit 3; }
for c in "$@"; do VERIF_REPO=$D VERIF_JOBS=${VERIF_JOBS:-4} python3 /verif/check.py $c --tier quick 2>&1 | grep -E "VIOLATION|tier=|analysis broken" | head -4; done
rm -rf $D
