#include "nmtools/array/view/arange.hpp"
#include "nmtools/array/array/arange.hpp"
#include <cstdio>
namespace nm=nmtools; namespace view=nm::view;
template <class V> int chk(const char* n, const V& v, std::initializer_list<double> want){
  auto s = nm::shape(v); size_t L = nm::at(s,nm::meta::ct_v<0>); int bad=0;
  if (L != want.size()) { printf("%s: length %zu want %zu\n", n, L, want.size()); return 1; }
  size_t i=0; for (double w : want) { double g = (double)v(i); if (g != w) { printf("%s: [%zu] = %g want %g\n", n, i, g, w); bad=1; } i++; }
  return bad;
}
int main(){
  int bad=0;
  bad |= chk("arange(5,1,-1) float", view::arange(5,1,-1), {5,4,3,2});
  bad |= chk("arange(5,1,-2) float", view::arange(5,1,-2), {5,3});
  bad |= chk("arange(5,1,-1) int32", view::arange(5,1,-1,nm::int32), {5,4,3,2});
  bad |= chk("arange(1,5,2) float", view::arange(1,5,2), {1,3});
  bad |= chk("arange(4) float", view::arange(4), {0,1,2,3});
  bad |= chk("arange(-3,1) float", view::arange(-3,1), {-3,-2,-1,0});
  printf("bad=%d\n",bad); return bad;
}
