#include "nmtools/array/index/slice.hpp"
#include "nmtools/array/view/slice.hpp"
#include "nmtools/array/array/slice.hpp"
#include <cstdio>
#include <array>
namespace nm=nmtools; namespace ix=nm::index; namespace view=nm::view;
using nm::None;
template <class S> void run(const char* name, size_t n, S slc){
  auto r = ix::shape_slice(std::array<size_t,1>{n}, slc);
  printf("%-14s n=%zu -> len=%zu : ", name, n, (size_t)nm::at(r,0));
  size_t L = nm::at(r,0); if (L>20) { printf("(huge)\n"); return; }
  for (size_t k=0;k<L;k++){ auto s = ix::slice(std::array<size_t,1>{k}, std::array<size_t,1>{n}, slc); printf("%ld ", (long)nm::at(s,0)); } printf("\n");
}
int main(){
  run("[1:3]",5,nmtools_tuple{1,3});
  run("[5:]",3,nmtools_tuple{5,None});
  run("[-5:]",3,nmtools_tuple{-5,None});
  run("[:10]",3,nmtools_tuple{None,10});
  run("[1:10:2]",5,nmtools_tuple{1,10,2});
  run("[::-1]",4,nmtools_tuple{None,None,-1});
  run("[10::-1]",4,nmtools_tuple{10,None,-1});
  run("[-2:]",5,nmtools_tuple{-2,None});
  run("[:-2]",5,nmtools_tuple{None,-2});
  run("[3:1]",5,nmtools_tuple{3,1});
  run("[3:1:-1]",5,nmtools_tuple{3,1,-1});
  run("[-1:-4:-2]",5,nmtools_tuple{-1,-4,-2});
  run("[::2]",5,nmtools_tuple{None,None,2});
  run("[::3]",5,nmtools_tuple{None,None,3});
  run("[1::-1]",5,nmtools_tuple{1,None,-1});
  run("[:1:-1]",5,nmtools_tuple{None,1,-1});
  run("[:-7]",5,nmtools_tuple{None,-7});
  run("[-7:2]",5,nmtools_tuple{-7,2});
  run("[4:-7:-1]",5,nmtools_tuple{4,-7,-1});
}
