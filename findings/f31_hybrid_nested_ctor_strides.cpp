#include "nmtools/array/ndarray/hybrid.hpp"
#include <cstdio>
namespace na=nmtools::array;
int main(){
  auto a = na::hybrid_ndarray<int,12,2>({{1,2,3},{4,5,6}});
  int want[2][3]={{1,2,3},{4,5,6}}; int bad=0;
  auto st=a.strides(); printf("strides %zu %zu\n",(size_t)st[0],(size_t)st[1]);
  for(int i=0;i<2;i++)for(int j=0;j<3;j++) if(a(i,j)!=want[i][j]){bad++;printf("a(%d,%d)=%d want %d\n",i,j,a(i,j),want[i][j]);}
  auto b = na::hybrid_ndarray<int,12,3>({{{1,2},{3,4}},{{5,6},{7,8}}});
  if (b(1,0,1)!=6) {bad++; printf("b(1,0,1)=%d want 6\n", b(1,0,1));}
  return bad;
}
