// F52 (C17): conv1d / conv2d with a batch of more than one sample: index::conv_reshape_input never copied the batch extent into the reshaped
// input shape (it stayed 1), so the reshape was invalid - a build failure for constant shapes, an assertion / Nothing for run-time shapes.
// g++ -std=c++17 -I/repo/include f52_conv_batch.cpp && ./a.out   (exit 0: shape (2,3,2,2), every element = the nested-loop definition)
#include "nmtools/array/view/conv2d.hpp"
#include "nmtools/array/view/conv1d.hpp"
#include "nmtools/array/ndarray.hpp"
#include <cstdio>
namespace nm=nmtools; namespace view=nm::view;
int main(){
  int x[2][2][3][3]; int w[3][2][2][2]; int k=0; for(auto&a:x)for(auto&b:a)for(auto&c:b)for(auto&d:c) d=(k++%7)-3; k=0; for(auto&a:w)for(auto&b:a)for(auto&c:b)for(auto&d:c) d=(k++%5)-2;
  auto mv = view::conv2d(x,w);
  if (!nm::has_value(mv)) { printf("Nothing\n"); return 2; }
  auto v = nm::unwrap(mv); auto sh = nm::shape(v);
  printf("shape (%zu,%zu,%zu,%zu)\n",(size_t)nm::at(sh,0),(size_t)nm::at(sh,1),(size_t)nm::at(sh,2),(size_t)nm::at(sh,3));
  int bad=0;
  for(size_t n=0;n<2;n++)for(size_t o=0;o<3;o++)for(size_t i=0;i<2;i++)for(size_t j=0;j<2;j++){ long want=0; for(size_t c=0;c<2;c++)for(size_t a=0;a<2;a++)for(size_t b=0;b<2;b++) want+=x[n][c][i+a][j+b]*w[o][c][a][b]; long got=v(n,o,i,j); if(got!=want){bad++; if(bad<4) printf("(%zu,%zu,%zu,%zu) got %ld want %ld\n",n,o,i,j,got,want);} }
  printf("bad=%d\n",bad); return bad!=0; }
