#include "nmtools/array/ndarray.hpp"
#include <array>
#include <vector>
#include <cstdio>
namespace na = nmtools::array;
int main(){
  { // hybrid buffer (static_vector), fixed-rank shape, wrong-rank request
    na::ndarray_t<nmtools::utl::static_vector<float,24>, std::array<size_t,2>> a;
    a.resize(2,3);
    printf("before: len=%zu shape=(%zu,%zu)\n",(size_t)nmtools::len(a.data_),a.shape_[0],a.shape_[1]);
    bool ok = a.resize(std::array<size_t,3>{2,2,2});
    printf("resize((2,2,2)) -> %d ; after: len=%zu shape=(%zu,%zu)\n",ok,(size_t)nmtools::len(a.data_),a.shape_[0],a.shape_[1]);
  }
  { // dynamic buffer
    na::ndarray_t<std::vector<float>, std::array<size_t,2>> a;
    a.resize(2,3);
    bool ok = a.resize(std::array<size_t,3>{2,2,2});
    printf("vector buffer: resize((2,2,2)) -> %d ; after: len=%zu shape=(%zu,%zu)\n",ok,(size_t)nmtools::len(a.data_),a.shape_[0],a.shape_[1]);
  }
  { // fixed buffer + dynamic shape: refusing path resizes shape first
    na::ndarray_t<std::array<float,6>, std::vector<size_t>> a;
    a.resize(2,3);
    printf("fixed buf dyn shape before: dim=%zu\n",(size_t)nmtools::len(a.shape_));
    bool ok = a.resize(std::array<size_t,3>{2,2,2});
    printf("resize((2,2,2)) -> %d ; after: dim=%zu shape=(%zu,%zu..)\n",ok,(size_t)nmtools::len(a.shape_),a.shape_[0],a.shape_[1]);
  }
}
