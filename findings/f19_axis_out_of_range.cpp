// F19 replay (g++ -std=c++17 -DNDEBUG -I/repo/include f19.cpp; run with argument 1..5): an out-of-range axis reaches unwrap(normalize_axis(..)) unchecked.
//   1 sum(a,5): std::out_of_range -> terminate   2 mean(a,5): garbage index -> terminate   3 diagonal(a,0,5,1): silently returns [0,4]
//   4 expand(a,5): silently expands axis 1       5 sliding_window(a,2,5): terminate.   Without -DNDEBUG the library assert in unwrap() aborts. NumPy raises AxisError in every case.
#include "nmtools/array/array/sum.hpp"
#include "nmtools/array/array/diagonal.hpp"
#include "nmtools/array/array/expand.hpp"
#include "nmtools/array/array/sliding_window.hpp"
#include "nmtools/array/array/mean.hpp"
#include "nmtools/utility/to_string.hpp"
#include "nmtools/utility/has_value.hpp"
#include <iostream>
namespace nm=nmtools; namespace na=nm::array;
int main(int argc, char** argv){ int which = argc>1 ? atoi(argv[1]) : 0; argc = 1;
  int a[2][3] = {{0,1,2},{3,4,5}};
  int bad = 5 + argc - 1;   // out-of-range axis, not a compile-time constant
  if (which==1) { std::cout << "sum(a, axis=5): " << std::flush; { auto r = na::sum(a, bad); std::cout << nm::utils::to_string(r) << std::endl; } }
  if (which==2) { std::cout << "mean(a, axis=5): " << std::flush; { auto r = na::mean(a, bad); std::cout << nm::utils::to_string(r) << std::endl; } }
  if (which==3) { std::cout << "diagonal(a,0,5,1): " << std::flush; { auto r = na::diagonal(a, 0, bad, 1); std::cout << nm::utils::to_string(r) << std::endl; } }
  if (which==4) { std::cout << "expand(a, 5): " << std::flush; { auto r = na::expand(a, bad); std::cout << nm::utils::to_string(r) << std::endl; } }
  if (which==5) { std::cout << "sliding_window(a,2,5): " << std::flush; { auto r = na::sliding_window(a, 2, bad); std::cout << nm::utils::to_string(r) << std::endl; } }
}
