#include "nmtools/utility/isclose.hpp"
#include "nmtools/array/ndarray.hpp"
#include <cstdio>
#include <variant>
namespace nm=nmtools; using nm::utils::isclose;
int main(){
  int bad=0;
  #define CK(e,want) do{ bool g=(e); if(g!=(want)){bad++; printf("BAD %s got %d\n",#e,(int)g);} }while(0)
  CK(isclose(3u,4u,2.0),true); CK(isclose(4u,3u,2.0),true); CK(isclose(3u,9u,2.0),false); CK(isclose(9u,3u,2.0),false);
  CK(isclose(1e-50,0.0,1e-60),false);
  CK(isclose(1,1.5),false); CK(isclose(1.5,1),false); CK(isclose(1.0f,1.0f),true); CK(isclose(0.1f,0.1),true);
  CK(isclose(1.f,1.5f,1.0),true);
  using e_t = std::variant<nm::none_t,float>;
  CK(isclose(e_t{1.f},1.5f,1.0),true); CK(isclose(1.5f,e_t{1.f},1.0),true); CK(isclose(e_t{1.f},3.5f,1.0),false);
  CK(isclose(true,true),true); CK(isclose(-3,-3),true); CK(isclose(-3,3),false);
  printf("bad=%d\n",bad); return bad;
}
