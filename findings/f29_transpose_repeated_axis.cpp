// F29 (C15): view::transpose with a run-time axes list does not validate it: a repeated axis (NumPy: "repeated axis in transpose")
// yields a view with a made-up shape instead of Nothing - the function does not even return an optional for this argument kind.
// build: g++ -std=c++17 -O1 -I/repo/include f29_transpose_repeated_axis.cpp && ./a.out   -> exit 1 while the defect is present
#include "nmtools/array/ndarray.hpp"
#include "nmtools/array/view/transpose.hpp"
#include "nmtools/utility/unwrap.hpp"
#include "nmtools/utility/has_value.hpp"
#include <cstdio>
namespace nm=nmtools; namespace na=nm::array; namespace view=nm::view;
int main(){
  na::ndarray_t<std::array<long,12>, std::array<size_t,3>> a; a.resize(std::array<size_t,3>{2,3,2});
  auto r = view::transpose(a, std::array<int,3>{0,0,1});
  if (!nm::has_value(r)) { printf("PASS: rejected\n"); return 0; }
  auto s = nm::shape(nm::unwrap(r));
  printf("FAIL: transpose((2,3,2), axes=(0,0,1)) is accepted, shape (%zu,%zu,%zu)\n", (size_t)nm::at(s,0), (size_t)nm::at(s,1), (size_t)nm::at(s,2));
  return 1;
}
