#include "nmtools/array/view/slice.hpp"
#include "nmtools/array/ndarray.hpp"
#include <cstdio>
#include <array>
#include <vector>
#include <csignal>
#include <csetjmp>
namespace nm=nmtools; namespace view=nm::view;
using nm::None;
static const int NONE = 99;
// python slice.indices
static void pyslice(long n, int s0, int s1, int st, long& start, long& step, long& len){
  step = st==NONE?1:st;
  long lower = step>0?0:-1, upper = step>0?n:n-1;
  if (s0==NONE) start = step<0?upper:lower; else { start=s0; if(start<0){start+=n; if(start<lower)start=lower;} else if(start>upper) start=upper; }
  long stop; if (s1==NONE) stop = step<0?lower:upper; else { stop=s1; if(stop<0){stop+=n; if(stop<lower)stop=lower;} else if(stop>upper) stop=upper; }
  if (step>0) len = stop>start ? (stop-start-1)/step+1 : 0; else len = start>stop ? (start-stop-1)/(-step)+1 : 0;
}
static long nbad=0, ngood=0;
template <size_t N, class S>
void check(const char* form, int s0, int s1, int st, S slc){
  std::array<std::array<int,2>,N> a; for(size_t i=0;i<N;i++){a[i][0]=10*i;a[i][1]=10*i+1;}
  long start,step,len; pyslice(N,s0,s1,st,start,step,len);
  auto v = view::slice(a, slc, nmtools_tuple{None,None});
  auto sh = nm::shape(v);
  long L = (long)nm::at(sh,0);
  bool ok = nm::len(sh)==2 && L==len && (long)nm::at(sh,1)==2;
  if (ok) for (long k=0;k<L;k++){ 
     // read safely: compute source index via indexer
     auto src = v.indexer.indices(std::array<size_t,2>{(size_t)k,1});  // may not exist; fallback below
     long si = (long)nm::at(src,0);
     if (si != start+k*step) ok=false; }
  if (!ok) { nbad++; printf("BAD %s n=%zu [%d:%d:%d] want len=%ld start=%ld got len=%ld\n", form, N, s0,s1,st,len,start,L); } else { ngood++; printf("GOOD %s n=%zu [%d:%d:%d] len=%ld\n", form,N,s0,s1,st,len); }
}
template <size_t N> void all(){
  for (int s0=-7;s0<=8;s0++) for (int s1=-7;s1<=8;s1++) for (int st=-3;st<=4;st++){
    int a0 = s0==8?NONE:s0, a1 = s1==8?NONE:s1, at_ = st==4?NONE:st; if (at_==0) continue;
    if (a0==NONE&&a1==NONE&&at_==NONE){ check<N>("nnn",a0,a1,at_,nmtools_tuple{None,None,None}); check<N>("nn",a0,a1,at_,nmtools_tuple{None,None}); }
    else if (a0!=NONE&&a1==NONE&&at_==NONE){ check<N>("inn",a0,a1,at_,nmtools_tuple{a0,None,None}); check<N>("in",a0,a1,at_,nmtools_tuple{a0,None}); }
    else if (a0==NONE&&a1!=NONE&&at_==NONE){ check<N>("nin",a0,a1,at_,nmtools_tuple{None,a1,None}); check<N>("ni",a0,a1,at_,nmtools_tuple{None,a1}); }
    else if (a0!=NONE&&a1!=NONE&&at_==NONE){ check<N>("iin",a0,a1,at_,nmtools_tuple{a0,a1,None}); check<N>("ii",a0,a1,at_,nmtools_tuple{a0,a1}); }
    else if (a0==NONE&&a1==NONE){ check<N>("nni",a0,a1,at_,nmtools_tuple{None,None,at_}); }
    else if (a0!=NONE&&a1==NONE){ check<N>("ini",a0,a1,at_,nmtools_tuple{a0,None,at_}); }
    else if (a0==NONE&&a1!=NONE){ check<N>("nii",a0,a1,at_,nmtools_tuple{None,a1,at_}); }
    else { check<N>("iii",a0,a1,at_,nmtools_tuple{a0,a1,at_}); }
  }
}
int main(){ all<1>(); all<2>(); all<3>(); all<5>(); fprintf(stderr,"good=%ld bad=%ld\n",ngood,nbad); }
