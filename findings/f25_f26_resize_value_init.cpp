// F25/F26 replay (g++ -std=c++17 -I<tree>/include): after fill, resize(1), resize(3) std::vector holds 7 0 0; utl::static_vector and utl::vector held 7 7 7,
// and utl::vector(64) held uninitialised memory. PASS on the repaired tree, FAIL before.
#include "nmtools/utl.hpp"
#include <cstdio>
namespace utl = nmtools::utl;
int main(){
  int bad = 0;
  { utl::static_vector<int,4> v(4); for (int i=0;i<4;i++) v[i]=7; v.resize(1); v.resize(3); printf("static_vector: %d %d %d\n", v[0],v[1],v[2]); bad += !(v[0]==7 && v[1]==0 && v[2]==0); }
  { utl::vector<int> v(4); for (int i=0;i<4;i++) v[i]=7; v.resize(1); v.resize(3); printf("vector: %d %d %d\n", v[0],v[1],v[2]); bad += !(v[0]==7 && v[1]==0 && v[2]==0); }
  { utl::vector<int> v(64); int s=0; for (int i=0;i<64;i++) s |= v[i]; printf("vector(64) all zero: %d\n", s==0); bad += (s!=0); }
  { utl::vector<int> v(2); v[0]=1; v[1]=2; v.resize(40); int s=0; for (int i=2;i<40;i++) s |= v[i]; printf("vector grown: %d %d rest zero: %d\n", v[0], v[1], s==0); bad += !(v[0]==1&&v[1]==2&&s==0); }
  puts(bad ? "FAIL" : "PASS"); return bad?1:0;
}
