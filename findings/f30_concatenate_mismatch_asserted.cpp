// F30 (C15): view::concatenate (and stack, which is built on it) checks the operand shapes with an assert only: with NDEBUG - the
// configuration of the baseline build - operands whose other extents or ranks differ give a view with a made-up shape instead of Nothing.
// build: g++ -std=c++17 -O1 -DNDEBUG -I/repo/include f30_concatenate_mismatch_asserted.cpp && ./a.out   -> exit 1 while the defect is present
#include "nmtools/array/ndarray.hpp"
#include "nmtools/array/view/concatenate.hpp"
#include "nmtools/utility/unwrap.hpp"
#include "nmtools/utility/has_value.hpp"
#include <cstdio>
namespace nm=nmtools; namespace na=nm::array; namespace view=nm::view;
int main(){
  na::ndarray_t<std::array<long,6>, std::array<size_t,2>> b; b.resize(std::array<size_t,2>{2,3});
  na::ndarray_t<std::array<long,4>, std::array<size_t,2>> c; c.resize(std::array<size_t,2>{2,2});
  auto r = view::concatenate(b, c, 0);      // NumPy: all the input array dimensions except for the concatenation axis must match exactly
  if (!nm::has_value(r)) { printf("PASS: rejected\n"); return 0; }
  auto s = nm::shape(nm::unwrap(r));
  printf("FAIL: concatenate((2,3),(2,2),axis=0) is accepted, shape (%zu,%zu)\n", (size_t)nm::at(s,0), (size_t)nm::at(s,1));
  return 1;
}
