// F18 replay (g++ -std=c++17 -I/repo/include): expand(a, 1, -1) divides by spacing+1 == 0: SIGFPE (exit 136) instead of an empty optional
#include "nmtools/array/array/expand.hpp"
#include "nmtools/utility/to_string.hpp"
#include <iostream>
namespace nm=nmtools;
int main(){
  int a[2][3] = {{0,1,2},{3,4,5}};
  std::cout << nm::utils::to_string(nm::array::expand(a, 1, 1)) << std::endl;
  std::cout << nm::utils::to_string(nm::array::expand(a, 1, -1)) << std::endl;
}
