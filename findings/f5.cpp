#include "nmtools/array/eval/simd/x86_avx.hpp"
#include "nmtools/array/array/arange.hpp"
#include "nmtools/array/array/ufuncs/multiply.hpp"
#include "nmtools/array/array/ufuncs/add.hpp"
#include <cstdio>
namespace nm = nmtools; namespace na = nm::array; namespace simd = na::simd; namespace meta = nm::meta;
int main(){
  // product over all elements of [1..9] (size not a multiple of 8)
  auto input = nm::unwrap(na::add(na::arange(9),1.0f));
  auto axis = nm::None; auto dtype = nm::None; auto initial = nm::None; auto keepdims = nm::False;
  auto expect = na::multiply.reduce(input,axis,dtype,initial,keepdims);
  auto result = na::multiply.reduce(input,axis,dtype,initial,keepdims,simd::x86_AVX);
  printf("scalar prod = %g ; AVX prod = %g\n",(double)(float)expect,(double)(float)result);
  return ((float)expect==(float)result)?0:1;
}
