// F28 (C14, C13): get_function_composition of a ufunc view whose first operand is another view binds a reference into the temporary
// operand pack returned by get_operands(): for arrays whose shape is a run-time value the nested view's attributes (e.g. the source shape
// of a transpose) are then read from a dead stack slot, and re-applying the extracted composition to the extracted operands gives
// Nothing / garbage instead of the view. (With compile-time shapes the attributes are empty types and nothing is read.)
// build: g++ -std=c++17 -O1 -I/repo/include f28_extract_dangling_operands.cpp && ./a.out   -> exit 0 when the re-applied view equals the view
#include "nmtools/array/functional.hpp"
#include "nmtools/array/ndarray.hpp"
#include "nmtools/array/view/transpose.hpp"
#include "nmtools/array/view/ufuncs/subtract.hpp"
#include "nmtools/utility/unwrap.hpp"
#include <cstdio>
namespace nm=nmtools; namespace na=nm::array; namespace view=nm::view; namespace fn=nm::functional;
int main(){
  na::ndarray_t<std::array<long,6>, std::array<size_t,2>> a; a.resize(std::array<size_t,2>{2,3});
  na::ndarray_t<std::array<long,2>, std::array<size_t,1>> c; c.resize(std::array<size_t,1>{2});
  for (size_t i=0;i<2;i++) for(size_t j=0;j<3;j++) a(i,j)= (long)(10*i+j+1);
  c((size_t)0)=100; c((size_t)1)=200;
  auto vm = view::subtract(view::transpose(a), c);          // (3,2) - (2,)
  if (!nm::has_value(vm)) { printf("view has no value?\n"); return 2; }
  auto v = *vm;
  auto f = fn::get_function_composition(v); auto ops = fn::get_function_operands(v);
  auto rm = fn::apply(f, ops);
  if (!nm::has_value(rm)) { printf("FAIL: re-applying the extracted composition to the extracted operands gives Nothing\n"); return 1; }
  auto r = *rm; int bad = 0;
  for (size_t i=0;i<3;i++) for(size_t j=0;j<2;j++) if ((long)r(i,j) != (long)v(i,j) || (long)v(i,j) != a(j,i) - c(j)) bad++;
  if (bad) { printf("FAIL: %d elements differ\n", bad); return 1; }
  printf("PASS\n"); return 0;
}
