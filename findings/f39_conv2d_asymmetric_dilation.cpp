#include "nmtools/array/view/conv2d.hpp"
#include "nmtools/array/view/expand.hpp"
#include "nmtools/array/ndarray.hpp"
#include <cstdio>
namespace nm=nmtools; namespace view=nm::view; namespace na=nm::array; using nm::None;
template <class S> void pr(const char* n, const S& s){ printf("%s: (", n); for (size_t i=0;i<nm::len(s);i++) printf("%zu,", (size_t)nm::at(s,i)); printf(")\n"); }
int main(){
  na::ndarray_t<std::vector<float>, std::array<size_t,4>> x; x.resize(std::array<size_t,4>{1,2,5,6});
  na::ndarray_t<std::vector<float>, std::array<size_t,4>> w; w.resize(std::array<size_t,4>{3,2,3,3});
  for (size_t i=0;i<60;i++) nm::at(x.data_,i)=i%7; for(size_t i=0;i<54;i++) nm::at(w.data_,i)=i%5;
  { auto v = view::conv2d(x,w,None,1,0,std::array<int,2>{1,2}); pr("dilation (1,2)", nm::shape(nm::unwrap(v))); }
  { auto v = view::conv2d(x,w,None,1,0,std::array<int,2>{2,1}); pr("dilation (2,1)", nm::shape(nm::unwrap(v))); }
  { auto v = view::conv2d(x,w,None,1,0,std::array<int,2>{2,2}); pr("dilation (2,2)", nm::shape(nm::unwrap(v))); }
  { auto e = view::expand(w, std::array<int,2>{-2,-1}, std::array<int,2>{0,1}); pr("expand w axes(-2,-1) spacing (0,1)", nm::shape(nm::unwrap(e))); }
  { auto e = view::expand(w, std::array<int,2>{-2,-1}, std::array<int,2>{1,0}); pr("expand w axes(-2,-1) spacing (1,0)", nm::shape(nm::unwrap(e))); }
}
