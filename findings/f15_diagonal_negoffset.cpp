// F15 replay: build with -fsanitize=address,undefined against the tree before the fix: diagonal(a,-1) reads a[0,-1] (out of bounds); NumPy gives [3,7]
#include "nmtools/array/array/diagonal.hpp"
#include "nmtools/utility/to_string.hpp"
#include <iostream>
namespace nm=nmtools;
int main(){
  int a[3][3] = {{0,1,2},{3,4,5},{6,7,8}};
  std::cout << nm::utils::to_string(nm::array::diagonal(a,1)) << "\n";
  std::cout << nm::utils::to_string(nm::array::diagonal(a,-1)) << "\n";
  std::cout << nm::utils::to_string(nm::array::diagonal(a,-2)) << "\n";
  int b[2][3][4]; for (int i=0;i<24;i++) (&b[0][0][0])[i]=i;
  std::cout << nm::utils::to_string(nm::array::diagonal(b,0,1,2)) << "\n";
  std::cout << nm::utils::to_string(nm::array::diagonal(b,-1,-2,-1)) << "\n";
  std::cout << nm::utils::to_string(nm::array::diagonal(b,0,2,0)) << "\n";
}
