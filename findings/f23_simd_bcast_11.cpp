// F23 replay (g++ -std=c++17 -mavx2 -mfma -fsanitize=address -I<tree>/include): before the fix add(a,b,simd::x86_AVX) with a of shape (1,1)
// and b of shape (2,8) reads a[1] (heap-buffer-overflow, either operand order); after it the result equals the scalar evaluation
#include "nmtools/array/eval/simd/x86_avx.hpp"
#include "nmtools/array/array/ufuncs/add.hpp"
#include "nmtools/array/ndarray.hpp"
#include "nmtools/utility/to_string.hpp"
#include <iostream>
#include <vector>
#include <array>
namespace nm = nmtools; namespace na = nm::array; namespace simd = na::simd;
int main(){
  using arr_t = na::ndarray_t<std::vector<float>, std::array<size_t,2>>; arr_t a, b; a.resize(1,1); b.resize(2,8);
  a(0,0) = 100; for (int i=0;i<2;i++) for (int j=0;j<8;j++) b(i,j) = i*8+j;
  std::cout << "scalar : " << nm::utils::to_string(na::add(a,b)) << std::endl;

  std::cout << "simd(b,a): " << nm::utils::to_string(na::add(b,a,simd::x86_AVX)) << std::endl;
}
