// F17 replay (g++ -std=c++17 -mavx2 -mfma -fsanitize=address -I<tree>/include): before the fix add.reduce(a, axis=-2 / -3, simd::x86_AVX) reads and writes outside the output buffer; after it all 3240 combinations equal the scalar evaluation
#include "nmtools/array/eval/simd/x86_avx.hpp"
#include "nmtools/array/array/arange.hpp"
#include "nmtools/array/array/reshape.hpp"
#include "nmtools/array/array/ufuncs/add.hpp"
#include "nmtools/array/array/ufuncs/multiply.hpp"
#include "nmtools/utility/isclose.hpp"
#include "nmtools/utility/isequal.hpp"
#include <cstdio>
namespace nm = nmtools; namespace na = nm::array; namespace simd = na::simd; using nmtools::unwrap;
int main(){
  int fails=0, n=0;
  for (int A=1;A<=3;A++) for (int B=1;B<=9;B++) for (int C=1;C<=10;C++) {
    auto flat = na::arange(A*B*C); for (int i=0;i<A*B*C;i++) nm::at(flat,i) = 1.0f + float((i*7)%11)/16.0f;
    auto input = na::reshape(flat, nmtools_array{A,B,C});
    for (int axis=-3; axis<3; axis++) {
      auto e = na::add.reduce(unwrap(input),axis,nm::None,nm::None,false);
      auto r = na::add.reduce(unwrap(input),axis,nm::None,nm::None,false,simd::x86_AVX);
      n++; if (!(nm::utils::isequal(nm::shape(r),nm::shape(e)) && nm::utils::isclose(r,e,1e-3))) { fails++; if (fails<5) printf("MISMATCH add (%d,%d,%d) axis %d\n",A,B,C,axis); }
      auto e2 = na::multiply.reduce(unwrap(input),axis,nm::None,nm::None,nm::True);
      auto r2 = na::multiply.reduce(unwrap(input),axis,nm::None,nm::None,nm::True,simd::x86_AVX);
      n++; if (!(nm::utils::isequal(nm::shape(r2),nm::shape(e2)) && nm::utils::isclose(r2,e2,1e-2))) { fails++; if (fails<5) printf("MISMATCH mul keepdims (%d,%d,%d) axis %d\n",A,B,C,axis); }
    }
  }
  printf("%s (%d of %d)\n", fails? "FAIL":"PASS", fails, n); return fails?1:0;
}
