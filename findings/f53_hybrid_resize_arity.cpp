// F53 (C20): hybrid_ndarray<T,MAX,3>::resize(2,3) - one extent too few - was accepted: the missing extent was zero-filled, shape (2,3,0).
// Expected after the repair: "returned 0", shape unchanged (12,1,1); resize(2,3,2) still succeeds.
#include "nmtools/array/ndarray/hybrid.hpp"
#include "nmtools/array/ndarray.hpp"
#include <cstdio>
namespace nm=nmtools; namespace na=nm::array;
int main(){
  na::hybrid_ndarray<int,12,3> a;
  bool ok = a.resize(2,3);
  auto s = a.shape();
  printf("resize(2,3) on a 3-d hybrid_ndarray: returned %d, shape (%zu,%zu,%zu)\n",(int)ok,(size_t)s[0],(size_t)s[1],(size_t)s[2]);
  bool ok2 = a.resize(2,3,2);
  auto s2=a.shape(); printf("resize(2,3,2): %d (%zu,%zu,%zu)\n",(int)ok2,(size_t)s2[0],(size_t)s2[1],(size_t)s2[2]);
}
