// F24 replay (g++ -std=c++17 -fsanitize=undefined,address -I/repo/include; or read the code): apply_isequal / apply_isclose of two EMPTY
// optionals dereference both ("if (same_null == true) equal = apply_isequal(*left,*right)").
#include "nmtools/utility/apply_isequal.hpp"
#include "nmtools/array/ndarray.hpp"
#include <optional>
#include <vector>
#include <cstdio>
namespace nm = nmtools;
int main(){
  std::optional<std::vector<int>> a, b;            // both empty
  bool r = nm::utils::apply_isequal(a, b);         // reads *a and *b: undefined behaviour (with _GLIBCXX_ASSERTIONS: abort)
  std::printf("apply_isequal(empty, empty) = %d\n", (int)r);
}
