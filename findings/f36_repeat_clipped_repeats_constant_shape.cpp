#include "nmtools/array/view/repeat.hpp"
#include "nmtools/array/array/repeat.hpp"
#include "nmtools/array/ndarray.hpp"
#include <cstdio>
namespace nm=nmtools; namespace view=nm::view; namespace meta=nm::meta;
using namespace nm::literals;
template <class V> int report(const V& v){
  auto s = nm::shape(v); int bad=0;
  printf("run-time shape of the view: (%zu,%zu)\n",(size_t)nm::at(s,0_ct),(size_t)nm::at(s,1_ct));
  if constexpr (meta::is_fixed_shape_v<V>) { constexpr auto fs = meta::fixed_shape_v<V>; printf("type reports FIXED shape (%zu,%zu)\n",(size_t)nm::at(fs,0_ct),(size_t)nm::at(fs,1_ct)); bad = 1; }
  if ((size_t)nm::at(s,0_ct)!=2) { printf("WRONG: expected extent 2 on axis 0 (np.repeat(a,[1,1],0) has shape (2,2))\n"); bad=1; }
  return bad;
}
int main(){
  int a[2][2]={{1,2},{3,4}};
  auto reps = nmtools_tuple{nm::clipped_size_t<2>(1), nm::clipped_size_t<2>(1)};
  auto v = view::repeat(a, reps, 0_ct);
  return report(v);
}
