#include "nmtools/utl/vector.hpp"
#include "nmtools/utl/static_vector.hpp"
#include <cstdio>
namespace utl = nmtools::utl;
int main(){
  { utl::vector<int> v(0); }
  utl::static_vector<int,4> s(9);
  printf("static_vector<int,4>(9).size() = %zu (capacity 4)\n",(size_t)s.size());
}
