// F47 (C05): the length of a sliced axis was computed as ceil(float(range) / step): a float has 24 bits of mantissa, so for extents above
// 2^24 the length was rounded - a[:] on an axis of 16777217 elements reported 16777216, a[::3] on 2^31 elements 715827904 (Python
// 715827883). Index level (no array of that size is allocated).
// g++ -std=c++17 -I/repo/include f47_slice_length_float_precision.cpp && ./a.out   (exit 0 = Python's lengths)
#include "nmtools/array/index/slice.hpp"
#include <cstdio>
#include <array>
namespace nm = nmtools; using nm::None;
int main()
{
    int bad = 0;
    auto len_of = [](size_t n, auto... s){ std::array<size_t,1> shape{n}; auto r = nm::index::shape_slice(shape, nmtools_tuple{s...}); return (size_t)nm::at(r, 0); };
    auto py = [](long n, long start, long stop, long step){ long r = step > 0 ? stop - start : start - stop; if (r <= 0) return 0l; long k = step > 0 ? step : -step; return (r + k - 1) / k; };
    struct { size_t n; long step; } cases[] = {{16777217, 1}, {16777219, 2}, {1ul << 31, 3}, {(1ul << 31) + 5, 7}, {100, 3}, {7, 2}};
    for (auto c : cases) {
        size_t got = len_of(c.n, None, None, (int)c.step); long want = py((long)c.n, 0, (long)c.n, c.step);
        if ((long)got != want) { bad++; printf("a[::%ld] on an axis of %zu: length %zu, Python %ld\n", c.step, c.n, got, want); }
    }
    { size_t got = len_of(16777217, None, None); if (got != 16777217) { bad++; printf("a[:] on an axis of 16777217: length %zu\n", got); } }
    printf("%d deviations\n", bad);
    return bad != 0;
}
