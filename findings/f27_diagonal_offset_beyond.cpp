// F27 replay (g++ -std=c++17 -I<tree>/include): shape_diagonal((3,3), offset 5) reported length 2^64-2 and evaluating diagonal(a,5) threw std::length_error; NumPy returns an empty array
#include "nmtools/array/view/diagonal.hpp"
#include "nmtools/array/array/diagonal.hpp"
#include "nmtools/utility/to_string.hpp"
#include <iostream>
namespace nm=nmtools;
int main(){
  int a[3][3] = {{0,1,2},{3,4,5},{6,7,8}};
  for (int off : {2, 3, 5, -3, -7}) {
    auto s = nm::index::shape_diagonal(nmtools_array<size_t,2>{3,3}, off, 0, 1);
    std::cout << "offset " << off << ": length " << (size_t)nm::at(s,0) << std::endl;
  }
  std::cout << nm::utils::to_string(nm::array::diagonal(a,5)) << std::endl;
}
