// F41 (C04): roll with an axis list that names one axis twice applied only the LAST shift of that axis
// (numpy.roll accumulates: np.roll(x, (1,2), (1,1)) == np.roll(x, 3, 1)).
// g++ -std=c++17 -I/repo/include f41_roll_repeated_axis.cpp && ./a.out   (exit 0 = NumPy's result)
#include "nmtools/array/view/roll.hpp"
#include "nmtools/array/ndarray.hpp"
#include <cstdio>
namespace nm = nmtools; namespace view = nm::view;
int main()
{
    int x[3][4] = {{0,1,2,3},{4,5,6,7},{8,9,10,11}};
    int bad = 0;
    { // repeated axis 0, shifts 1 and 1: row 0 must be the original row (0-2) mod 3 = 1
        auto v = view::roll(x, std::array<int,2>{1,1}, std::array<int,2>{0,0});
        for (size_t i=0;i<3;i++) for (size_t j=0;j<4;j++) { int want = x[(i+3-2)%3][j]; int got = (*v)(i,j); if (got!=want) { bad++; printf("roll(x,(1,1),(0,0))[%zu,%zu] = %d, NumPy %d\n", i,j,got,want); } }
    }
    { // scalar shift over a repeated axis
        auto v = view::roll(x, 1, std::array<int,2>{1,1});
        for (size_t i=0;i<3;i++) for (size_t j=0;j<4;j++) { int want = x[i][(j+4-2)%4]; int got = (*v)(i,j); if (got!=want) { bad++; printf("roll(x,1,(1,1))[%zu,%zu] = %d, NumPy %d\n", i,j,got,want); } }
    }
    { // ordinary: distinct axes
        auto v = view::roll(x, std::array<int,2>{1,-1}, std::array<int,2>{0,1});
        for (size_t i=0;i<3;i++) for (size_t j=0;j<4;j++) { int want = x[(i+3-1)%3][(j+1)%4]; int got = (*v)(i,j); if (got!=want) { bad++; printf("roll(x,(1,-1),(0,1))[%zu,%zu] = %d, NumPy %d\n", i,j,got,want); } }
    }
    printf("%d mismatches\n", bad);
    return bad != 0;
}
