// F50 (C04): the length of view::arange over an INTEGER grid was ceil(float(stop - start) / step): arange(16777217) had 16777216 elements,
// arange(0, 33554433, 2) 16777216 instead of 16777217 (NumPy computes integer ranges exactly).
// g++ -std=c++17 -I/repo/include f50_arange_length_float_precision.cpp && ./a.out   (exit 0 = NumPy's lengths)
#include "nmtools/array/view/arange.hpp"
#include "nmtools/array/ndarray.hpp"
#include <cstdio>
namespace nm = nmtools; namespace view = nm::view;
int main()
{
    int bad = 0;
    auto chk = [&](const char* what, size_t got, size_t want){ if (got != want) { bad++; printf("%s: length %zu, NumPy %zu\n", what, got, want); } };
    chk("arange(16777217)",       (size_t)nm::at(nm::shape(view::arange(16777217, nm::int32)), 0), 16777217);
    chk("arange(0,33554433,2)",   (size_t)nm::at(nm::shape(view::arange(0, 33554433, 2, nm::int32)), 0), 16777217);
    chk("arange(33554433,0,-2)",  (size_t)nm::at(nm::shape(view::arange(33554433, 0, -2, nm::int32)), 0), 16777217);
    chk("arange(5,1,1)",          (size_t)nm::at(nm::shape(view::arange(5, 1, 1, nm::int32)), 0), 0);
    chk("arange(0,7,3)",          (size_t)nm::at(nm::shape(view::arange(0, 7, 3, nm::int32)), 0), 3);
    printf("%d deviations\n", bad);
    return bad != 0;
}
