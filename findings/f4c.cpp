#include "nmtools/utl.hpp"
#include <cstdio>
namespace utl = nmtools::utl;
int main(){
  {
    utl::vector<int> v(100);
    utl::either<utl::vector<int>,int> e(v);   // holds a copy of v (100 ints on the heap)
  } // ~either(){} destroys nothing: the copy's buffer is leaked
  puts("done");
}
