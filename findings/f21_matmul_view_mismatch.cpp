// F21 replay (g++ -std=c++17 -DNDEBUG -fsanitize=address,undefined -I/repo/include): view::matmul of run-time shaped operands whose
// contraction lengths differ ((2,3) @ (4,5)) constructs the view by unwrapping the empty result of shape_matmul; NumPy raises ValueError
#include "nmtools/array/view/matmul.hpp"
#include "nmtools/array/ndarray.hpp"
#include "nmtools/utility/has_value.hpp"
#include <cstdio>
namespace nm=nmtools; namespace na=nm::array; namespace view=nm::view;
int main(){
  na::dynamic_ndarray<float> a, b; a.resize(2,3); b.resize(4,5);
  auto s = nm::index::shape_matmul(nm::shape(a), nm::shape(b));
  printf("shape_matmul has_value=%d\n", (int)nm::has_value(s));
  auto v = view::matmul(a,b);
  auto shp = nm::shape(v);
  printf("view::matmul is a maybe: %d ; reported dim=%zu\n", (int)nm::meta::is_maybe_v<decltype(v)>, (size_t)nm::len(shp));
  for (size_t i=0;i<nm::len(shp);i++) printf("%zu ", (size_t)nm::at(shp,i)); printf("\n");
}
