// F48 (C08): view::reduce_logical_and / _or / _xor handed the identity of the operation (true / false) to the DTYPE slot of view::reduce,
// so the fold had no initial value: over an axis of extent 1 the element itself came back (2 instead of True), and the result kept the
// source element type. Expected: 0 deviations.
#include "nmtools/array/view/ufuncs/logical_and.hpp"
#include "nmtools/array/view/ufuncs/logical_or.hpp"
#include "nmtools/array/view/ufuncs/logical_xor.hpp"
#include "nmtools/array/ndarray.hpp"
#include <cstdio>
namespace nm=nmtools; namespace view=nm::view;
int main(){
  int b[1][3]={{2,0,5}}; int c[2][3]={{2,0,5},{3,0,0}};
  int bad=0;
  { auto v=view::reduce_logical_and(b,0); int want[3]={1,0,1}; for(size_t i=0;i<3;i++){ int g=(int)v(i); if(g!=want[i]){bad++; printf("and.reduce((1,3),0)[%zu]=%d want %d\n",i,g,want[i]);} } }
  { auto v=view::reduce_logical_or(b,0); int want[3]={1,0,1}; for(size_t i=0;i<3;i++){ int g=(int)v(i); if(g!=want[i]){bad++; printf("or.reduce((1,3),0)[%zu]=%d want %d\n",i,g,want[i]);} } }
  { auto v=view::reduce_logical_xor(b,0); int want[3]={1,0,1}; for(size_t i=0;i<3;i++){ int g=(int)v(i); if(g!=want[i]){bad++; printf("xor.reduce((1,3),0)[%zu]=%d want %d\n",i,g,want[i]);} } }
  { auto v=view::reduce_logical_and(c,0); int want[3]={1,0,0}; for(size_t i=0;i<3;i++){ int g=(int)v(i); if(g!=want[i]){bad++; printf("and.reduce((2,3),0)[%zu]=%d want %d\n",i,g,want[i]);} } }
  { auto v=view::reduce_logical_or(c,1); int want[2]={1,1}; for(size_t i=0;i<2;i++){ int g=(int)v(i); if(g!=want[i]){bad++; printf("or.reduce((2,3),1)[%zu]=%d want %d\n",i,g,want[i]);} } }
  { auto v=view::reduce_logical_xor(c,1); int want[2]={0,1}; for(size_t i=0;i<2;i++){ int g=(int)v(i); if(g!=want[i]){bad++; printf("xor.reduce((2,3),1)[%zu]=%d want %d\n",i,g,want[i]);} } }
  printf("%d deviations\n",bad); return bad!=0; }
