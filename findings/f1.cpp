#include "nmtools/array/ndarray.hpp"
#include "nmtools/utility/isequal.hpp"
#include "nmtools/utility/isclose.hpp"
#include <array>
#include <vector>
#include <cstdio>
namespace nm = nmtools; namespace na = nmtools::array;
int main(){
  na::ndarray_t<std::vector<int>, std::array<size_t,2>> a, b;
  a.resize(2,3); b.resize(3,2);
  for (int i=0;i<6;i++){ a.data_[i]=i; b.data_[i]=i; }
  printf("isequal((2,3),(3,2)) same flat data -> %d (expect 0)\n",(int)nm::utils::isequal(a,b));
  na::ndarray_t<std::vector<float>, std::array<size_t,2>> c, d;
  c.resize(2,3); d.resize(3,2);
  for (int i=0;i<6;i++){ c.data_[i]=i; d.data_[i]=i; }
  printf("isclose((2,3),(3,2)) -> %d (expect 0)\n",(int)nm::utils::isclose(c,d));
  std::vector<size_t> x{1,2,3}, y{1,2};
  printf("isequal([1,2,3],[1,2]) -> %d (expect 0)\n",(int)nm::utils::isequal(x,y));
  std::vector<size_t> z{1,2,3,4};
  printf("isequal([1,2],[1,2,3,4]) -> %d (expect 0)\n",(int)nm::utils::isequal(y,z));
  b.resize(2,3);
  printf("isequal same -> %d (expect 1)\n",(int)nm::utils::isequal(a,b));
}
