#include "nmtools/array/ndarray.hpp"
#include "nmtools/array/array/take.hpp"
#include "nmtools/array/array/mean.hpp"
#include "nmtools/array/array/cumsum.hpp"
#include "nmtools/array/array/sum.hpp"
#include "nmtools/array/array/flip.hpp"
#include "nmtools/array/array/stack.hpp"
#include "nmtools/array/array/softmax.hpp"
#include "nmtools/array/array/ufuncs/add.hpp"
#include "nmtools/array/array/ufuncs/multiply.hpp"
#include <array>
#include <vector>
#include <cstdio>
namespace nm = nmtools; namespace na = nm::array;
template <class R> void pr(const char* n, const R& r_) {
  if (!nm::has_value(r_)) { printf("%-28s Nothing\n",n); return; }
  auto r = nm::unwrap(r_); auto s = nm::shape(r);
  printf("%-28s shape (",n); for (size_t i=0;i<nm::len(s);i++) printf("%zu,",(size_t)nm::at(s,i)); printf(") flat:");
  auto f = nm::unwrap(nm::view::flatten(r)); for (size_t i=0;i<nm::size(r);i++) printf(" %g",(double)f(i)); printf("\n");
}
int main(){
  na::ndarray_t<std::vector<float>, std::array<size_t,2>> a; a.resize(2,3);
  for (int i=0;i<6;i++) a.data_[i]=i+1;
  std::array<size_t,2> idx{2,0};
  pr("take axis=1", na::take(a,idx,1));      pr("take axis=-1", na::take(a,idx,-1));
  pr("mean axis=1", na::mean(a,1));          pr("mean axis=-1", na::mean(a,-1));
  pr("cumsum axis=1", na::cumsum(a,1));      pr("cumsum axis=-1", na::cumsum(a,-1));
  pr("sum axis=1", na::sum(a,1));            pr("sum axis=-1", na::sum(a,-1));
  pr("flip axis=1", na::flip(a,1));          pr("flip axis=-1", na::flip(a,-1));
  pr("stack axis=2", na::stack(a,a,2));      pr("stack axis=-1", na::stack(a,a,-1));
  pr("softmax axis=1", na::softmax(a,1));    pr("softmax axis=-1", na::softmax(a,-1));
  pr("add.accumulate axis=-1", na::add.accumulate(a,-1));
}
