// F45 (C12): add.reduce(a (2,3,4), axis=1, keepdims=None, simd::vector_128) died with SIGFPE: the SIMD evaluator took keepdims=None as "kept"
// (the view and the scalar evaluator take it as False), so the enumerator was given a mismatching output shape.
// g++ -std=c++17 -I/repo/include f45_simd_reduce_keepdims_none.cpp && ./a.out   (prints 54 twice; before the fix: Floating point exception)
#include "nmtools/array/ndarray.hpp"
#include "nmtools/array/eval/simd/vector_128.hpp"
#include "nmtools/array/eval/simd/ufunc.hpp"
#include "nmtools/array/array/ufuncs/add.hpp"
#include <cstdio>
namespace nm=nmtools; namespace na=nm::array; namespace simd=na::simd; using nm::None;
int main(){
  na::ndarray_t<std::array<float,24>, std::array<size_t,3>> a; a.resize(std::array<size_t,3>{2,3,4}); for(int i=0;i<24;i++) a.data_[i]=i;
  auto s = na::add.reduce(a, 1);
  printf("scalar shape dim=%zu (%zu,%zu) s(1,2)=%g\n",(size_t)nm::dim(s),(size_t)nm::shape(s)[0],(size_t)nm::shape(s)[1],(double)s(1,2));
  auto r = na::add.reduce(a, 1, None, None, None, simd::vector_128);
  printf("simd r(1,2)=%g\n",(double)r(1,2));
}
