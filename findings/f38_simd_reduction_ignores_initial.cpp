#include "nmtools/array/eval/simd/x86_avx.hpp"
#include "nmtools/array/eval/simd/ufunc.hpp"
#include "nmtools/array/array/ufuncs/add.hpp"
#include "nmtools/array/array/ufuncs/multiply.hpp"
#include "nmtools/array/ndarray.hpp"
#include <cstdio>
#include <vector>
namespace nm=nmtools; namespace na=nm::array; namespace simd=na::simd; using nm::None;
int main(){
  na::ndarray_t<std::vector<float>, std::array<size_t,3>> x; x.resize(std::array<size_t,3>{3,4,5}); { float v=1; for(size_t i=0;i<3;i++) for(size_t j=0;j<4;j++) for(size_t k=0;k<5;k++) x(i,j,k)=v++; }
  int bad=0;
  { // initial: scalar vs SIMD
    auto s = na::add.reduce(x, 1, None, 10.f);            auto q = na::add.reduce(x, 1, None, 10.f, nm::False, simd::x86_AVX);
    for (size_t i=0;i<3;i++) for(size_t k=0;k<5;k++) if (s(i,k)!=q(i,k)) { if(!bad) printf("initial=10 axis=1: scalar %g simd %g at (%zu,%zu)\n",(double)s(i,k),(double)q(i,k),i,k); bad++; }
    auto s2 = na::add.reduce(x, None, None, 10.f);        auto q2 = na::add.reduce(x, None, None, 10.f, nm::False, simd::x86_AVX);
    if ((float)s2 != (float)q2) { printf("initial=10 all axes: scalar %g simd %g\n",(double)(float)s2,(double)(float)q2); bad++; }
  }
  printf("bad=%d\n",bad); return bad?1:0;
}
