#include "nmtools/array/ndarray.hpp"
#include "nmtools/array/array/compress.hpp"
#include "nmtools/array/array/diagonal.hpp"
#include "nmtools/array/array/split.hpp"
#include "nmtools/array/array/repeat.hpp"
#include "nmtools/array/array/roll.hpp"
#include "nmtools/array/array/expand_dims.hpp"
#include "nmtools/array/array/moveaxis.hpp"
#include "nmtools/array/array/swapaxes.hpp"
#include <array>
#include <vector>
#include <cstdio>
namespace nm = nmtools; namespace na = nm::array;
template <class R> void pr(const char* n, const R& r_) {
  if (!nm::has_value(r_)) { printf("%-28s Nothing\n",n); return; }
  auto r = nm::unwrap(r_); auto s = nm::shape(r);
  printf("%-28s shape (",n); for (size_t i=0;i<nm::len(s);i++) printf("%zu,",(size_t)nm::at(s,i)); printf(") flat:");
  auto f = nm::unwrap(nm::view::flatten(r)); for (size_t i=0;i<nm::size(r);i++) printf(" %g",(double)f(i)); printf("\n");
}
int main(){
  na::ndarray_t<std::vector<float>, std::array<size_t,2>> a; a.resize(2,3);
  for (int i=0;i<6;i++) a.data_[i]=i+1;
  std::array<bool,3> c{true,false,true};
  pr("compress axis=1", na::compress(c,a,1));   pr("compress axis=-1", na::compress(c,a,-1));
  pr("diagonal 0,1", na::diagonal(a,0,0,1));    pr("diagonal -2,-1", na::diagonal(a,0,-2,-1));
  {
    auto s1 = na::split(a,3,1); auto s2 = na::split(a,3,-1);
    printf("split axis=1: n=%zu ; split axis=-1: n=%zu\n",(size_t)nm::len(s1),(size_t)nm::len(s2));
    pr("  split(1)[0]", nm::at(s1,0)); pr("  split(-1)[0]", nm::at(s2,0));
  }
}
