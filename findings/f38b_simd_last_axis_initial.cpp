#include "nmtools/array/eval/simd/x86_avx.hpp"
#include "nmtools/array/eval/simd/x86_sse.hpp"
#include "nmtools/array/eval/simd/ufunc.hpp"
#include "nmtools/array/array/ufuncs/add.hpp"
#include "nmtools/array/array/ufuncs/multiply.hpp"
#include "nmtools/array/ndarray.hpp"
#include <cstdio>
#include <vector>
namespace nm=nmtools; namespace na=nm::array; namespace simd=na::simd; using nm::None;
template <class C> int run(const char* name, C ctx){
  int bad=0;
  for (size_t cols : {3,5,8,11}) {
    na::ndarray_t<std::vector<float>, std::array<size_t,2>> x; x.resize(std::array<size_t,2>{3,cols}); { float v=0; for(size_t i=0;i<3;i++) for(size_t j=0;j<cols;j++) x(i,j)=v++; }
    auto s = na::add.reduce(x, 1, None, 10.f);  auto q = na::add.reduce(x, 1, None, 10.f, nm::False, ctx);
    for (size_t i=0;i<3;i++) if (s(i)!=q(i)) { printf("%s cols=%zu last axis initial=10: scalar %g simd %g at %zu\n",name,cols,(double)s(i),(double)q(i),i); bad++; }
    auto s0 = na::add.reduce(x, 0, None, 10.f); auto q0 = na::add.reduce(x, 0, None, 10.f, nm::False, ctx);
    for (size_t j=0;j<cols;j++) if (s0(j)!=q0(j)) { printf("%s cols=%zu axis 0 initial=10: scalar %g simd %g at %zu\n",name,cols,(double)s0(j),(double)q0(j),j); bad++; }
    auto s1 = na::add.reduce(x, 1); auto q1 = na::add.reduce(x, 1, None, None, nm::False, ctx);
    for (size_t i=0;i<3;i++) if (s1(i)!=q1(i)) { printf("%s cols=%zu last axis no initial: scalar %g simd %g\n",name,cols,(double)s1(i),(double)q1(i)); bad++; }
  }
  return bad;
}
int main(){ int bad = run("AVX", simd::x86_AVX) + run("SSE", simd::x86_SSE); printf("bad=%d\n",bad); return bad?1:0; }
