// F51 (C19): small_vector::push_back(const T& t) at the switch from inline to heap storage (size == DIM) read t AFTER resize() had replaced
// the inline storage by the heap vector inside the variant: v.push_back(v.at(1)) stored garbage (24624) instead of 101.
// g++ -std=c++17 -I/repo/include f51_small_vector_push_back_alias.cpp && ./a.out  (exit 0 = std::vector's contents)
#include "nmtools/utility/small_vector.hpp"
#include <cstdio>
namespace nm=nmtools;
int main(){
  nm::small_vector<int,4> v;
  for(int i=0;i<4;i++) v.push_back(100+i);
  v.push_back(v.at(1));      // the switch from inline to heap storage
  printf("v[4]=%d (std::vector: 101) size=%zu\n", v.at(4), (size_t)v.size());
  v.push_back(v.at(0)); v.push_back(v.at(0)); v.push_back(v.at(0)); v.push_back(v.at(0));
  printf("v[8]=%d (100)\n", v.at(8));
  return !(v.at(4)==101 && v.at(8)==100);
}
