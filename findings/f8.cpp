#include "nmtools/array/view/concatenate.hpp"
#include "nmtools/array/ndarray.hpp"
#include <array>
#include <cstdio>
namespace nm = nmtools; namespace na = nm::array; namespace view = nm::view;
int main(){
  na::ndarray_t<std::array<float,6>, std::array<size_t,2>> a, b; a.resize(2,3); b.resize(2,3);
  for (int i=0;i<6;i++){ a.data_[i]=i; b.data_[i]=10+i; }
  for (int axis : {1,-1,0,-2}) {
    auto mv = view::concatenate(a,b,axis);
    if (!nm::has_value(mv)) { printf("axis %d: Nothing\n",axis); continue; }
    auto v = nm::unwrap(mv); auto s = nm::shape(v);
    printf("axis %d: shape (%zu,%zu): ",axis,(size_t)nm::at(s,0),(size_t)nm::at(s,1));
    for (size_t i=0;i<nm::at(s,0);i++) for (size_t j=0;j<nm::at(s,1);j++) printf("%g ",(double)v(i,j)); printf("\n");
  }
}
