#include "nmtools/array/index/reshape.hpp"
#include <array>
#include <cstdio>
namespace ix = nmtools::index;
int main(int argc,char**){
  std::array<size_t,1> src{6};
  { std::array<int,2> dst{-2,-3}; auto r = ix::shape_reshape(src,dst); printf("(6,)->(-2,-3): has_value=%d (expect 0)\n",(int)static_cast<bool>(r)); }
  { std::array<int,2> dst{3,2}; auto r = ix::shape_reshape(src,dst); printf("(6,)->(3,2): has_value=%d (expect 1)\n",(int)static_cast<bool>(r)); }
  { std::array<int,2> dst{-1,2}; auto r = ix::shape_reshape(src,dst); printf("(6,)->(-1,2): has_value=%d first=%d (expect 1, 3)\n",(int)static_cast<bool>(r),(int)(*r)[0]); }
  { std::array<int,2> dst{argc-1,-1}; auto r = ix::shape_reshape(src,dst); printf("(6,)->(0,-1): has_value=%d (expect 0)\n",(int)static_cast<bool>(r)); }
}
