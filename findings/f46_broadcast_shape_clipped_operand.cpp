// F46 (C06 / C11): index::broadcast_shape(clipped<=3 holding 1, run-time (5)) returned (3): in the mixed clipped x run-time branch of the
// resolver the upper bounds of a CLIPPED shape were used like the values of a constant shape ("an extent > 1 cannot be stretched"),
// so the result type saturated the stretched extent at the operand's bound. Expected output: (5) (5) (5,4).
#include "nmtools/array/index/broadcast_shape.hpp"
#include "nmtools/array/ndarray.hpp"
#include <cstdio>
#include <typeinfo>
namespace nm=nmtools;
int main(){
  auto a = nmtools_tuple{nm::clipped_size_t<3>{1}};
  nmtools_array<size_t,1> b{5};
  auto r = nm::index::broadcast_shape(a,b);
  if (r) printf("has value: (%zu)\n", (size_t)nm::at(*r,nm::meta::ct_v<0>)); else printf("Nothing\n");
  auto r2 = nm::index::broadcast_shape(b,a);
  if (r2) printf("swapped: (%zu)\n", (size_t)nm::at(*r2,nm::meta::ct_v<0>)); else printf("swapped Nothing\n");
  auto a2 = nmtools_tuple{nm::clipped_size_t<3>{1}, nm::clipped_size_t<4>{4}};
  nmtools_array<size_t,2> b2{5,4};
  auto r3 = nm::index::broadcast_shape(a2,b2);
  if (r3) printf("(1,4)x(5,4): (%zu,%zu)\n", (size_t)nm::at(*r3,nm::meta::ct_v<0>),(size_t)nm::at(*r3,nm::meta::ct_v<1>)); else printf("Nothing\n");
}
