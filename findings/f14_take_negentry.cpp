// F14 replay: build with -fsanitize=address,undefined against the tree before the fix: take(a,[-1,0],1) reads a[.,-1] (stack-buffer-overflow); NumPy gives [[2,0],[5,3]]
#include "nmtools/array/array/take.hpp"
#include "nmtools/array/view/take.hpp"
#include "nmtools/utility/to_string.hpp"
#include <iostream>
#include <array>
namespace nm=nmtools; namespace view=nm::view;
int main(){
  int a[2][3] = {{0,1,2},{3,4,5}};
  { std::array<int,2> idx{-1,0}; auto v = view::take(a, idx, 1); std::cout << nm::utils::to_string(nm::array::take(a,idx,1)) << "\n"; }
  { std::array<int,2> idx{2,0}; std::cout << nm::utils::to_string(nm::array::take(a,idx,1)) << "\n"; }
}
