// F16 replay (g++ -std=c++17 -I/repo/include): subtract(c, multiply(a,b)) evaluates to 90,160,210 but apply(get_function_composition(v), get_function_operands(v)) gives 90,380,870 = multiply(c,a) - b
#include "nmtools/array/functional.hpp"
#include "nmtools/array/view/ufuncs/multiply.hpp"
#include "nmtools/array/view/ufuncs/subtract.hpp"
#include "nmtools/array/functional/ufuncs/multiply.hpp"
#include "nmtools/array/functional/ufuncs/subtract.hpp"
#include "nmtools/array/eval.hpp"
#include "nmtools/utility/to_string.hpp"
#include <iostream>
#include <array>
namespace nm=nmtools; namespace view=nm::view; namespace fn=nm::functional;
int main(){
  std::array<int,3> a{1,2,3}, b{10,20,30}, c{100,200,300};
  auto v1 = view::subtract(c, view::multiply(a,b));   // c - a*b = 90,160,210
  std::cout << "direct:   " << nm::utils::to_string(nm::array::eval(v1)) << "\n";
  auto f1 = fn::get_function_composition(v1);
  auto ops1 = fn::get_function_operands(v1);
  std::cout << "via functional: " << nm::utils::to_string(nm::array::eval(fn::apply(f1, ops1))) << "\n";
  auto v2 = view::subtract(view::multiply(a,b), c);   // a*b - c = -90,-160,-210
  std::cout << "direct:   " << nm::utils::to_string(nm::array::eval(v2)) << "\n";
  auto f2 = fn::get_function_composition(v2);
  auto ops2 = fn::get_function_operands(v2);
  std::cout << "via functional: " << nm::utils::to_string(nm::array::eval(fn::apply(f2, ops2))) << "\n";
}
