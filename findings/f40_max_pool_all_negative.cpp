#include "nmtools/array/view/pooling.hpp"
#include "nmtools/array/ndarray.hpp"
#include <cstdio>
namespace nm=nmtools; namespace view=nm::view;
int main(){
  float x[1][1][4][4]; for(int i=0;i<4;i++)for(int j=0;j<4;j++) x[0][0][i][j] = -(1.0f+i*4+j);
  auto v = view::max_pool2d(x, std::array<int,2>{2,2}, std::array<int,2>{2,2}, nm::False);
  int bad=0;
  for (size_t i=0;i<2;i++) for(size_t j=0;j<2;j++){ float want = x[0][0][2*i][2*j]; float got = v(0,0,i,j); printf("out(%zu,%zu)=%g want %g\n",i,j,got,want); if (got!=want) bad++; }
  return bad;
}
