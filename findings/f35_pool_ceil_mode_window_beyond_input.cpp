#include "nmtools/array/view/pooling.hpp"
#include "nmtools/array/array/pooling.hpp"
#include "nmtools/array/ndarray.hpp"
#include <cstdio>
namespace nm=nmtools; namespace view=nm::view; namespace na=nm::array;
int main(){
  float x[1][1][3][3]; for(int i=0;i<3;i++)for(int j=0;j<3;j++) x[0][0][i][j]=-(1+i*3+j);
  auto v = view::max_pool2d(x, std::array<int,2>{2,2}, std::array<int,2>{3,3}, nm::True);
  auto s = nm::shape(v); printf("shape %zu %zu %zu %zu\n",(size_t)nm::at(s,0),(size_t)nm::at(s,1),(size_t)nm::at(s,2),(size_t)nm::at(s,3));
  for (size_t i=0;i<nm::at(s,2);i++){ for(size_t j=0;j<nm::at(s,3);j++) printf("%g ", (double)v(0,0,i,j)); printf("\n"); }
}
