// F49 (C19): utl::vector::push_back(const T& t) read t AFTER resize() had replaced (freed) the buffer: v.push_back(v[0]) on a full vector is
// a heap-use-after-free (std::vector guarantees this call works).
// g++ -std=c++17 -g -fsanitize=address -I/repo/include f49_vector_push_back_alias.cpp && ./a.out
//   before the fix: AddressSanitizer: heap-use-after-free in push_back;  after: prints "ok" and exits 0
#include "nmtools/utl/vector.hpp"
#include <cstdio>
namespace utl = nmtools::utl;
int main()
{
    utl::vector<int> v;
    for (int i = 0; i < 4; i++) v.push_back(10 + i);     // the initial capacity (4) is now full
    v.push_back(v[0]);                                   // grows: the argument refers into the old buffer
    v.push_back(v[4]);
    int want[6] = {10, 11, 12, 13, 10, 10};
    int bad = 0;
    for (int i = 0; i < 6; i++) if (v[i] != want[i]) { bad++; printf("v[%d] = %d, std::vector holds %d\n", i, v[i], want[i]); }
    printf(bad ? "%d differences\n" : "ok\n", bad);
    return bad != 0;
}
