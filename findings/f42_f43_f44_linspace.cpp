// F42 / F43 / F44 (C04): view::linspace deviated from numpy.linspace in three ways:
//   F42  linspace(2.f, 3.f, 1)   -> [nan]            (NumPy [2.0]; the step (stop-start)/(num-1) is a division by zero and 0*inf is nan)
//   F43  linspace(0.1f, -2.f, 4)[-1] = -1.99999988   (NumPy sets the last element to stop when endpoint=True)
//   F44  linspace(0.0, 1.0, 11)[1] = 0.10000000149   (the step of a double range was computed through float casts; NumPy 0.1)
// g++ -std=c++17 -I/repo/include f42_f43_f44_linspace.cpp && ./a.out   (exit 0 = NumPy's values)
#include "nmtools/array/view/linspace.hpp"
#include <cstdio>
#include <cmath>
namespace nm = nmtools; namespace view = nm::view;
int main()
{
    int bad = 0;
    { auto v = view::linspace(2.0f, 3.0f, 1); if (!((float)v(0) == 2.0f)) { bad++; printf("F42 linspace(2,3,1)[0] = %g, NumPy 2\n", (double)v(0)); } }
    { int n_bad = 0, tot = 0;
      for (int n = 2; n < 200; n++) for (float a : {0.f, 1.f, -3.f, 0.1f}) for (float b : {1.f, 10.f, 7.3f, -2.f}) {
          auto v = view::linspace(a, b, n); tot++;
          if ((float)v(n-1) != b) { if (n_bad < 3) printf("F43 linspace(%g,%g,%d)[-1] = %.9g, NumPy %.9g\n", a, b, n, (double)v(n-1), (double)b); n_bad++; } }
      if (n_bad) { bad++; printf("F43 last element != stop in %d of %d ranges\n", n_bad, tot); } }
    { auto v = view::linspace(0.0, 1.0, 11); if (std::fabs((double)v(1) - 0.1) > 1e-15 || std::fabs((double)v(3) - 0.3) > 1e-15) { bad++; printf("F44 linspace(0.0,1.0,11)[1] = %.17g, NumPy 0.1\n", (double)v(1)); } }
    { auto v = view::linspace(0, 4, 5); for (int i = 0; i < 5; i++) if ((float)v(i) != (float)i) { bad++; printf("linspace(0,4,5)[%d] = %g\n", i, (double)v(i)); } }   // ordinary
    { auto v = view::linspace(0.f, 1.f, 4, nm::False); if ((float)v(3) != 0.75f) { bad++; printf("endpoint=False: last %g, NumPy 0.75\n", (double)v(3)); } }
    printf("%d deviations\n", bad);
    return bad != 0;
}
