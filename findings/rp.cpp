#include "nmtools/array/view/repeat.hpp"
#include "nmtools/array/view/roll.hpp"
#include "nmtools/array/ndarray.hpp"
#include <array>
#include <cstdio>
namespace nm = nmtools; namespace view = nmtools::view; namespace na = nmtools::array;
using namespace nmtools::literals;
int main(){
  na::ndarray_t<std::array<float,6>, std::array<size_t,2>> a; a.resize(2,3);
  for (int i=0;i<6;i++) a.data_[i]=i;
  {
  auto mv = view::repeat(a, 2, nm::meta::ct_v<-1>);
  auto v = nm::unwrap(mv);
  auto s = nm::shape(v);
  printf("repeat axis=-1 shape=(%zu,%zu)\n",(size_t)nm::at(s,0),(size_t)nm::at(s,1));
  for (size_t i=0;i<nm::at(s,0);i++){ for(size_t j=0;j<nm::at(s,1);j++) printf("%g ",v(i,j)); printf("\n"); }
  }
  {
  auto mv = view::roll(a, 7, nm::meta::ct_v<1>);
  auto v = nm::unwrap(mv);
  auto src = v.indexer.indices(std::array<size_t,2>{0,0});
  printf("roll shift=7 axis=1 extent=3: dst (0,0) -> src (%zu,%zu)\n",(size_t)nm::at(src,0),(size_t)nm::at(src,1));
  }
}
