#!/usr/bin/env python3
# maintenance helper: analyse one obligation TU and print the residual table
import sys; sys.path.insert(0,'/verif')
from engines import e1
from collections import Counter
tier = 'thorough' if '--thorough' in sys.argv else 'quick'
args=[a for a in sys.argv[1:] if not a.startswith('--')]
r=e1.analyse_tu('/verif/obligations/'+args[0], tier, args[1:], keep_ir='--keep' in sys.argv)
if r['error']: print(r['error']); sys.exit(2)
print('declared',len(r['declared']),'residual',len(r['residual']),r['pipelines_used'],r['wall_s'],'negctl',len(r['negctl_declared']),len(r['negctl_residual']), r.get('ir_dir',''))
print('  trace:', r.get('residual_after_each_pipeline'))
for k,v in sorted(Counter((x['id'],tuple(x['ints'])) for x in r['residual']).items()): print('  RESID',k)
c=Counter(x['id'] for x in r['declared'])
print('  declared ids:',dict(c))
print('  refuted:',[(x['id'],x['ints']) for x in r['refuted']])
