// C03 (+C02, C15): transpose / moveaxis / swapaxes / expand_dims / atleast_nd  (DESIGN §3 C03)
#include "viewob.hpp"
#include "nmtools/array/view/transpose.hpp"
#include "nmtools/array/view/moveaxis.hpp"
#include "nmtools/array/view/swapaxes.hpp"
#include "nmtools/array/view/expand_dims.hpp"
#include "nmtools/array/view/atleast_nd.hpp"
using namespace ob;
namespace view = nmtools::view;
using namespace nmtools::literals;

// ---- transpose with compile-time axes P...
template <size_t N, long TAG, size_t... P>
void ob_c03_transpose_ct(const arr_fs<float,N,sizeof...(P)>& a, const std::array<size_t,sizeof...(P)>& dst_)
{
    constexpr size_t R = sizeof...(P);
    constexpr size_t p[R] = {P...};
    const auto dst = dst_;
    auto mv = view::transpose(a, nmtools_tuple{meta::ct_v<P>...});
    if constexpr (meta::is_maybe_v<decltype(mv)>) OBLIGE("C03.transpose_ct.valid", static_cast<bool>(mv), R, TAG);
    if (nm::has_value(mv)) {
        const auto& v = nm::unwrap(mv);
        std::array<size_t,R> eshape{}, esrc{};
        for_<R>([&](auto I){ eshape[I.value] = rd<p[I.value]>(a.shape_); });
        for_<R>([&](auto I){ esrc[p[I.value]] = dst[I.value]; });
        VIEW_OBLIGATIONS("C03","transpose_ct", v, a, R, R, dst, eshape, esrc, TAG);
    }
}
// ---- transpose with default axes (reverse)
template <size_t N, size_t R>
void ob_c03_transpose_none(const arr_fs<float,N,R>& a, const std::array<size_t,R>& dst_)
{
    const auto dst = dst_;
    auto mv = view::transpose(a);
    if constexpr (meta::is_maybe_v<decltype(mv)>) OBLIGE("C03.transpose_none.valid", static_cast<bool>(mv), R);
    if (nm::has_value(mv)) {
        const auto& v = nm::unwrap(mv);
        std::array<size_t,R> eshape{}, esrc{};
        for_<R>([&](auto I){ eshape[I.value] = rd<R-1-I.value>(a.shape_); esrc[R-1-I.value] = dst[I.value]; });
        VIEW_OBLIGATIONS("C03","transpose_none", v, a, R, R, dst, eshape, esrc, 0);
    }
}
// ---- moveaxis(src->dst) with compile-time axes; SRC/DST may be negative
template <size_t N, size_t R, int SRC, int DST>
void ob_c03_moveaxis_ct(const arr_fs<float,N,R>& a, const std::array<size_t,R>& dst_)
{
    const auto dst = dst_;
    constexpr size_t s = (size_t)(SRC < 0 ? SRC + (int)R : SRC), d = (size_t)(DST < 0 ? DST + (int)R : DST);
    // numpy.moveaxis: order = [n for n in range(R) if n != s]; order.insert(d, s); result = transpose(order)
    constexpr auto order = [&](){ std::array<size_t,R> o{}; size_t k=0; for (size_t n=0;n<R;n++){ if (k==d) o[k++]=s; if (n!=s) { if (k==d) o[k++]=s; o[k++]=n; } } if (k<R) o[k]=s; return o; }();
    auto mv = view::moveaxis(a, meta::ct_v<SRC>, meta::ct_v<DST>);
    if constexpr (meta::is_maybe_v<decltype(mv)>) { OBLIGE("C03.moveaxis_ct.valid|C15.moveaxis_ct.value_when_in_range", static_cast<bool>(mv), R, SRC+10, DST+10); }
    if (nm::has_value(mv)) {
        const auto& v = nm::unwrap(mv);
        std::array<size_t,R> eshape{}, esrc{};
        for_<R>([&](auto I){ eshape[I.value] = rd<order[I.value]>(a.shape_); esrc[order[I.value]] = dst[I.value]; });
        VIEW_OBLIGATIONS("C03","moveaxis_ct", v, a, R, R, dst, eshape, esrc, (SRC+10)*100+(DST+10));
    }
}
// ---- moveaxis with an out-of-range axis must be Nothing
template <size_t N, size_t R, int SRC, int DST>
void ob_c15_moveaxis_invalid(const arr_fs<float,N,R>& a)
{
    auto mv = view::moveaxis(a, meta::ct_v<SRC>, meta::ct_v<DST>);
    if constexpr (meta::is_maybe_v<decltype(mv)>) OBLIGE("C15.moveaxis_ct.nothing_when_out_of_range", !static_cast<bool>(mv), R, SRC+10, DST+10);
    else OBLIGE("C15.moveaxis_ct.nothing_when_out_of_range", false, R, SRC+10, DST+10);
}
// ---- swapaxes
template <size_t N, size_t R, int A1, int A2>
void ob_c03_swapaxes_ct(const arr_fs<float,N,R>& a, const std::array<size_t,R>& dst_)
{
    const auto dst = dst_;
    constexpr size_t x = (size_t)(A1 < 0 ? A1 + (int)R : A1), y = (size_t)(A2 < 0 ? A2 + (int)R : A2);
    auto mv = view::swapaxes(a, meta::ct_v<A1>, meta::ct_v<A2>);
    if constexpr (meta::is_maybe_v<decltype(mv)>) OBLIGE("C03.swapaxes_ct.valid", static_cast<bool>(mv), R, A1+10, A2+10);
    if (nm::has_value(mv)) {
        const auto& v = nm::unwrap(mv);
        std::array<size_t,R> eshape{}, esrc{};
        for_<R>([&](auto I){ constexpr size_t o = (I.value==x ? y : (I.value==y ? x : I.value)); eshape[I.value] = rd<o>(a.shape_); esrc[o] = dst[I.value]; });
        VIEW_OBLIGATIONS("C03","swapaxes_ct", v, a, R, R, dst, eshape, esrc, (A1+10)*100+(A2+10));
    }
}
template <size_t N>
void ob_c03_negctl(const arr_fs<float,N,3>& a, const std::array<size_t,3>& dst_)
{
    const auto dst = dst_;
    auto mv = view::transpose(a, nmtools_tuple{2_ct,0_ct,1_ct});
    if (nm::has_value(mv)) {
        const auto& v = nm::unwrap(mv);
        auto shp = nm::shape(v);
        NEGCTL("C03.NEG.transpose_shape_unpermuted", gx<0>(shp)==rd<0>(a.shape_), 3);
    }
}

#define TR(N,TAG,...) template void ob_c03_transpose_ct<N,TAG,__VA_ARGS__>(const arr_fs<float,N,std::array<int,0 __VA_OPT__(+1)>{}.size()*0 + sizeof((int[]){__VA_ARGS__})/sizeof(int)>&, const std::array<size_t,sizeof((int[]){__VA_ARGS__})/sizeof(int)>&);
TR(6,0,0) TR(12,10,1,0) TR(12,1,0,1)
TR(24,12,0,1,2) TR(24,21,0,2,1) TR(24,102,1,0,2) TR(24,120,1,2,0) TR(24,201,2,0,1) TR(24,210,2,1,0)
TR(48,3210,3,2,1,0) TR(48,1302,1,3,0,2) TR(48,2013,2,0,1,3)
template void ob_c03_transpose_none<6,1>(const arr_fs<float,6,1>&, const std::array<size_t,1>&);
template void ob_c03_transpose_none<12,2>(const arr_fs<float,12,2>&, const std::array<size_t,2>&);
template void ob_c03_transpose_none<24,3>(const arr_fs<float,24,3>&, const std::array<size_t,3>&);
template void ob_c03_transpose_none<48,4>(const arr_fs<float,48,4>&, const std::array<size_t,4>&);
#define MV(N,R,S,D) template void ob_c03_moveaxis_ct<N,R,S,D>(const arr_fs<float,N,R>&, const std::array<size_t,R>&);
MV(12,2,0,1) MV(12,2,1,0) MV(12,2,-1,0) MV(24,3,0,2) MV(24,3,2,0) MV(24,3,1,2) MV(24,3,0,-1) MV(24,3,-1,0) MV(24,3,-2,-1) MV(24,3,1,1) MV(48,4,0,3) MV(48,4,3,1) MV(48,4,-3,2)
#define MVI(N,R,S,D) template void ob_c15_moveaxis_invalid<N,R,S,D>(const arr_fs<float,N,R>&);
MVI(24,3,3,0) MVI(24,3,0,3) MVI(24,3,-4,0) MVI(24,3,0,-4) MVI(12,2,2,0)
#define SW(N,R,S,D) template void ob_c03_swapaxes_ct<N,R,S,D>(const arr_fs<float,N,R>&, const std::array<size_t,R>&);
SW(12,2,0,1) SW(24,3,0,2) SW(24,3,1,2) SW(24,3,-1,0) SW(24,3,1,1) SW(48,4,1,3) SW(48,4,-4,-1)
template void ob_c03_negctl<24>(const arr_fs<float,24,3>&, const std::array<size_t,3>&);
