// C03 (+C02): reshape / flatten keep C order: the source index of destination index d is unravel(ravel(d, dst_shape), src_shape)
// (NumPy's definition of reshape on a C-contiguous array), the shape is the requested one, source index in shape.
#include "viewob.hpp"
#include "nmtools/array/view/reshape.hpp"
#include "nmtools/array/view/flatten.hpp"
#include "nmtools/array/view/expand_dims.hpp"
#include "nmtools/array/view/atleast_nd.hpp"
using namespace ob;
namespace view = nmtools::view;
template <class T, size_t N, size_t R> using arr_f = na::ndarray_t<std::array<T,N>, std::array<size_t,R>>;

template <size_t R, class S> __attribute__((always_inline)) inline size_t ravel(const std::array<size_t,R>& idx, const S& shape)
{
    size_t off = 0;
    for_<R>([&](auto I){ size_t st = 1; for_<R>([&](auto J){ if constexpr (J.value > I.value) st *= (size_t)rd<J.value>(shape); }); off += idx[I.value] * st; });
    return off;
}
template <size_t J, size_t R, class S> __attribute__((always_inline)) inline size_t unravel(size_t off, const S& shape)
{
    size_t st = 1; for_<R>([&](auto K){ if constexpr (K.value > J) st *= (size_t)rd<K.value>(shape); });
    return (off / st) % (size_t)rd<J>(shape);
}
// ---- reshape(a, dst_shape) with a run-time target shape (no -1), fixed ranks
template <size_t N, size_t RS, size_t RD>
void ob_c03_reshape(const arr_f<float,N,RS>& a, const std::array<size_t,RD>& dshape_, const std::array<size_t,RD>& dst_)
{
    const auto dshape = dshape_; const auto dst = dst_;
    for_<RS>([&](auto I){ ASSUME(rd<I.value>(a.shape_) >= 1); });
    { size_t n = 1; for_<RS>([&](auto I){ n *= (size_t)rd<I.value>(a.shape_); }); ASSUME(n == N); }   // class invariant of the array (C20): numel(shape) == buffer size
    for_<RD>([&](auto I){ ASSUME(dshape[I.value] >= 1 && dshape[I.value] <= 4096); });
    auto mv = view::reshape(a, dshape);
    if (nm::has_value(mv)) {
        const auto& v = nm::unwrap(mv);
        auto shp = nm::shape(v);
        OBLIGE("C03.reshape.dim", (size_t)nm::len(shp)==RD, RS, RD);
        for_<RD>([&](auto I){ OBLIGE("C03.reshape.shape_is_target", gx<I.value>(shp)==dshape[I.value], RS, RD, I.value); });
        for_<RD>([&](auto I){ ASSUME(dst[I.value] < dshape[I.value]); });
        auto src = v.indexer.indices(dst);
        size_t off = ravel<RD>(dst, dshape);
        for_<RS>([&](auto J){ OBLIGE("C02.reshape.src_in_shape", gx<J.value>(src) < (size_t)rd<J.value>(a.shape_), RS, RD, J.value); });
        for_<RS>([&](auto J){ OBLIGE("C03.reshape.c_order_preserved", gx<J.value>(src) == (unravel<J.value,RS>(off, a.shape_)), RS, RD, J.value); });
        std::array<size_t,RS> esrc{}; for_<RS>([&](auto J){ esrc[J.value] = unravel<J.value,RS>(off, a.shape_); });
        auto e1 = std::apply([&](auto... i){ return v(i...); }, dst);
        auto e2 = std::apply([&](auto... i){ return a(i...); }, esrc);
        OBLIGE("C03.reshape.element", same_bits(e1,e2), RS, RD);
    }
}
// ---- flatten(a): shape (numel,), source index = unravel(d0)
template <size_t N, size_t RS>
void ob_c03_flatten(const arr_f<float,N,RS>& a, size_t d0)
{
    for_<RS>([&](auto I){ ASSUME(rd<I.value>(a.shape_) >= 1); });
    { size_t n = 1; for_<RS>([&](auto I){ n *= (size_t)rd<I.value>(a.shape_); }); ASSUME(n == N); }   // class invariant of the array (C20)
    auto mv = view::flatten(a);
    if constexpr (meta::is_maybe_v<decltype(mv)>) OBLIGE("C03.flatten.valid", static_cast<bool>(mv), RS);
    if (nm::has_value(mv)) {
        const auto& v = nm::unwrap(mv);
        auto shp = nm::shape(v);
        size_t n = 1; for_<RS>([&](auto I){ n *= (size_t)rd<I.value>(a.shape_); });
        OBLIGE("C03.flatten.dim", (size_t)nm::len(shp)==1, RS);
        OBLIGE("C03.flatten.shape_is_numel", gx<0>(shp)==n, RS);
        ASSUME(d0 < n);
        auto src = v.indexer.indices(std::array<size_t,1>{d0});
        for_<RS>([&](auto J){ OBLIGE("C02.flatten.src_in_shape", gx<J.value>(src) < (size_t)rd<J.value>(a.shape_), RS, J.value); });
        for_<RS>([&](auto J){ OBLIGE("C03.flatten.c_order", gx<J.value>(src) == (unravel<J.value,RS>(d0, a.shape_)), RS, J.value); });
        std::array<size_t,RS> esrc{}; for_<RS>([&](auto J){ esrc[J.value] = unravel<J.value,RS>(d0, a.shape_); });
        auto e1 = v(d0);
        auto e2 = std::apply([&](auto... i){ return a(i...); }, esrc);
        OBLIGE("C03.flatten.element", same_bits(e1,e2), RS);
    }
}
// ---- expand_dims(a, axis): shape with 1 inserted at the axis; element (d) is the source element with that coordinate dropped
template <size_t N, size_t RS, int AXIS>
void ob_c03_expand_dims_view(const arr_f<float,N,RS>& a, const std::array<size_t,RS+1>& dst_)
{
    const auto dst = dst_;
    constexpr size_t pos = (size_t)(AXIS < 0 ? AXIS + (int)RS + 1 : AXIS);
    for_<RS>([&](auto I){ ASSUME(rd<I.value>(a.shape_) >= 1 && rd<I.value>(a.shape_) <= N); });
    { size_t n = 1; for_<RS>([&](auto I){ n *= (size_t)rd<I.value>(a.shape_); }); ASSUME(n == N); }
    auto mv = view::expand_dims(a, meta::ct_v<AXIS>);
    if constexpr (meta::is_maybe_v<decltype(mv)>) OBLIGE("C03.expand_dims_view.valid", static_cast<bool>(mv), RS, AXIS+10);
    if (nm::has_value(mv)) {
        const auto& v = nm::unwrap(mv);
        auto shp = nm::shape(v);
        OBLIGE("C03.expand_dims_view.dim", (size_t)nm::len(shp)==RS+1, RS, AXIS+10);
        std::array<size_t,RS+1> eshape{};
        for_<RS+1>([&](auto I){ if constexpr (I.value == pos) eshape[I.value] = 1; else eshape[I.value] = (size_t)rd<(I.value < pos ? I.value : I.value-1)>(a.shape_); });
        for_<RS+1>([&](auto I){ OBLIGE("C03.expand_dims_view.shape", gx<I.value>(shp)==eshape[I.value], RS, AXIS+10, I.value); });
        for_<RS+1>([&](auto I){ ASSUME(dst[I.value] < eshape[I.value]); });
        auto src = v.indexer.indices(dst);
        for_<RS>([&](auto J){ OBLIGE("C02.expand_dims_view.src_in_shape", gx<J.value>(src) < (size_t)rd<J.value>(a.shape_), RS, AXIS+10, J.value); });
        size_t off = ravel<RS+1>(dst, eshape);
        for_<RS>([&](auto J){ OBLIGE("C03.expand_dims_view.c_order_preserved", gx<J.value>(src) == (unravel<J.value,RS>(off, a.shape_)), RS, AXIS+10, J.value); });
    }
}
void ob_c03c_negctl(const arr_f<float,24,2>& a, size_t d0)
{
    auto mv = view::flatten(a);
    if (nm::has_value(mv)) { const auto& v = nm::unwrap(mv); auto src = v.indexer.indices(std::array<size_t,1>{d0}); NEGCTL("C03.NEG.flatten_src0_is_d0|C02.NEG.flatten_src0_is_d0", gx<0>(src)==d0, 2); }
}
#define RS_(N,RS,RD) template void ob_c03_reshape<N,RS,RD>(const arr_f<float,N,RS>&, const std::array<size_t,RD>&, const std::array<size_t,RD>&);
RS_(24,1,2) RS_(24,2,1) RS_(24,2,2) RS_(24,3,2) RS_(24,2,3) RS_(24,3,3) RS_(24,1,3)
#define FL(N,RS) template void ob_c03_flatten<N,RS>(const arr_f<float,N,RS>&, size_t);
FL(24,1) FL(24,2) FL(24,3) FL(24,4)
#define ED(N,RS,A) template void ob_c03_expand_dims_view<N,RS,A>(const arr_f<float,N,RS>&, const std::array<size_t,RS+1>&);
ED(24,1,0) ED(24,1,1) ED(24,2,0) ED(24,2,1) ED(24,2,-1) ED(24,3,1) ED(24,3,-1)
