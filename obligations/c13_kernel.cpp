// C13: the per-thread kernel body (DESIGN §3 C13) - guarded store for every launch geometry, rank-1 assignment law
#include "common.hpp"
#include "nmtools/array/eval/kernel_helper.hpp"
#include "nmtools/array/ndarray.hpp"
#include "nmtools/utility/unwrap.hpp"
#include "nmtools/utility/has_value.hpp"
using namespace ob;
namespace na = nmtools::array;
using ks = na::kernel_size<size_t>;

template <class T> __attribute__((always_inline)) inline bool same_bits_(const T& a, const T& b) { return __builtin_memcmp(&a,&b,sizeof(T))==0; }

// global id = block * block_size + thread
void ob_c13_offset(const ks& t, const ks& b, const ks& s)
{
    auto idx = na::compute_offset(t,b,s);
    OBLIGE("C13.offset.formula", (size_t)idx == b.id[0]*s.id[0] + t.id[0], 0);
}
// a thread whose global id is not below the output size writes nothing: position k of the output buffer keeps its bits
template <size_t R, size_t N>
void ob_c13_guard(float* out, const std::array<size_t,R>& shape_, const na::ndarray_t<std::array<float,N>,std::array<size_t,R>>& result,
                  const ks& t_, const ks& b_, const ks& s_, size_t k)
{
    const auto shape = shape_; const ks t = t_, b = b_, s = s_;
    auto output = na::device_array(out, shape, (int)R);
    size_t size = 1; for_<R>([&](auto I){ size *= rd<I.value>(shape); });
    size_t idx = b.id[0]*s.id[0] + t.id[0];
    ASSUME(k < (size_t)1 << 40);
    if (idx >= size) {
        float before = out[k];
        na::assign_result(output, result, t, b, s);
        OBLIGE("C13.guard.no_write_when_id_not_below_size", same_bits_(before, out[k]), R);
    }
}
// the same with a maybe-typed result that is empty: nothing is written at all
template <size_t R, size_t N>
void ob_c13_guard_maybe(float* out, const std::array<size_t,R>& shape_, const nmtools_maybe<na::ndarray_t<std::array<float,N>,std::array<size_t,R>>>& result,
                  const ks& t_, const ks& b_, const ks& s_, size_t k)
{
    const auto shape = shape_; const ks t = t_, b = b_, s = s_;
    auto output = na::device_array(out, shape, (int)R);
    ASSUME(k < (size_t)1 << 40);
    if (!static_cast<bool>(result)) {
        float before = out[k];
        na::assign_result(output, result, t, b, s);
        OBLIGE("C13.guard.no_write_when_result_empty", same_bits_(before, out[k]), R);
    }
}
// rank 1: the thread with global id IDX < size stores result[IDX] at out[IDX] and leaves position OTHER alone
template <size_t N, size_t IDX, size_t OTHER>
void ob_c13_assign_r1(float* __restrict out, const std::array<size_t,1>& shape_, const na::ndarray_t<std::array<float,N>,std::array<size_t,1>>& result,
                  const ks& t_, const ks& b_, const ks& s_)
{
    const auto shape = shape_; const ks t = t_, b = b_, s = s_;
    auto output = na::device_array(out, shape, 1);
    size_t size = shape[0];
    size_t idx = b.id[0]*s.id[0] + t.id[0];
    ASSUME(result.shape_[0] == size);
    if (idx == IDX && IDX < size) {
        float before = out[OTHER];
        float want = result.data_[ IDX * result.offset_.strides_[0] ];   // result(IDX) through its own offset functor
        na::assign_result(output, result, t, b, s);
        OBLIGE("C13.assign.r1.stores_result_at_idx", same_bits_(out[IDX], want), IDX);
        OBLIGE("C13.assign.r1.others_unchanged", same_bits_(out[OTHER], before), IDX, OTHER);
    }
}
// the same for a maybe-typed result / output that HOLD a value (broadcasting ufuncs over run-time shapes produce such results): the thread
// with global id IDX = block*block_size + thread stores result[IDX] at out[IDX] - the ids reach the plain overload in their own roles
template <size_t N, size_t IDX, size_t OTHER>
void ob_c13_assign_r1_maybe(float* __restrict out, const std::array<size_t,1>& shape_, const nmtools_maybe<na::ndarray_t<std::array<float,N>,std::array<size_t,1>>>& mresult,
                  const ks& t_, const ks& b_, const ks& s_)
{
    const auto shape = shape_; const ks t = t_, b = b_, s = s_;
    auto output = na::device_array(out, shape, 1);
    size_t size = shape[0];
    size_t idx = b.id[0]*s.id[0] + t.id[0];
    if (mresult) {
        const auto& result = *mresult;
        ASSUME(result.shape_[0] == size);
        if (idx == IDX && IDX < size) {
            float before = out[OTHER];
            float want = result.data_[ IDX * result.offset_.strides_[0] ];
            na::assign_result(output, mresult, t, b, s);
            OBLIGE("C13.assign.r1.maybe_result.stores_result_at_idx", same_bits_(out[IDX], want), IDX);
            OBLIGE("C13.assign.r1.maybe_result.others_unchanged", same_bits_(out[OTHER], before), IDX, OTHER);
        }
    }
}
template <size_t N, size_t IDX, size_t OTHER>
void ob_c13_assign_r1_maybe_output(float* __restrict out, const std::array<size_t,1>& shape_, const na::ndarray_t<std::array<float,N>,std::array<size_t,1>>& result,
                  const ks& t_, const ks& b_, const ks& s_)
{
    const auto shape = shape_; const ks t = t_, b = b_, s = s_;
    auto output = na::device_array(out, shape, 1);
    using output_t = decltype(output);
    nmtools_maybe<output_t> moutput{output};
    size_t size = shape[0];
    size_t idx = b.id[0]*s.id[0] + t.id[0];
    ASSUME(result.shape_[0] == size);
    if (idx == IDX && IDX < size) {
        float before = out[OTHER];
        float want = result.data_[ IDX * result.offset_.strides_[0] ];
        na::assign_result(moutput, result, t, b, s);
        OBLIGE("C13.assign.r1.maybe_output.stores_result_at_idx", same_bits_(out[IDX], want), IDX);
        OBLIGE("C13.assign.r1.maybe_output.others_unchanged", same_bits_(out[OTHER], before), IDX, OTHER);
    }
}
#define A1M(I,O) template void ob_c13_assign_r1_maybe<8,I,O>(float* __restrict, const std::array<size_t,1>&, const nmtools_maybe<na::ndarray_t<std::array<float,8>,std::array<size_t,1>>>&, const ks&, const ks&, const ks&); \
   template void ob_c13_assign_r1_maybe_output<8,I,O>(float* __restrict, const std::array<size_t,1>&, const na::ndarray_t<std::array<float,8>,std::array<size_t,1>>&, const ks&, const ks&, const ks&);
A1M(1,0) A1M(2,0) A1M(5,6) A1M(7,3)
// ---- operands and output rebuilt from raw (pointer, shape, dim) triples, as the device kernels do: the rebuilt array has the given shape
//      and element (i,j[,k]) is the pointer's element at the row-major position (shapes pinned to small constants, data symbolic)
template <size_t D0, size_t D1>
void ob_c13_rebuild_2d(const long* data, const size_t* shape_ptr, long* out)
{
    ASSUME(shape_ptr[0] == D0 && shape_ptr[1] == D1);
    { auto v = na::create_vector<2>(shape_ptr, 2);
      OBLIGE("C13.rebuild.create_vector.length_and_entries", (size_t)nm::len(v) == 2 && (size_t)nm::at(v,0) == D0 && (size_t)nm::at(v,1) == D1, D0, D1); }
    { auto ma = na::create_array<2>(data, shape_ptr, 2);
      OBLIGE("C13.rebuild.create_array.has_value", nm::has_value(ma), D0, D1);
      auto a = nm::unwrap(ma);
      auto shp = nm::shape(a);
      OBLIGE("C13.rebuild.create_array.shape_is_the_given_one", (size_t)nm::len(shp) == 2 && (size_t)nm::at(shp,0) == D0 && (size_t)nm::at(shp,1) == D1, D0, D1);
      for_<D0>([&](auto I){ for_<D1>([&](auto J){ OBLIGE("C13.rebuild.create_array.element_is_the_row_major_position", (long)a(I.value, J.value) == data[I.value * D1 + J.value], D0, D1, I.value, J.value); }); }); }
    { auto o = na::create_mutable_array<2>(out, shape_ptr, 2);
      auto shp = nm::shape(o);
      OBLIGE("C13.rebuild.create_mutable_array.shape_is_the_given_one", (size_t)nm::len(shp) == 2 && (size_t)nm::at(shp,0) == D0 && (size_t)nm::at(shp,1) == D1, D0, D1);
      for_<D0>([&](auto I){ for_<D1>([&](auto J){ OBLIGE("C13.rebuild.create_mutable_array.element_address_is_the_row_major_position", (const void*)&o(I.value, J.value) == (const void*)(out + I.value * D1 + J.value), D0, D1, I.value, J.value); }); }); }
}
template void ob_c13_rebuild_2d<2,3>(const long*, const size_t*, long*);
template void ob_c13_rebuild_2d<3,2>(const long*, const size_t*, long*);
template void ob_c13_rebuild_2d<1,4>(const long*, const size_t*, long*);
void ob_c13_rebuild_3d(const long* data, const size_t* shape_ptr)
{
    ASSUME(shape_ptr[0] == 2 && shape_ptr[1] == 3 && shape_ptr[2] == 2);
    auto ma = na::create_array<3>(data, shape_ptr, 3);
    OBLIGE("C13.rebuild.create_array.has_value", nm::has_value(ma), 232);
    auto a = nm::unwrap(ma);
    auto shp = nm::shape(a);
    OBLIGE("C13.rebuild.create_array.shape_is_the_given_one", (size_t)nm::len(shp) == 3 && (size_t)nm::at(shp,0) == 2 && (size_t)nm::at(shp,1) == 3 && (size_t)nm::at(shp,2) == 2, 232);
    for_<2>([&](auto I){ for_<3>([&](auto J){ for_<2>([&](auto K){ OBLIGE("C13.rebuild.create_array.element_is_the_row_major_position", (long)a(I.value, J.value, K.value) == data[I.value * 6 + J.value * 2 + K.value], 232, I.value, J.value, K.value); }); }); });
}
void ob_c13_negctl(float* out, const std::array<size_t,1>& shape_, const na::ndarray_t<std::array<float,8>,std::array<size_t,1>>& result, const ks& t_, const ks& b_, const ks& s_, size_t k)
{
    const auto shape = shape_; const ks t = t_, b = b_, s = s_;
    auto output = na::device_array(out, shape, 1);
    float before = out[k];
    na::assign_result(output, result, t, b, s);
    NEGCTL("C13.NEG.never_writes", same_bits_(before, out[k]), 1);
}
#define G(R,N) template void ob_c13_guard<R,N>(float*, const std::array<size_t,R>&, const na::ndarray_t<std::array<float,N>,std::array<size_t,R>>&, const ks&, const ks&, const ks&, size_t); \
   template void ob_c13_guard_maybe<R,N>(float*, const std::array<size_t,R>&, const nmtools_maybe<na::ndarray_t<std::array<float,N>,std::array<size_t,R>>>&, const ks&, const ks&, const ks&, size_t);
G(1,8) G(2,12) G(3,24)
#define A1(I,O) template void ob_c13_assign_r1<8,I,O>(float* __restrict, const std::array<size_t,1>&, const na::ndarray_t<std::array<float,8>,std::array<size_t,1>>&, const ks&, const ks&, const ks&);
A1(1,0) A1(2,0) A1(5,6) A1(7,3)   // IDX=0 is not dischargeable (idx==0 is folded into b*s+t==0 and the modulo is not simplified)
