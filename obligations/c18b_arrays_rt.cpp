// the obligations of c18b_arrays.cpp on arrays whose shape is a run-time value
#define VERIF_RT_KIND 1
#include "c18b_arrays.cpp"
