// C12 / C02 (enumerator-driven SIMD path, 2-d broadcast binary ufuncs): index::binary_2d_simd_enumerator depends only on the three
// shapes and the pack width, so for small shapes its whole behaviour is a finite table. For every output shape (R,C) with R in 1..3 and
// C crossing two pack boundaries, and every operand shape in {(R,C),(1,C),(R,1),(1,1)}, every enumerated step is checked:
//   * the output positions it designates lie inside the output, and over all steps every output position is designated exactly once;
//   * for the k-th lane of a step the lhs / rhs position it designates is the position NumPy's broadcasting pairs with that output
//     position, and a PACKED operand access (N lanes from offset) stays inside the operand.
#include "common.hpp"
#include "nmtools/array/eval/simd/index/ufunc.hpp"
#include "nmtools/array/eval/simd/index/matmul.hpp"
using namespace ob;
using ix::SIMD;

template <size_t N, size_t R, size_t C, size_t LR, size_t LC, size_t RR, size_t RC>
void ob_c12_binary2d()
{
    const std::array<size_t,2> out{R,C}, lhs{LR,LC}, rhs{RR,RC};
    const auto en = ix::binary_2d_simd_enumerator(meta::as_type_v<N>, out, lhs, rhs);
    constexpr size_t n_packed = C / N, simd_cols = n_packed + C % N, STEPS = R * simd_cols;
    OBLIGE("C12.binary2d.number_of_steps", (size_t)en.size() == STEPS, N, R*100+C, LR*10+LC, RR*10+RC);
    size_t covered[R*C] = {};
    for_<STEPS>([&](auto I){
        const auto step = en[I.value];
        const auto [otag, oidx] = nm::at(step, 0); const auto [ltag, lidx] = nm::at(step, 1); const auto [rtag, ridx] = nm::at(step, 2);
        const size_t lanes = (otag == SIMD::PACKED) ? N : 1;
        OBLIGE("C12.binary2d.out_tag_is_packed_or_scalar", otag == SIMD::PACKED || otag == SIMD::SCALAR, N, R*100+C, LR*10+LC, RR*10+RC);
        OBLIGE("C02.binary2d.out_inside|C12.binary2d.out_inside", (size_t)oidx + lanes <= R*C, N, R*100+C, LR*10+LC, RR*10+RC);
        for (size_t k = 0; k < lanes; k++) {
            const size_t p = (size_t)oidx + k, row = p / C, col = p % C;
            if (p < R*C) covered[p]++;
            const size_t el = (LR > 1 ? row : 0) * LC + (LC > 1 ? col : 0), er = (RR > 1 ? row : 0) * RC + (RC > 1 ? col : 0);
            const size_t gl = (ltag == SIMD::PACKED) ? (size_t)lidx + k : (size_t)lidx;
            const size_t gr = (rtag == SIMD::PACKED) ? (size_t)ridx + k : (size_t)ridx;
            OBLIGE("C12.binary2d.lhs_position_is_the_broadcast_partner", gl == el, N, R*100+C, LR*10+LC, RR*10+RC);
            OBLIGE("C12.binary2d.rhs_position_is_the_broadcast_partner", gr == er, N, R*100+C, LR*10+LC, RR*10+RC);
        }
        if (ltag == SIMD::PACKED) OBLIGE("C02.binary2d.lhs_pack_inside|C12.binary2d.lhs_pack_inside", (size_t)lidx + N <= LR*LC, N, R*100+C, LR*10+LC, RR*10+RC);
        if (rtag == SIMD::PACKED) OBLIGE("C02.binary2d.rhs_pack_inside|C12.binary2d.rhs_pack_inside", (size_t)ridx + N <= RR*RC, N, R*100+C, LR*10+LC, RR*10+RC);
        // a lane-wise operation needs lane-compatible operands: a PACKED output is computed from PACKED or BROADCAST operands
        if (otag == SIMD::PACKED) OBLIGE("C12.binary2d.packed_output_from_packed_or_broadcast_operands", (ltag == SIMD::PACKED || ltag == SIMD::BROADCAST) && (rtag == SIMD::PACKED || rtag == SIMD::BROADCAST), N, R*100+C, LR*10+LC, RR*10+RC);
    });
    for_<R*C>([&](auto P){ OBLIGE("C12.binary2d.every_output_position_exactly_once", covered[P.value] == 1, N, R*100+C, LR*10+LC, P.value); });
}
void ob_c12_enum_negctl()
{
    const std::array<size_t,2> out{2,4}, lhs{2,4}, rhs{1,4};
    const auto en = ix::binary_2d_simd_enumerator(meta::as_type_v<4ul>, out, lhs, rhs);
    const auto step = en[1];
    NEGCTL("C12.NEG.row_broadcast_operand_advances|C02.NEG.row_broadcast_operand_advances", (size_t)nm::get<1>(nm::at(step,2)) == 4, 0);
}
// every operand-shape combination is its own function: a definite failure (a constant-false obligation) ends the path it is on, so
// combinations sharing one function would hide each other
#define B1(N,R,C,LR,LC,RR,RC) template void ob_c12_binary2d<N,R,C,LR,LC,RR,RC>();
#define B2(N,R,C) B1(N,R,C,R,C,R,C) B1(N,R,C,1,C,R,C) B1(N,R,C,R,C,1,C) B1(N,R,C,R,1,R,C) B1(N,R,C,R,C,R,1) B1(N,R,C,1,1,R,C) B1(N,R,C,R,C,1,1) B1(N,R,C,R,1,1,C) B1(N,R,C,1,C,R,1)
// one output row: (R,C) and (1,C) coincide
#define B2R1(N,C) B1(N,1,C,1,C,1,C) B1(N,1,C,1,1,1,C) B1(N,1,C,1,C,1,1)
B1(4,1,1,1,1,1,1) B2R1(4,3) B2R1(4,4) B2R1(4,5) B2R1(4,9) B2(4,2,4) B2(4,2,7) B2(4,3,8) B2(4,2,9) B2(4,3,5)
#ifdef VERIF_THOROUGH
B2R1(8,7) B2R1(8,8) B2R1(8,17) B2(8,2,8) B2(8,2,9) B2(8,3,17) B2(4,3,13)
#endif

// ---- outer_simd_enumerator: out = lhs (x) rhs, lhs is broadcast to every lane, rhs and out advance together along rhs' last axis.
// A step with tag PACKED has N valid lanes, a step with tag PAD_k has N - k.
template <size_t... E> struct shp { static constexpr size_t rank = sizeof...(E); static constexpr std::array<size_t,sizeof...(E)> value{E...}; static constexpr size_t numel = (E * ... * 1); };
template <size_t N, class L, class Rr>
void ob_c12_outer()
{
    constexpr size_t LD = L::rank, RD = Rr::rank, OD = LD + RD;
    constexpr auto lsh = L::value; constexpr auto rsh = Rr::value;
    std::array<size_t,OD> out{};
    for (size_t i = 0; i < LD; i++) out[i] = lsh[i];
    for (size_t i = 0; i < RD; i++) out[LD+i] = rsh[i];
    const auto en = ix::outer_simd_enumerator(meta::as_type_v<N>, out, lsh, rsh);
    constexpr size_t last = rsh[RD-1], per_row = last / N + (last % N ? 1 : 0), STEPS = (L::numel * Rr::numel / last) * per_row, TOTAL = L::numel * Rr::numel;
    constexpr long tag = (long)(L::numel * 1000 + Rr::numel * 10 + RD);
    OBLIGE("C12.outer.number_of_steps", (size_t)en.size() == STEPS, N, tag, LD, RD);
    size_t covered[TOTAL] = {};
    for_<STEPS>([&](auto I){
        const auto step = en[I.value];
        const auto [otag, oidx] = nm::at(step, 0); const auto [ltag, lidx] = nm::at(step, 1); const auto [rtag, ridx] = nm::at(step, 2);
        OBLIGE("C12.outer.tags", ltag == SIMD::BROADCAST && rtag == otag && ((int)otag == (int)SIMD::PACKED || ((int)otag >= 1 && (int)otag < (int)N)), N, tag, LD, RD);
        const size_t lanes = ((int)otag == (int)SIMD::PACKED) ? N : N - (size_t)(int)otag;
        OBLIGE("C02.outer.out_inside|C12.outer.out_inside", (size_t)oidx + lanes <= TOTAL, N, tag, LD, RD);
        OBLIGE("C02.outer.rhs_inside|C12.outer.rhs_inside", (size_t)ridx + lanes <= Rr::numel, N, tag, LD, RD);
        OBLIGE("C02.outer.lhs_inside|C12.outer.lhs_inside", (size_t)lidx < L::numel, N, tag, LD, RD);
        for (size_t k = 0; k < lanes; k++) {
            const size_t p = (size_t)oidx + k;
            if (p < TOTAL) covered[p]++;
            // out is C-ordered over (lhs axes..., rhs axes...): flat p = lhs_flat * numel(rhs) + rhs_flat
            OBLIGE("C12.outer.lhs_position_is_the_outer_partner|C01.outer.lhs_offset", (size_t)lidx == p / Rr::numel, N, tag, LD, RD);
            OBLIGE("C12.outer.rhs_position_is_the_outer_partner|C01.outer.rhs_offset", (size_t)ridx + k == p % Rr::numel, N, tag, LD, RD);
        }
    });
    for_<TOTAL>([&](auto P){ OBLIGE("C12.outer.every_output_position_exactly_once", covered[P.value] == 1, N, tag, LD*10+RD, P.value); });
}
#define OU(N,L,R) template void ob_c12_outer<N,L,R>();
#define COMMA ,
OU(4, shp<2>, shp<5>) OU(4, shp<3>, shp<4>) OU(4, shp<2>, shp<2 COMMA 5>) OU(4, shp<2 COMMA 2>, shp<3>) OU(4, shp<2 COMMA 2>, shp<2 COMMA 4>) OU(4, shp<2>, shp<2 COMMA 2 COMMA 5>) OU(4, shp<2 COMMA 1 COMMA 2>, shp<6>) OU(4, shp<1>, shp<1>)
#ifdef VERIF_THOROUGH
OU(8, shp<2>, shp<9>) OU(8, shp<2>, shp<2 COMMA 2 COMMA 17>) OU(4, shp<3>, shp<2 COMMA 3 COMMA 2 COMMA 5>) OU(4, shp<2 COMMA 3 COMMA 2>, shp<2 COMMA 7>)
#endif

// ---- reduction_2d_enumerator (one reduction axis): every input element is accumulated exactly once, into the output position that
// has the same coordinates with the reduced coordinate dropped; packs stay inside input and output.
template <size_t N, class S, size_t AX>
void ob_c12_reduction()
{
    constexpr size_t D = S::rank; constexpr auto ish = S::value; constexpr size_t TOTAL = S::numel;
    std::array<size_t,D> osh{}; for (size_t i = 0; i < D; i++) osh[i] = (i == AX ? 1 : ish[i]);     // keepdims form
    constexpr size_t NOUT = TOTAL / ish[AX];
    constexpr long tag = (long)(TOTAL * 100 + D * 10 + AX);
    constexpr bool HORIZ = (AX == D - 1);
    const auto en = [&](){
        if constexpr (HORIZ) return ix::reduction_2d_enumerator(meta::as_type_v<ix::ReductionKind::HORIZONTAL>, meta::as_type_v<N>, osh, ish, AX);
        else return ix::reduction_2d_enumerator(meta::as_type_v<ix::ReductionKind::VERTICAL>, meta::as_type_v<N>, osh, ish, AX);
    }();
    // number of steps of the 2-d form: rows x (packs per row)
    constexpr size_t ROWS = HORIZ ? TOTAL / ish[D-1] : [&](){ size_t r = 1; for (size_t i = 0; i <= AX; i++) r *= ish[i]; return r; }();
    constexpr size_t COLS = TOTAL / ROWS;
    constexpr size_t STEPS = ROWS * (HORIZ ? (COLS / N + (COLS % N ? 1 : 0)) : (COLS / N + COLS % N));
    OBLIGE("C12.reduction.number_of_steps", (size_t)en.size() == STEPS, N, tag, HORIZ);
    size_t covered[TOTAL] = {};
    for_<STEPS>([&](auto I){
        const auto step = en[I.value];
        const auto [otag, oidx] = nm::at(step, 0); const auto [itag, iidx] = nm::at(step, 1);
        const int it = (int)itag;
        OBLIGE("C12.reduction.input_tag", it == (int)SIMD::PACKED || it == (int)SIMD::SCALAR || (it >= 1 && it < (int)N), N, tag, HORIZ);
        const size_t lanes = it == (int)SIMD::PACKED ? N : (it == (int)SIMD::SCALAR ? 1 : N - (size_t)it);
        OBLIGE("C02.reduction.input_inside|C12.reduction.input_inside", (size_t)iidx + lanes <= TOTAL, N, tag, HORIZ);
        const bool out_packed = (int)otag == (int)SIMD::ACCUMULATE_PACKED;
        OBLIGE("C02.reduction.output_inside|C12.reduction.output_inside", (size_t)oidx + (out_packed ? N : 1) <= NOUT, N, tag, HORIZ);
        if (out_packed) OBLIGE("C12.reduction.packed_accumulate_reads_a_full_pack", it == (int)SIMD::PACKED, N, tag, HORIZ);
        for (size_t k = 0; k < lanes; k++) {
            const size_t q = (size_t)iidx + k;
            if (q < TOTAL) covered[q]++;
            // expected output position: the coordinates of q with coordinate AX dropped (C order)
            size_t rem = q, expect = 0, mul = 1; size_t coord[D] = {};
            for (size_t d = D; d-- > 0;) { coord[d] = rem % ish[d]; rem /= ish[d]; }
            for (size_t d = D; d-- > 0;) { if (d != AX) { expect += coord[d] * mul; mul *= ish[d]; } }
            OBLIGE("C12.reduction.element_goes_to_its_output_position", (size_t)oidx + (out_packed ? k : 0) == expect, N, tag, HORIZ);
        }
    });
    for_<TOTAL>([&](auto P){ OBLIGE("C12.reduction.every_input_element_exactly_once", covered[P.value] == 1, N, tag, HORIZ, P.value); });
}
#define RD(N,S,AX) template void ob_c12_reduction<N,S,AX>();
RD(4, shp<5>, 0) RD(4, shp<9>, 0) RD(4, shp<2 COMMA 5>, 0) RD(4, shp<2 COMMA 5>, 1) RD(4, shp<3 COMMA 4>, 0) RD(4, shp<3 COMMA 9>, 1)
RD(4, shp<2 COMMA 3 COMMA 5>, 0) RD(4, shp<2 COMMA 3 COMMA 5>, 1) RD(4, shp<2 COMMA 3 COMMA 5>, 2) RD(4, shp<2 COMMA 2 COMMA 9>, 1)
#ifdef VERIF_THOROUGH
RD(8, shp<2 COMMA 9>, 0) RD(8, shp<2 COMMA 17>, 1) RD(4, shp<2 COMMA 2 COMMA 2 COMMA 5>, 1) RD(4, shp<2 COMMA 2 COMMA 2 COMMA 5>, 2) RD(8, shp<3 COMMA 2 COMMA 9>, 1)
#endif

// ---- matmul (out (M,P) = lhs (M,K) x rhs (K,P), rhs stored column-major, i.e. as P rows of K): for every output element the inner
// steps cover the K products exactly once, lane k of a step pairs lhs[row*K + j] with rhs[col*K + j] for the same j, inside both operands.
template <size_t N, size_t M, size_t K, size_t P>
void ob_c12_matmul()
{
    const std::array<size_t,2> out{M,P}, lhs{M,K}, rhs{K,P};
    constexpr size_t INNER = K / N + (K % N ? 1 : 0);
    constexpr long tag = (long)(M*10000 + K*100 + P);
    for_<M*P>([&](auto O){
        constexpr size_t o = O.value, row = o / P, col = o % P;
        OBLIGE("C12.matmul.inner_steps", (size_t)ix::matmul_simd_inner_size(meta::as_type_v<N>, o, out, lhs, rhs) == INNER, N, tag, o);
        size_t covered[K] = {};
        for_<INNER>([&](auto S_){
            const auto step = ix::matmul_simd_inner(meta::as_type_v<N>, o, S_.value, out, lhs, rhs);
            const auto [otag, oidx] = nm::at(step, 0); const auto [ltag, lidx] = nm::at(step, 1); const auto [rtag, ridx] = nm::at(step, 2);
            OBLIGE("C12.matmul.output_position", (size_t)oidx == o, N, tag, o);
            OBLIGE("C12.matmul.operand_tags_agree", (int)ltag == (int)rtag && ((int)ltag == (int)SIMD::PACKED || ((int)ltag >= 1 && (int)ltag < (int)N)), N, tag, o);
            const size_t lanes = (int)ltag == (int)SIMD::PACKED ? N : N - (size_t)(int)ltag;
            OBLIGE("C02.matmul.lhs_inside|C12.matmul.lhs_inside", (size_t)lidx + lanes <= M*K, N, tag, o);
            OBLIGE("C02.matmul.rhs_inside|C12.matmul.rhs_inside", (size_t)ridx + lanes <= K*P, N, tag, o);
            for (size_t k = 0; k < lanes; k++) {
                const size_t j = S_.value * N + k;
                if (j < K) covered[j]++;
                OBLIGE("C12.matmul.lhs_lane_is_row_element_j", (size_t)lidx + k == row*K + j, N, tag, o);
                OBLIGE("C12.matmul.rhs_lane_is_column_element_j", (size_t)ridx + k == col*K + j, N, tag, o);
            }
        });
        for_<K>([&](auto J){ OBLIGE("C12.matmul.every_product_exactly_once", covered[J.value] == 1, N, tag, o, J.value); });
    });
}
#define MMU(N,M,K,P) template void ob_c12_matmul<N,M,K,P>();
MMU(4,1,1,1) MMU(4,2,3,2) MMU(4,2,4,3) MMU(4,2,5,2) MMU(4,3,9,2)
#ifdef VERIF_THOROUGH
MMU(8,2,7,2) MMU(8,2,8,3) MMU(8,2,17,2)
#endif
