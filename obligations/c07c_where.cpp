// C07 / C04 (constant small shapes, symbolic integer elements): where(c, x, y) has the broadcast shape of its three operands and selects,
// at every index, x or y by the broadcast condition.
#include "bcastob.hpp"
// ---- ternary: where(c, x, y), three differently shaped operands
template <size_t R0, size_t R1, class C, class X, class Y>
void ob_c07_where(const C& c, const X& x, const Y& y, int tag)
{
    auto v = nm::unwrap(view::where(raw(c), raw(x), raw(y)));
    auto shp = nm::shape(v);
    OBLIGE("C07.where.shape|C04.where.shape", (size_t)nm::len(shp) == 2 && (size_t)nm::at(shp, meta::ct_v<0>) == R0 && (size_t)nm::at(shp, meta::ct_v<1>) == R1, R0, R1, tag);
    for_<R0>([&](auto I){ for_<R1>([&](auto J){
        OBLIGE("C07.where.element_selects_by_the_broadcast_condition|C04.where.element", (long)v(I.value, J.value) == (rd2(c, I.value, J.value) ? rd2(x, I.value, J.value) : rd2(y, I.value, J.value)), R0*10+R1, tag, I.value, J.value);
    }); });
}
// (view::clip does not compile on the unchanged tree: its second `where` receives a maybe-typed view and broadcast_arrays rejects it at
//  compile time; the clip test is excluded from the baseline build. Nothing is stated about it.)
void ob_c07_where_1(const ARR<2,3>& c, const ARR<3>& x, const ARR<2,1>& y) { PIN(c, 2,3); PIN(x, 3); PIN(y, 2,1); ob_c07_where<2,3>(OP<2,3>(c), OP<3>(x), OP<2,1>(y), 1); }
void ob_c07_where_2(const ARR<3>& c, const ARR<2,1>& x, long y) { PIN(c, 3); PIN(x, 2,1); ob_c07_where<2,3>(OP<3>(c), OP<2,1>(x), y, 2); }
void ob_c07_where_3(const ARR<2,1>& c, long x, const ARR<1,3>& y) { PIN(c, 2,1); PIN(y, 1,3); ob_c07_where<2,3>(OP<2,1>(c), x, OP<1,3>(y), 3); }

void ob_c07c_negctl(const ARR<2,1>& c, long x, const ARR<1,3>& y)
{ PIN(c, 2,1); PIN(y, 1,3);
    auto v = nm::unwrap(view::where(c, x, y));
    NEGCTL("C07.NEG.where_branches_swapped", (long)v(1, 2) == (c(1, 0) ? y(0, 2) : x), 0);
}
