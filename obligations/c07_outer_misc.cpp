// C07 outer variant (index level), C06 helper index functions, C01 utility::at - closed forms for all values
#include "common.hpp"
#include "nmtools/array/index/outer.hpp"
#include "nmtools/array/index/gather.hpp"
#include "nmtools/array/index/logical_not.hpp"
#include "nmtools/utility/at.hpp"
using namespace ob;
using namespace nmtools::literals;

// ---- shape_outer(a,b) = a ++ b ; outer(indices,a,b) splits the result index into (first len(a), remaining len(b))
template <class K, size_t RA, size_t RB>
void ob_c07_outer(const mk_t<K,size_t,RA>& a, const mk_t<K,size_t,RB>& b, const std::array<size_t,RA+RB>& idx_)
{
    const auto idx = idx_;
    assume_len<RA>(a); assume_len<RB>(b);
    auto s = ix::shape_outer(a,b);
    OBLIGE("C07.outer.shape.dim", (size_t)nm::len(s) == RA+RB, kid<K>, RA, RB);
    for_<RA+RB>([&](auto I){
        if constexpr (I.value < RA) OBLIGE("C07.outer.shape.is_concatenation", (size_t)nm::at(s, I.value) == (size_t)rd<I.value>(a), kid<K>, RA, RB, I.value);
        else OBLIGE("C07.outer.shape.is_concatenation", (size_t)nm::at(s, I.value) == (size_t)rd<I.value-RA>(b), kid<K>, RA, RB, I.value);
    });
    auto ab = ix::outer(idx, a, b);
    auto ai = nm::get<0>(ab); auto bi = nm::get<1>(ab);
    OBLIGE("C07.outer.index.adim", (size_t)nm::len(ai) == RA, kid<K>, RA, RB);
    OBLIGE("C07.outer.index.bdim", (size_t)nm::len(bi) == RB, kid<K>, RA, RB);
    for_<RA>([&](auto I){ OBLIGE("C07.outer.index.a_takes_leading", (size_t)nm::at(ai, I.value) == idx[I.value], kid<K>, RA, RB, I.value); });
    for_<RB>([&](auto I){ OBLIGE("C07.outer.index.b_takes_trailing", (size_t)nm::at(bi, I.value) == idx[RA+I.value], kid<K>, RA, RB, I.value); });
}
// ---- gather(vec, idx)[i] = vec[idx[i]]
template <class K, size_t RV, size_t RI>
void ob_c06_gather(const mk_t<K,size_t,RV>& v, const std::array<size_t,RI>& idx_)
{
    const auto idx = idx_;
    assume_len<RV>(v);
    for_<RI>([&](auto I){ ASSUME(idx[I.value] < RV); });
    { auto g = ix::gather(v, idx); OBLIGE("C06.gather.dim", (size_t)nm::len(g) == RI, kid<K>, RV, RI); }
    for_<RI>([&](auto I){
        for_<RV>([&](auto J){ if (idx[I.value] == J.value) { auto g = ix::gather(v, idx); OBLIGE("C06.gather.element", (size_t)nm::at(g, I.value) == (size_t)rd<J.value>(v), kid<K>, RV*10+RI, I.value, J.value); } });
    });
}
// ---- logical_not on a boolean index array
template <size_t R>
void ob_c06_logical_not(const std::array<bool,R>& a_)
{
    const auto a = a_;
    auto n = ix::logical_not(a);
    OBLIGE("C06.logical_not.dim", (size_t)nm::len(n) == R, R);
    for_<R>([&](auto I){ OBLIGE("C06.logical_not.element", (bool)nm::at(n, I.value) == !a[I.value], R, I.value); });
}
// ---- utility::at: run-time and compile-time index, negative compile-time index counts from the end
template <class K, size_t R>
void ob_c01_at(const mk_t<K,size_t,R>& s, size_t i)
{
    assume_len<R>(s);
    ASSUME(i < R);
    for_<R>([&](auto J){
        if constexpr (!std::is_same_v<K,k_tup>) { if (i == J.value) OBLIGE("C01.at.runtime_index", (size_t)nm::at(s, i) == (size_t)rd<J.value>(s), kid<K>, R, J.value); }
        OBLIGE("C01.at.constant_index", (size_t)nm::at(s, meta::ct_v<J.value>) == (size_t)rd<J.value>(s), kid<K>, R, J.value);
        OBLIGE("C01.at.template_index", (size_t)nm::at<J.value>(s) == (size_t)rd<J.value>(s), kid<K>, R, J.value);
    });
    if constexpr (!std::is_same_v<K,k_sv>) {
        OBLIGE("C01.at.negative_constant_index_last", (size_t)nm::at(s, meta::ct_v<-1>) == (size_t)rd<R-1>(s), kid<K>, R);
        if constexpr (R >= 2) OBLIGE("C01.at.negative_constant_index_second_last", (size_t)nm::at(s, meta::ct_v<-2>) == (size_t)rd<R-2>(s), kid<K>, R);
    }
}
void ob_c07m_negctl(const std::array<size_t,2>& a, const std::array<size_t,1>& b, const std::array<size_t,3>& idx_)
{
    const auto idx = idx_;
    auto ab = ix::outer(idx, a, b);
    NEGCTL("C07.NEG.outer_b_takes_leading|C06.NEG.outer_b_takes_leading|C01.NEG.outer_b_takes_leading", (size_t)nm::at(nm::get<1>(ab),0) == idx[0], 0);
}
#define OU(K,RA,RB) template void ob_c07_outer<K,RA,RB>(const mk_t<K,size_t,RA>&, const mk_t<K,size_t,RB>&, const std::array<size_t,RA+RB>&);
OU(k_std,1,1) OU(k_std,1,2) OU(k_std,2,1) OU(k_std,2,2) OU(k_std,3,1) OU(k_utl,2,2)
#define GA(K,RV,RI) template void ob_c06_gather<K,RV,RI>(const mk_t<K,size_t,RV>&, const std::array<size_t,RI>&);
GA(k_std,2,1) GA(k_std,3,2) GA(k_std,3,3) GA(k_utl,3,2) GA(k_sv,3,2)
// (logical_not on symbolic bool storage does not discharge: i8 loads of bool)
#define AT(K,R) template void ob_c01_at<K,R>(const mk_t<K,size_t,R>&, size_t);
AT(k_std,1) AT(k_std,3) AT(k_utl,2) AT(k_utl,4) AT(k_tup,3) AT(k_sv,3)
