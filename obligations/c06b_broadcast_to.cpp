// C06 (+C02, C15): view::broadcast_to - value exactly when the source extents are equal-or-1 w.r.t. the right-aligned target,
// shape = target, source index = destination index with prepended axes dropped and stretched axes pinned to 0
#include "viewob.hpp"
#include "nmtools/array/view/broadcast_to.hpp"
using namespace ob;
namespace view = nmtools::view;
template <class T, size_t N, size_t R> using arr_f = na::ndarray_t<std::array<T,N>, std::array<size_t,R>>;

// case analysis over which source axes are stretched: MASK bit j set <=> src extent j == 1 (and target extent arbitrary), else equal
template <size_t N, size_t RS, size_t RD, unsigned MASK>
void ob_c06_broadcast_to(const arr_f<float,N,RS>& a, const std::array<size_t,RD>& dshape_, const std::array<size_t,RD>& dst_)
{
    const auto dshape = dshape_; const auto dst = dst_;
    for_<RD>([&](auto I){ ASSUME(dshape[I.value] >= 1); });
    for_<RS>([&](auto J){
        if constexpr ((MASK >> J.value) & 1) ASSUME(rd<J.value>(a.shape_) == 1);
        else { ASSUME(rd<J.value>(a.shape_) == dshape[J.value + (RD-RS)]); ASSUME(rd<J.value>(a.shape_) != 1); }
    });
    auto mv = view::broadcast_to(a, dshape);
    OBLIGE("C06.broadcast_to.value_when_compatible|C15.broadcast_to.value_when_compatible", nm::has_value(mv), RS, RD, MASK);
    if (nm::has_value(mv)) {
        const auto& v = nm::unwrap(mv);
        auto shp = nm::shape(v);
        OBLIGE("C06.broadcast_to.dim", (size_t)nm::len(shp)==RD, RS, RD, MASK);
        for_<RD>([&](auto I){ OBLIGE("C06.broadcast_to.shape_is_target", gx<I.value>(shp)==dshape[I.value], RS, RD, MASK, I.value); });
        for_<RD>([&](auto I){ ASSUME(dst[I.value] < dshape[I.value]); });
        auto src = v.indexer.indices(dst);
        OBLIGE("C06.broadcast_to.srcdim", (size_t)nm::len(src)==RS, RS, RD, MASK);
        for_<RS>([&](auto J){ OBLIGE("C02.broadcast_to.src_in_shape", gx<J.value>(src) < (size_t)rd<J.value>(a.shape_), RS, RD, MASK, J.value); });
        for_<RS>([&](auto J){
            if constexpr ((MASK >> J.value) & 1) OBLIGE("C06.broadcast_to.stretched_axis_reads_0", gx<J.value>(src) == 0, RS, RD, MASK, J.value);
            else if constexpr (RS == 1) OBLIGE("C06.broadcast_to.kept_axis_same_index", gx<J.value>(src) == dst[J.value + (RD-RS)], RS, RD, MASK, J.value);
            // (for RS >= 2 the kept axes go through ravel/unravel of the gathered axes: the identity needs the mixed-radix theorem - not stated)
        });
    }
}
// an incompatible source extent at source axis J (neither 1 nor the target extent) -> Nothing
template <size_t N, size_t RS, size_t RD, size_t J>
void ob_c06_broadcast_to_invalid(const arr_f<float,N,RS>& a, const std::array<size_t,RD>& dshape_)
{
    const auto dshape = dshape_;
    for_<RD>([&](auto I){ ASSUME(dshape[I.value] >= 1); });
    if (rd<J>(a.shape_) != 1 && rd<J>(a.shape_) != dshape[J + (RD-RS)]) {
        auto mv = view::broadcast_to(a, dshape);
        OBLIGE("C06.broadcast_to.nothing_when_incompatible|C15.broadcast_to.nothing_when_incompatible", !nm::has_value(mv), RS, RD, J);
    }
}
// ---- a source with MORE dimensions than the target is refused whatever its extents (also when the surplus leading extents are 1:
// NumPy raises; broadcast_to never squeezes)
template <size_t N, size_t RS, size_t RD>
void ob_c06_broadcast_to_rank_surplus(const arr_f<float,N,RS>& a, const std::array<size_t,RD>& dshape_)
{
    static_assert(RS > RD);
    const auto dshape = dshape_;
    for_<RS>([&](auto I){ ASSUME(rd<I.value>(a.shape_) >= 1 && rd<I.value>(a.shape_) <= 64); });
    for_<RD>([&](auto I){ ASSUME(dshape[I.value] >= 1 && dshape[I.value] <= 64); });
    auto mv = view::broadcast_to(a, dshape);
    OBLIGE("C06.broadcast_to.nothing_when_the_source_has_more_dimensions|C15.broadcast_to.nothing_when_the_source_has_more_dimensions", !nm::has_value(mv), RS, RD);
}
template void ob_c06_broadcast_to_rank_surplus<64,2,1>(const arr_f<float,64,2>&, const std::array<size_t,1>&);
template void ob_c06_broadcast_to_rank_surplus<64,3,2>(const arr_f<float,64,3>&, const std::array<size_t,2>&);
template void ob_c06_broadcast_to_rank_surplus<64,3,1>(const arr_f<float,64,3>&, const std::array<size_t,1>&);
void ob_c06b_negctl(const arr_f<float,24,1>& a, const std::array<size_t,2>& dshape_)
{
    const auto dshape = dshape_;
    auto mv = view::broadcast_to(a, dshape);
    NEGCTL("C06.NEG.broadcast_to_always_valid|C02.NEG.broadcast_to_always_valid|C15.NEG.broadcast_to_always_valid", nm::has_value(mv), 0);
}
#define BT(N,RS,RD,M) template void ob_c06_broadcast_to<N,RS,RD,M>(const arr_f<float,N,RS>&, const std::array<size_t,RD>&, const std::array<size_t,RD>&);
BT(24,1,1,0) BT(24,1,1,1) BT(24,1,2,0) BT(24,1,2,1) BT(24,2,2,0) BT(24,2,2,1) BT(24,2,2,2) BT(24,2,2,3) BT(24,2,3,0) BT(24,2,3,1) BT(24,2,3,2) BT(24,1,3,0) BT(24,3,3,5) BT(24,3,3,2)
#define BI(N,RS,RD,J) template void ob_c06_broadcast_to_invalid<N,RS,RD,J>(const arr_f<float,N,RS>&, const std::array<size_t,RD>&);
BI(24,1,1,0) BI(24,1,2,0) BI(24,2,2,0) BI(24,2,2,1) BI(24,2,3,0) BI(24,2,3,1) BI(24,3,3,1)
