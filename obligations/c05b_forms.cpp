// C05 (view level, small shapes, symbolic element values): integers drop their axis (negative ones counted from the end), an ellipsis
// stands for the axes that are not named, several axes are sliced independently of each other.
#include "cview.hpp"
#define HV_ID "C05.view.has_value"
#include "nmtools/array/view/slice.hpp"
using nm::None; using nm::Ellipsis;
constexpr size_t Z = 0;
#define ALL nmtools_tuple{None,None}

// ---- an integer selects one position of its axis and removes the axis
void ob_c05b_int_first_axis(const ARR<3,2>& a)
{ PIN(a, 3,2);
    { VIEW(v, view::slice(a, 0, ALL));  EXPECT_VIEW1("C05.int.axis_dropped", "C05.int.selects_that_position", v, 2, a(Z, i), 0); }
    { VIEW(v, view::slice(a, 1, ALL));  EXPECT_VIEW1("C05.int.axis_dropped", "C05.int.selects_that_position", v, 2, a(Z+1, i), 1); }
    { VIEW(v, view::slice(a, 2, ALL));  EXPECT_VIEW1("C05.int.axis_dropped", "C05.int.selects_that_position", v, 2, a(Z+2, i), 2); }
    { VIEW(v, view::slice(a, -1, ALL)); EXPECT_VIEW1("C05.int.axis_dropped", "C05.int.negative_counts_from_the_end", v, 2, a(Z+2, i), 3); }
    { VIEW(v, view::slice(a, -2, ALL)); EXPECT_VIEW1("C05.int.axis_dropped", "C05.int.negative_counts_from_the_end", v, 2, a(Z+1, i), 4); }
    { VIEW(v, view::slice(a, -3, ALL)); EXPECT_VIEW1("C05.int.axis_dropped", "C05.int.negative_counts_from_the_end", v, 2, a(Z, i), 5); }
}
void ob_c05b_int_last_axis(const ARR<3,2>& a)
{ PIN(a, 3,2);
    { VIEW(v, view::slice(a, ALL, 0));  EXPECT_VIEW1("C05.int.axis_dropped", "C05.int.selects_that_position", v, 3, a(i, Z), 6); }
    { VIEW(v, view::slice(a, ALL, 1));  EXPECT_VIEW1("C05.int.axis_dropped", "C05.int.selects_that_position", v, 3, a(i, Z+1), 7); }
    { VIEW(v, view::slice(a, ALL, -1)); EXPECT_VIEW1("C05.int.axis_dropped", "C05.int.negative_counts_from_the_end", v, 3, a(i, Z+1), 8); }
    { VIEW(v, view::slice(a, ALL, -2)); EXPECT_VIEW1("C05.int.axis_dropped", "C05.int.negative_counts_from_the_end", v, 3, a(i, Z), 9); }
    { VIEW(v, view::slice(a, nmtools_tuple{None,None,-1}, -1)); EXPECT_VIEW1("C05.int.axis_dropped", "C05.int.next_to_a_reversed_axis", v, 3, a(2-i, Z+1), 10); }
    { VIEW(v, view::slice(a, nmtools_tuple{1,None}, 0)); EXPECT_VIEW1("C05.int.axis_dropped", "C05.int.next_to_a_range", v, 2, a(1+i, Z), 11); }
}
void ob_c05b_int_middle(const ARR<2,3,2>& a)
{ PIN(a, 2,3,2);
    { VIEW(v, view::slice(a, ALL, 1, ALL));  EXPECT_VIEW2("C05.int.axis_dropped", "C05.int.selects_that_position", v, 2,2, a(i, Z+1, j), 12); }
    { VIEW(v, view::slice(a, ALL, -3, ALL)); EXPECT_VIEW2("C05.int.axis_dropped", "C05.int.negative_counts_from_the_end", v, 2,2, a(i, Z, j), 13); }
    { VIEW(v, view::slice(a, 1, ALL, 0));    EXPECT_VIEW1("C05.int.axis_dropped", "C05.int.two_integers", v, 3, a(Z+1, i, Z), 14); }
    { VIEW(v, view::slice(a, -1, nmtools_tuple{None,None,-2}, -1)); EXPECT_VIEW1("C05.int.axis_dropped", "C05.int.two_integers", v, 2, a(Z+1, 2-2*i, Z+1), 15); }
}
// ---- ellipsis
void ob_c05b_ellipsis(const ARR<2,3,2>& a)
{ PIN(a, 2,3,2);
    { VIEW(v, view::slice(a, Ellipsis)); EXPECT_VIEW3("C05.ellipsis.shape", "C05.ellipsis.alone_selects_everything", v, 2,3,2, a(i,j,k), 0); }
    { VIEW(v, view::slice(a, Ellipsis, nmtools_tuple{None,None,-1})); EXPECT_VIEW3("C05.ellipsis.shape", "C05.ellipsis.leading_axes_untouched", v, 2,3,2, a(i,j,1-k), 1); }
    { VIEW(v, view::slice(a, nmtools_tuple{1,None}, Ellipsis)); EXPECT_VIEW3("C05.ellipsis.shape", "C05.ellipsis.trailing_axes_untouched", v, 1,3,2, a(1+i,j,k), 2); }
    { VIEW(v, view::slice(a, 0, Ellipsis, nmtools_tuple{None,None,2})); EXPECT_VIEW2("C05.ellipsis.shape", "C05.ellipsis.middle_axes_untouched", v, 3,1, a(Z,i,2*j), 3); }
    { VIEW(v, view::slice(a, Ellipsis, -1)); EXPECT_VIEW2("C05.ellipsis.shape", "C05.ellipsis.then_integer", v, 2,3, a(i,j,Z+1), 4); }
    { VIEW(v, view::slice(a, -1, Ellipsis, 0)); EXPECT_VIEW1("C05.ellipsis.shape", "C05.ellipsis.between_integers", v, 3, a(Z+1,i,Z), 5); }
    { VIEW(v, view::slice(a, nmtools_tuple{None,None,-1}, Ellipsis, nmtools_tuple{1,None})); EXPECT_VIEW3("C05.ellipsis.shape", "C05.ellipsis.between_ranges", v, 2,3,1, a(1-i,j,1+k), 6); }
    { VIEW(v, view::slice(a, ALL, ALL, Ellipsis, nmtools_tuple{None,-1})); EXPECT_VIEW3("C05.ellipsis.shape", "C05.ellipsis.standing_for_no_axis", v, 2,3,1, a(i,j,k), 7); }
}
// ---- several sliced axes are independent of each other
void ob_c05b_two_axes(const ARR<3,4>& a)
{ PIN(a, 3,4);
    { VIEW(v, view::slice(a, nmtools_tuple{1,None}, nmtools_tuple{None,None,2})); EXPECT_VIEW2("C05.axes.shape", "C05.axes.independent", v, 2,2, a(1+i, 2*j), 0); }
    { VIEW(v, view::slice(a, nmtools_tuple{None,None,-1}, nmtools_tuple{-3,-1})); EXPECT_VIEW2("C05.axes.shape", "C05.axes.independent", v, 3,2, a(2-i, 1+j), 1); }
    { VIEW(v, view::slice(a, nmtools_tuple{-1,None,-2}, nmtools_tuple{3,0,-1})); EXPECT_VIEW2("C05.axes.shape", "C05.axes.independent", v, 2,3, a(2-2*i, 3-j), 2); }
    { VIEW(v, view::slice(a, nmtools_tuple{0,2}, nmtools_tuple{1,10,2})); EXPECT_VIEW2("C05.axes.shape", "C05.axes.independent", v, 2,2, a(i, 1+2*j), 3); }
    { VIEW(v, view::slice(a, nmtools_tuple{None,-1}, nmtools_tuple{-10,None,3})); EXPECT_VIEW2("C05.axes.shape", "C05.axes.independent", v, 2,2, a(i, 3*j), 4); }
    { VIEW(v, view::slice(a, nmtools_tuple{2,0}, ALL)); EXPECT_VIEW2("C05.axes.shape", "C05.axes.empty_range_gives_an_empty_axis", v, 0,4, a(i, j), 5); }
}
// ---- a slice of a slice
void ob_c05b_nested(const ARR<3,4>& a)
{ PIN(a, 3,4);
    VIEW(s, view::slice(a, nmtools_tuple{None,None,-1}, nmtools_tuple{1,None}));
    VIEW(v, view::slice(s, nmtools_tuple{1,None}, nmtools_tuple{None,None,-2}));
    EXPECT_VIEW2("C05.nested.shape", "C05.nested.slice_of_a_slice", v, 2,2, a(1-i, 3-2*j), 0);
    NEGCTL("C05.NEG.reversed_axis_reads_forward", cv::elem(v, 0, 0) == (long)a(Z, Z+1), 0);
}
