// the obligations of c07c_where.cpp on arrays whose shape is a run-time value (the library's run-time branches)
#define VERIF_RT_KIND 1
#include "c07c_where.cpp"
