// C04: sliding_window at index level (NumPy's sliding_window_view).
//   shape: the windowed axes shrink to s - (w - 1) and the window extents are appended
//   index: source coordinate on a windowed axis = window position + offset inside the window, other coordinates unchanged
#include "common.hpp"
#include "nmtools/array/index/sliding_window.hpp"
using namespace ob;

// ---- scalar window on one axis (run-time int, possibly negative)
template <class K, size_t R, int AXIS>
void ob_c04_window_axis(const mk_t<K,size_t,R>& shape_, size_t w, const mk_t<K,size_t,R+1>& idx_, int axis)
{
    assume_len<R>(shape_); assume_len<R+1>(idx_);
    const auto shape = shape_; const auto idx = idx_;
    constexpr size_t ax = (size_t)(AXIS < 0 ? AXIS + (int)R : AXIS);
    ASSUME(axis == AXIS);
    for_<R>([&](auto I){ ASSUME((size_t)rd<I.value>(shape) >= 1); ASSUME((size_t)rd<I.value>(shape) < (1ul<<30)); });
    ASSUME(w >= 1); ASSUME(w <= (size_t)rd<ax>(shape));
    auto s = ix::shape_sliding_window(shape, w, axis);
    OBLIGE("C04.window.shape.dim", (size_t)nm::len(s) == R+1, kid<K>, R, AXIS+10);
    for_<R>([&](auto I){
        if constexpr (I.value == ax) OBLIGE("C04.window.shape.windowed_axis_shrinks", (size_t)nm::at(s,I.value) == (size_t)rd<ax>(shape) - (w-1), kid<K>, R, AXIS+10, I.value);
        else OBLIGE("C04.window.shape.other_extents_kept", (size_t)nm::at(s,I.value) == (size_t)rd<I.value>(shape), kid<K>, R, AXIS+10, I.value);
    });
    OBLIGE("C04.window.shape.window_extent_appended", (size_t)nm::at(s,R) == w, kid<K>, R, AXIS+10);
    for_<R+1>([&](auto I){ ASSUME((size_t)rd<I.value>(idx) < (1ul<<30)); });
    auto r = ix::sliding_window(idx, s, shape, w, axis);
    OBLIGE("C04.window.index.dim", (size_t)nm::len(r) == R, kid<K>, R, AXIS+10);
    for_<R>([&](auto I){
        if constexpr (I.value == ax) OBLIGE("C04.window.index.position_plus_offset", (size_t)nm::at(r,I.value) == (size_t)rd<ax>(idx) + (size_t)rd<R>(idx), kid<K>, R, AXIS+10, I.value);
        else OBLIGE("C04.window.index.other_coordinates_kept", (size_t)nm::at(r,I.value) == (size_t)rd<I.value>(idx), kid<K>, R, AXIS+10, I.value);
    });
}
// ---- window per axis, axis = None
template <class K, size_t R>
void ob_c04_window_all(const mk_t<K,size_t,R>& shape_, const mk_t<K,size_t,R>& w_, const mk_t<K,size_t,2*R>& idx_)
{
    assume_len<R>(shape_); assume_len<R>(w_); assume_len<2*R>(idx_);
    const auto shape = shape_; const auto w = w_; const auto idx = idx_;
    for_<R>([&](auto I){ ASSUME((size_t)rd<I.value>(shape) >= 1); ASSUME((size_t)rd<I.value>(shape) < (1ul<<30)); ASSUME((size_t)rd<I.value>(w) >= 1); ASSUME((size_t)rd<I.value>(w) <= (size_t)rd<I.value>(shape)); });
    auto s = ix::shape_sliding_window(shape, w);
    OBLIGE("C04.window.shape.dim", (size_t)nm::len(s) == 2*R, kid<K>, R, 0);
    for_<R>([&](auto I){
        OBLIGE("C04.window.shape.windowed_axis_shrinks", (size_t)nm::at(s,I.value) == (size_t)rd<I.value>(shape) - ((size_t)rd<I.value>(w)-1), kid<K>, R, 0, I.value);
        OBLIGE("C04.window.shape.window_extent_appended", (size_t)nm::at(s,R+I.value) == (size_t)rd<I.value>(w), kid<K>, R, 0, I.value);
    });
    for_<2*R>([&](auto I){ ASSUME((size_t)rd<I.value>(idx) < (1ul<<30)); });
    auto r = ix::sliding_window(idx, s, shape, w);
    OBLIGE("C04.window.index.dim", (size_t)nm::len(r) == R, kid<K>, R, 0);
    for_<R>([&](auto I){ OBLIGE("C04.window.index.position_plus_offset", (size_t)nm::at(r,I.value) == (size_t)rd<I.value>(idx) + (size_t)rd<R+I.value>(idx), kid<K>, R, 0, I.value); });
}
void ob_c04_window_negctl(const std::array<size_t,2>& shape_, size_t w, const std::array<size_t,3>& idx_)
{
    const auto shape = shape_; const auto idx = idx_;
    ASSUME(w >= 1); ASSUME(w <= shape[1]);
    auto s = ix::shape_sliding_window(shape, w, 1);
    auto r = ix::sliding_window(idx, s, shape, w, 1);
    NEGCTL("C04.NEG.window_ignores_offset", (size_t)nm::at(r,1) == idx[1], 0);
}
#define WA(K,R,A) template void ob_c04_window_axis<K,R,A>(const mk_t<K,size_t,R>&, size_t, const mk_t<K,size_t,R+1>&, int);
#define WAK(R,A) WA(k_std,R,A) WA(k_utl,R,A)
WA(k_sv,2,0) WA(k_sv,2,-1) WA(k_sv,3,1)   // bounded run-time-length shapes
WAK(1,0) WAK(1,-1) WAK(2,0) WAK(2,1) WAK(2,-1) WAK(2,-2) WAK(3,0) WAK(3,1) WAK(3,2) WAK(3,-1) WAK(3,-3)
#define WN(K,R) template void ob_c04_window_all<K,R>(const mk_t<K,size_t,R>&, const mk_t<K,size_t,R>&, const mk_t<K,size_t,2*R>&);
WN(k_sv,2) WN(k_std,1) WN(k_std,2) WN(k_std,3) WN(k_utl,1) WN(k_utl,2) WN(k_utl,3)
#ifdef VERIF_THOROUGH
WAK(4,0) WAK(4,1) WAK(4,2) WAK(4,3) WAK(4,-1) WAK(4,-2) WAK(4,-4) WAK(3,-2) WN(k_std,4) WN(k_utl,4)
#endif
