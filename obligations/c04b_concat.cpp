// C04 (+C15): concatenate at index level - result shape, value/failure boundary, and which operand / which source index
// each destination index reads; axis given at run time, negative allowed; ranks 1..3; every extent and index.
#include "common.hpp"
#include "nmtools/array/index/concatenate.hpp"
using namespace ob;

template <class K, size_t R, int AXIS>
void ob_c04_concat_shape(const mk_t<K,size_t,R>& a, const mk_t<K,size_t,R>& b, int axis)
{
    assume_len<R>(a); assume_len<R>(b);
    ASSUME(axis == AXIS);
    constexpr size_t ax = (size_t)(AXIS < 0 ? AXIS + (int)R : AXIS);
    // first other axis whose extents differ -> failure ; none -> success with the summed extent on `ax`
    bool all_equal = true;
    for_<R>([&](auto I){ if constexpr (I.value != ax) { if ((size_t)rd<I.value>(a) != (size_t)rd<I.value>(b)) all_equal = false; } });
    if constexpr (R == 1) {
        auto r = ix::shape_concatenate(a, b, axis);
        OBLIGE("C04.concat.shape.success|C15.concat.value_when_other_extents_equal", (bool)nm::get<0>(r), kid<K>, R, AXIS+10);
        OBLIGE("C04.concat.shape.axis_is_sum", (size_t)nm::at(nm::get<1>(r), 0) == (size_t)rd<0>(a) + (size_t)rd<0>(b), kid<K>, R, AXIS+10);
    } else {
        for_<R>([&](auto I){
            if constexpr (I.value != ax) {
                if ((size_t)rd<I.value>(a) != (size_t)rd<I.value>(b)) {
                    auto r = ix::shape_concatenate(a, b, axis);
                    OBLIGE("C04.concat.shape.failure_when_other_extent_differs|C15.concat.nothing_when_other_extent_differs", !(bool)nm::get<0>(r), kid<K>, R, AXIS+10, I.value);
                }
            }
        });
    }
}
template <class K, size_t R, int AXIS>
void ob_c04_concat_shape_ok(const mk_t<K,size_t,R>& a, const mk_t<K,size_t,R>& b, int axis)
{
    assume_len<R>(a); assume_len<R>(b);
    ASSUME(axis == AXIS);
    constexpr size_t ax = (size_t)(AXIS < 0 ? AXIS + (int)R : AXIS);
    for_<R>([&](auto I){ if constexpr (I.value != ax) ASSUME((size_t)rd<I.value>(a) == (size_t)rd<I.value>(b)); });
    auto r = ix::shape_concatenate(a, b, axis);
    OBLIGE("C04.concat.shape.success|C15.concat.value_when_other_extents_equal", (bool)nm::get<0>(r), kid<K>, R, AXIS+10);
    auto s = nm::get<1>(r);
    OBLIGE("C04.concat.shape.dim", (size_t)nm::len(s) == R, kid<K>, R, AXIS+10);
    for_<R>([&](auto I){
        if constexpr (I.value == ax) OBLIGE("C04.concat.shape.axis_is_sum", (size_t)nm::at(s, I.value) == (size_t)rd<I.value>(a) + (size_t)rd<I.value>(b), kid<K>, R, AXIS+10, I.value);
        else OBLIGE("C04.concat.shape.other_extents_kept", (size_t)nm::at(s, I.value) == (size_t)rd<I.value>(a), kid<K>, R, AXIS+10, I.value);
    });
}
// which operand and which source index a destination index reads
template <class K, size_t R, int AXIS>
void ob_c04_concat_index(const mk_t<K,size_t,R>& a, const mk_t<K,size_t,R>& b, const std::array<size_t,R>& dst_, int axis)
{
    const auto dst = dst_;
    assume_len<R>(a); assume_len<R>(b);
    ASSUME(axis == AXIS);
    constexpr size_t ax = (size_t)(AXIS < 0 ? AXIS + (int)R : AXIS);
    for_<R>([&](auto I){ ASSUME((size_t)rd<I.value>(a) >= 1 && (size_t)rd<I.value>(a) < 0x40000000ul); ASSUME((size_t)rd<I.value>(b) >= 1 && (size_t)rd<I.value>(b) < 0x40000000ul); });
    ASSUME(dst[ax] < (size_t)rd<ax>(a) + (size_t)rd<ax>(b));
    if (dst[ax] < (size_t)rd<ax>(a)) {
        auto r = ix::concatenate(a, b, dst, axis);
        OBLIGE("C04.concat.index.reads_first_operand", (bool)nm::get<0>(r) && !(bool)nm::get<1>(r), kid<K>, R, AXIS+10);
        auto ai = nm::get<2>(r);
        for_<R>([&](auto I){ OBLIGE("C04.concat.index.first_operand_same_index", (size_t)nm::at(ai, I.value) == dst[I.value], kid<K>, R, AXIS+10, I.value); });
    } else {
        auto r = ix::concatenate(a, b, dst, axis);
        OBLIGE("C04.concat.index.reads_second_operand", !(bool)nm::get<0>(r) && (bool)nm::get<1>(r), kid<K>, R, AXIS+10);
        auto bi = nm::get<3>(r);
        for_<R>([&](auto I){
            if constexpr (I.value == ax) OBLIGE("C04.concat.index.second_operand_offset_on_axis", (size_t)nm::at(bi, I.value) == dst[I.value] - (size_t)rd<ax>(a), kid<K>, R, AXIS+10, I.value);
            else OBLIGE("C04.concat.index.second_operand_same_index", (size_t)nm::at(bi, I.value) == dst[I.value], kid<K>, R, AXIS+10, I.value);
        });
    }
}
void ob_c04b_negctl(const std::array<size_t,2>& a, const std::array<size_t,2>& b)
{
    auto r = ix::shape_concatenate(a, b, 0);
    NEGCTL("C04.NEG.concat_always_succeeds|C15.NEG.concat_always_succeeds", (bool)nm::get<0>(r), 0);
}
#define CC(K,R,A) template void ob_c04_concat_shape<K,R,A>(const mk_t<K,size_t,R>&, const mk_t<K,size_t,R>&, int); \
                  template void ob_c04_concat_shape_ok<K,R,A>(const mk_t<K,size_t,R>&, const mk_t<K,size_t,R>&, int); \
                  template void ob_c04_concat_index<K,R,A>(const mk_t<K,size_t,R>&, const mk_t<K,size_t,R>&, const std::array<size_t,R>&, int);
CC(k_std,1,0) CC(k_std,2,0) CC(k_std,2,1) CC(k_std,2,-1) CC(k_std,3,0) CC(k_std,3,1) CC(k_std,3,2) CC(k_std,3,-1) CC(k_std,3,-3) CC(k_utl,2,1) CC(k_sv,2,0) CC(k_sv,3,-2)
