// C14 / C13 (small shapes, symbolic integer elements; constant-shape and run-time-shape kinds): for a view v, the extracted function
// composition applied to the extracted operands reproduces v - same shape, same element at every index (and that element is the
// operation's definition). Views of depth 1..3 whose nested view is the FIRST operand (a nested view in another operand position is the
// known finding F16 and is not stated here).
#include "cview.hpp"
#define HV_ID "C14.extract.has_value"
#include "nmtools/array/functional.hpp"
#include "nmtools/array/view/transpose.hpp"
#include "nmtools/array/view/broadcast_to.hpp"
#include "nmtools/array/view/sum.hpp"
#include "nmtools/array/view/ufuncs/subtract.hpp"
#include "nmtools/array/view/ufuncs/negative.hpp"
#include "nmtools/array/view/ufuncs/add.hpp"
namespace fn = nmtools::functional;
constexpr size_t Z = 0;
#define REAPPLY(r, v) auto r##_f = fn::get_function_composition(v); auto r##_ops = fn::get_function_operands(v); VIEW(r, fn::apply(r##_f, r##_ops))

void ob_c14b_depth1(const ARR<2,3>& a, const ARR<3>& b)
{ PIN(a, 2,3); PIN(b, 3);
    { VIEW(v, view::negative(a)); REAPPLY(r, v); EXPECT_VIEW2("C14.extract.shape|C13.reapply.shape", "C14.extract.unary_ufunc|C13.reapply.unary_ufunc", r, 2,3, -a(i,j), 0); }
    { VIEW(v, view::subtract(a, b)); REAPPLY(r, v); EXPECT_VIEW2("C14.extract.shape|C13.reapply.shape", "C14.extract.binary_ufunc_operand_order|C13.reapply.binary_ufunc", r, 2,3, a(i,j) - b(j), 1); }
    { VIEW(v, view::transpose(a)); REAPPLY(r, v); EXPECT_VIEW2("C14.extract.shape|C13.reapply.shape", "C14.extract.indexing_view|C13.reapply.indexing_view", r, 3,2, a(j,i), 2); }
    { VIEW(v, view::sum(a, 0)); REAPPLY(r, v); EXPECT_VIEW1("C14.extract.shape|C13.reapply.shape", "C14.extract.reduction|C13.reapply.reduction", r, 3, a(Z,i) + a((size_t)1,i), 3); }
}
void ob_c14b_depth2(const ARR<2,3>& a, const ARR<3>& b, const ARR<2>& c)
{ PIN(a, 2,3); PIN(b, 3); PIN(c, 2);
    { VIEW(v, view::subtract(view::transpose(a), c)); REAPPLY(r, v); EXPECT_VIEW2("C14.extract.shape|C13.reapply.shape", "C14.extract.ufunc_over_indexing|C13.reapply.ufunc_over_indexing", r, 3,2, a(j,i) - c(j), 0); }
    { VIEW(v, view::sum(view::subtract(a, b), 0)); REAPPLY(r, v); EXPECT_VIEW1("C14.extract.shape|C13.reapply.shape", "C14.extract.reduction_over_ufunc|C13.reapply.reduction_over_ufunc", r, 3, (a(Z,i) - b(i)) + (a((size_t)1,i) - b(i)), 1); }
    { VIEW(v, view::transpose(view::negative(a))); REAPPLY(r, v); EXPECT_VIEW2("C14.extract.shape|C13.reapply.shape", "C14.extract.indexing_over_ufunc|C13.reapply.indexing_over_ufunc", r, 3,2, -a(j,i), 2); }
    { VIEW(v, view::sum(view::broadcast_to(b, cshape<2,3>{}), 0)); REAPPLY(r, v); EXPECT_VIEW1("C14.extract.shape|C13.reapply.shape", "C14.extract.reduction_over_explicit_broadcast|C13.reapply.reduction_over_explicit_broadcast", r, 3, b(i) + b(i), 3); }
}
void ob_c14b_depth3(const ARR<2,3>& a, const ARR<3>& b)
{ PIN(a, 2,3); PIN(b, 3);
    { VIEW(v, view::negative(view::sum(view::subtract(a, b), 0))); REAPPLY(r, v); EXPECT_VIEW1("C14.extract.shape|C13.reapply.shape", "C14.extract.depth3|C13.reapply.depth3", r, 3, -((a(Z,i) - b(i)) + (a((size_t)1,i) - b(i))), 0); }
}
// depth 3 THROUGH a binary ufunc: its first operand is a view built on another view (every level of that operand must be composed)
void ob_c14b_depth3_binary(const ARR<2,3>& a, const ARR<2>& c, const ARR<3>& b)
{ PIN(a, 2,3); PIN(c, 2); PIN(b, 3);
    { VIEW(v, view::subtract(view::transpose(view::negative(a)), c)); REAPPLY(r, v); EXPECT_VIEW2("C14.extract.shape|C13.reapply.shape", "C14.extract.binary_ufunc_over_indexing_over_ufunc|C13.reapply.depth3_binary", r, 3,2, -a(j,i) - c(j), 30); }
    { VIEW(v, view::add(view::negative(view::negative(a)), b)); REAPPLY(r, v); EXPECT_VIEW2("C14.extract.shape|C13.reapply.shape", "C14.extract.binary_ufunc_over_ufunc_over_ufunc|C13.reapply.depth3_binary", r, 2,3, a(i,j) + b(j), 31); }
}
void ob_c14b_negctl(const ARR<2,3>& a, const ARR<3>& b)
{ PIN(a, 2,3); PIN(b, 3);
    auto v = nm::unwrap(view::subtract(a, b)); auto f = fn::get_function_composition(v); auto ops = fn::get_function_operands(v);
    auto r = nm::unwrap(fn::apply(f, ops));
    NEGCTL("C14.NEG.operands_swapped", (long)r(1,2) == b(2) - a(1,2), 0);
}
