// C04 (view level, constant shapes, symbolic element values), part 1: replicating / selecting / joining views have NumPy's shape and,
// at every index, a copy of the source element NumPy's definition designates.
#include "cview.hpp"
#define HV_ID "C04.view.has_value"
#include "nmtools/array/view/tile.hpp"
#include "nmtools/array/view/repeat.hpp"
#include "nmtools/array/view/roll.hpp"
#include "nmtools/array/view/take.hpp"
#include "nmtools/array/view/compress.hpp"
#include "nmtools/array/view/concatenate.hpp"
#include "nmtools/array/view/stack.hpp"
#include "nmtools/array/view/hstack.hpp"
#include "nmtools/array/view/vstack.hpp"
#include "nmtools/array/view/dstack.hpp"
#include "nmtools/array/view/column_stack.hpp"
constexpr size_t Z = 0;
// ---- tile
void ob_c04i_tile(const ARR<2,3>& a)
{ PIN(a, 2,3);
    { VIEW(v, view::tile(a, std::array<int,2>{2,2})); EXPECT_VIEW2("C04.view.tile.shape", "C04.view.tile.element", v, 4,6, a(i%2, j%3), 0); }
    { VIEW(v, view::tile(a, std::array<int,1>{2})); EXPECT_VIEW2("C04.view.tile.shape", "C04.view.tile.short_reps_apply_to_trailing_axes", v, 2,6, a(i, j%3), 1); }
    { VIEW(v, view::tile(a, std::array<int,3>{2,1,2})); EXPECT_VIEW3("C04.view.tile.shape", "C04.view.tile.long_reps_prepend_axes", v, 2,2,6, a(j, k%3), 2); }
}
// ---- repeat
void ob_c04i_repeat(const ARR<2,3>& a)
{ PIN(a, 2,3);
    { VIEW(v, view::repeat(a, 2, 1)); EXPECT_VIEW2("C04.view.repeat.shape", "C04.view.repeat.along_axis", v, 2,6, a(i, j/2), 0); }
    { VIEW(v, view::repeat(a, 2, -2)); EXPECT_VIEW2("C04.view.repeat.shape", "C04.view.repeat.along_axis", v, 4,3, a(i/2, j), 1); }
    { VIEW(v, view::repeat(a, 2, nm::None)); EXPECT_VIEW1("C04.view.repeat.shape", "C04.view.repeat.no_axis_repeats_the_flattened_array", v, 12, a((i/2)/3, (i/2)%3), 2); }
    { VIEW(v, view::repeat(a, std::array<int,2>{1,2}, 0)); EXPECT_VIEW2("C04.view.repeat.shape", "C04.view.repeat.per_element_repeats", v, 3,3, a(i == 0 ? Z : (size_t)1, j), 3); }
    { VIEW(v, view::repeat(a, std::array<int,3>{2,0,1}, 1)); EXPECT_VIEW2("C04.view.repeat.shape", "C04.view.repeat.per_element_repeats", v, 2,3, a(i, j < 2 ? Z : (size_t)2), 4); }
}
// ---- roll
void ob_c04i_roll(const ARR<2,3>& a)
{ PIN(a, 2,3);
    { VIEW(v, view::roll(a, 1, 1)); EXPECT_VIEW2("C04.view.roll.shape", "C04.view.roll.along_axis", v, 2,3, a(i, (j+2)%3), 0); }
    { VIEW(v, view::roll(a, 4, 1)); EXPECT_VIEW2("C04.view.roll.shape", "C04.view.roll.shift_beyond_extent", v, 2,3, a(i, (j+2)%3), 1); }
    { VIEW(v, view::roll(a, -5, 0)); EXPECT_VIEW2("C04.view.roll.shape", "C04.view.roll.negative_shift", v, 2,3, a((i+1)%2, j), 2); }
    { VIEW(v, view::roll(a, -1, -1)); EXPECT_VIEW2("C04.view.roll.shape", "C04.view.roll.negative_axis", v, 2,3, a(i, (j+1)%3), 3); }
    { VIEW(v, view::roll(a, 2)); EXPECT_VIEW2("C04.view.roll.shape", "C04.view.roll.no_axis_rolls_the_flattened_array", v, 2,3, a(((i*3+j)+4)%6/3, ((i*3+j)+4)%6%3), 4); }
    { VIEW(v, view::roll(a, std::array<int,2>{1,1}, std::array<int,2>{0,1})); EXPECT_VIEW2("C04.view.roll.shape", "C04.view.roll.several_axes", v, 2,3, a((i+1)%2, (j+2)%3), 5); }
    { VIEW(v, view::roll(a, 1, std::array<int,2>{0,1})); EXPECT_VIEW2("C04.view.roll.shape", "C04.view.roll.scalar_shift_applies_to_every_listed_axis", v, 2,3, a((i+1)%2, (j+2)%3), 6); }
    { VIEW(v, view::roll(a, -1, std::array<int,2>{-1,0})); EXPECT_VIEW2("C04.view.roll.shape", "C04.view.roll.scalar_shift_applies_to_every_listed_axis", v, 2,3, a((i+1)%2, (j+1)%3), 7); }
}
// (bounded lists of length 2 are decided at index level - c04_select ob_c04_roll_list - the view-level form exceeds what LLVM folds)
void ob_c04i_roll_bounded1(const ARR<2,3>& a)
{ PIN(a, 2,3);
    { nmtools_static_vector<int,2> ax; ax.resize(1); ax[0] = -1;
      VIEW(v, view::roll(a, 2, ax)); EXPECT_VIEW2("C04.view.roll.shape", "C04.view.roll.scalar_shift_applies_to_every_listed_axis.bounded_axis_list", v, 2,3, a(i, (j+1)%3), 9); }
}
// ---- take
void ob_c04i_take(const ARR<3,2>& a)
{ PIN(a, 3,2);
    { VIEW(v, view::take(a, std::array<int,4>{2,0,-1,2}, 0)); EXPECT_VIEW2("C04.view.take.shape", "C04.view.take.negative_and_repeated_entries", v, 4,2, a(i == 1 ? Z : (size_t)2, j), 0); }
    { VIEW(v, view::take(a, std::array<int,3>{1,0,1}, -1)); EXPECT_VIEW2("C04.view.take.shape", "C04.view.take.negative_axis", v, 3,3, a(i, j == 1 ? Z : (size_t)1), 1); }
#ifdef VERIF_RT_KIND   /* take with axis None does not build for a constant-shape operand */
    { VIEW(v, view::take(a, std::array<int,4>{5,0,3,1}, nm::None)); EXPECT_VIEW1("C04.view.take.shape", "C04.view.take.no_axis_takes_from_the_flattened_array", v, 4, a((i == 0 ? (size_t)5 : i == 1 ? Z : i == 2 ? (size_t)3 : (size_t)1) / 2, (i == 0 ? (size_t)5 : i == 1 ? Z : i == 2 ? (size_t)3 : (size_t)1) % 2), 2); }
    { VIEW(v, view::take(a, std::array<int,3>{-1,2,-4}, nm::None)); EXPECT_VIEW1("C04.view.take.shape", "C04.view.take.no_axis_negative_entries_count_from_the_end_of_the_flattened_array", v, 3, a((i == 0 ? (size_t)5 : i == 1 ? (size_t)2 : (size_t)2) / 2, (i == 0 ? (size_t)5 : i == 1 ? (size_t)2 : (size_t)2) % 2), 3); }
#endif
}
// ---- compress (the condition decides the SHAPE, so it is a constant)
void ob_c04i_compress(const ARR<3,2>& a)
{ PIN(a, 3,2);
    { VIEW(v, view::compress(std::array<bool,3>{true,false,true}, a, 0)); EXPECT_VIEW2("C04.view.compress.shape", "C04.view.compress.element", v, 2,2, a(i == 0 ? Z : (size_t)2, j), 0); }
    { VIEW(v, view::compress(std::array<bool,2>{false,true}, a, 1)); EXPECT_VIEW2("C04.view.compress.shape", "C04.view.compress.element", v, 3,1, a(i, (size_t)1), 1); }
    { VIEW(v, view::compress(std::array<bool,2>{true,true}, a, -2)); EXPECT_VIEW2("C04.view.compress.shape", "C04.view.compress.short_condition_covers_a_prefix", v, 2,2, a(i, j), 2); }
}
// ---- concatenate
void ob_c04i_concatenate(const ARR<2,3>& a, const ARR<1,3>& b, const ARR<2,1>& c)
{ PIN(a, 2,3); PIN(b, 1,3); PIN(c, 2,1);
    { VIEW(v, view::concatenate(a, b, 0)); EXPECT_VIEW2("C04.view.concatenate.shape", "C04.view.concatenate.element", v, 3,3, (i < 2 ? a(i < 2 ? i : Z, j) : b(Z, j)), 0); }
    { VIEW(v, view::concatenate(a, c, -1)); EXPECT_VIEW2("C04.view.concatenate.shape", "C04.view.concatenate.negative_axis", v, 2,4, (j < 3 ? a(i, j < 3 ? j : Z) : c(i, Z)), 1); }
    { VIEW(v, view::concatenate(b, a, 0)); EXPECT_VIEW2("C04.view.concatenate.shape", "C04.view.concatenate.operand_order", v, 3,3, (i < 1 ? b(Z, j) : a(i < 1 ? Z : i-1, j)), 2); }
    { VIEW(v, view::concatenate(a, c, nm::None)); EXPECT_VIEW1("C04.view.concatenate.shape", "C04.view.concatenate.no_axis_joins_the_flattened_operands", v, 8, (i < 6 ? a((i < 6 ? i : Z)/3, (i < 6 ? i : Z)%3) : c(i < 6 ? Z : i-6, Z)), 3); }
}
// ---- stack family
void ob_c04i_stack(const ARR<2,3>& a, const ARR<2,3>& b)
{ PIN(a, 2,3); PIN(b, 2,3);
    { VIEW(v, view::stack(a, b)); EXPECT_VIEW3("C04.view.stack.shape", "C04.view.stack.new_leading_axis", v, 2,2,3, (i == 0 ? a(j,k) : b(j,k)), 0); }
    { VIEW(v, view::stack(a, b, 1)); EXPECT_VIEW3("C04.view.stack.shape", "C04.view.stack.new_middle_axis", v, 2,2,3, (j == 0 ? a(i,k) : b(i,k)), 1); }
    { VIEW(v, view::stack(a, b, -1)); EXPECT_VIEW3("C04.view.stack.shape", "C04.view.stack.new_trailing_axis", v, 2,3,2, (k == 0 ? a(i,j) : b(i,j)), 2); }
    { VIEW(v, view::dstack(a, b)); EXPECT_VIEW3("C04.view.dstack.shape", "C04.view.dstack.element", v, 2,3,2, (k == 0 ? a(i,j) : b(i,j)), 3); }
}
void ob_c04i_hvstack(const ARR<2,3>& a, const ARR<1,3>& b, const ARR<2,1>& c, const ARR<3>& p, const ARR<2>& q, const ARR<3>& r)
{ PIN(a, 2,3); PIN(b, 1,3); PIN(c, 2,1); PIN(p, 3); PIN(q, 2); PIN(r, 3);
    { VIEW(v, view::hstack(a, c)); EXPECT_VIEW2("C04.view.hstack.shape", "C04.view.hstack.joins_columns", v, 2,4, (j < 3 ? a(i, j < 3 ? j : Z) : c(i, Z)), 0); }
    { VIEW(v, view::hstack(p, q)); EXPECT_VIEW1("C04.view.hstack.shape", "C04.view.hstack.vectors_are_joined_end_to_end", v, 5, (i < 3 ? p(i < 3 ? i : Z) : q(i < 3 ? Z : i-3)), 1); }
    { VIEW(v, view::vstack(a, b)); EXPECT_VIEW2("C04.view.vstack.shape", "C04.view.vstack.joins_rows", v, 3,3, (i < 2 ? a(i < 2 ? i : Z, j) : b(Z, j)), 2); }
    { VIEW(v, view::vstack(p, r)); EXPECT_VIEW2("C04.view.vstack.shape", "C04.view.vstack.vectors_become_rows", v, 2,3, (i == 0 ? p(j) : r(j)), 3); }
    { VIEW(v, view::dstack(p, r)); EXPECT_VIEW3("C04.view.dstack.shape", "C04.view.dstack.vectors", v, 1,3,2, (k == 0 ? p(j) : r(j)), 4); }
    { VIEW(v, view::column_stack(p, r)); EXPECT_VIEW2("C04.view.column_stack.shape", "C04.view.column_stack.vectors_become_columns", v, 3,2, (j == 0 ? p(i) : r(i)), 5); }
}
void ob_c04i_column_stack2(const ARR<3,2>& a, const ARR<3>& p)
{ PIN(a, 3,2); PIN(p, 3); VIEW(v, view::column_stack(a, p)); EXPECT_VIEW2("C04.view.column_stack.shape", "C04.view.column_stack.matrix_and_vector", v, 3,3, (j < 2 ? a(i, j < 2 ? j : Z) : p(i)), 6); }
void ob_c04i_negctl(const ARR<2,3>& a)
{ PIN(a, 2,3);
    VIEW(v, view::roll(a, 1, 1));
    NEGCTL("C04.NEG.roll_direction", (long)v(0,0) == a(0,1), 0);
}
