// C08 (partial): WHICH source elements enter the fold of result index r, and the result shape.
//   reduction_slices(r, shape, axis, keepdims)[j] == [0, shape[j])      on the reduced axis j
//                                                 == [r_k, r_k + 1)     on every other axis (r_k the matching result coordinate)
//   remove_dims(shape, axis, keepdims)            == NumPy's result shape
// Single axis (compile-time and run-time, negative allowed), keepdims True/False, ranks 2..3, every extent and index.
#include "common.hpp"
#include "nmtools/array/index/where.hpp"
#include "nmtools/array/index/normalize_axis.hpp"
#include "nmtools/array/index/reduce.hpp"
#include "nmtools/array/index/remove_dims.hpp"
using namespace ob;
template <bool K> using keep_t = std::conditional_t<K, std::decay_t<decltype(nm::True)>, std::decay_t<decltype(nm::False)>>;   // the library's own True / False constants

template <size_t R, int AXIS, bool KEEP, bool RUNTIME_AXIS>
void ob_c08_slices(const std::array<size_t,(KEEP?R:R-1)>& ridx_, const std::array<size_t,R>& shape_, int axis_rt)
{
    const auto ridx = ridx_; const auto shape = shape_;
    constexpr size_t ax = (size_t)(AXIS < 0 ? AXIS + (int)R : AXIS);
    ASSUME(axis_rt == AXIS);
    auto slices = [&](){
        if constexpr (RUNTIME_AXIS) return ix::reduction_slices(ridx, shape, axis_rt, keep_t<KEEP>{});
        else return ix::reduction_slices(ridx, shape, meta::ct_v<AXIS>, keep_t<KEEP>{});
    }();
    OBLIGE("C08.slices.dim", (size_t)nm::len(slices) == R, R, AXIS+10, KEEP, RUNTIME_AXIS);
    for_<R>([&](auto J){
        auto sl = nm::at(slices, J.value);
        size_t start = (size_t)nm::get<0>(sl), stop = (size_t)nm::get<1>(sl);
        if constexpr (J.value == ax) {
            OBLIGE("C08.slices.reduced_axis_takes_all.start", start == 0, R, AXIS+10, KEEP*2+RUNTIME_AXIS, J.value);
            OBLIGE("C08.slices.reduced_axis_takes_all.stop", stop == shape[J.value], R, AXIS+10, KEEP*2+RUNTIME_AXIS, J.value);
        } else {
            constexpr size_t k = KEEP ? J.value : (J.value < ax ? J.value : J.value - 1);   // position of this axis in the result index
            OBLIGE("C08.slices.other_axis_pinned.start", start == ridx[k], R, AXIS+10, KEEP*2+RUNTIME_AXIS, J.value);
            OBLIGE("C08.slices.other_axis_pinned.stop", stop == ridx[k] + 1, R, AXIS+10, KEEP*2+RUNTIME_AXIS, J.value);
        }
    });
}
template <size_t R, int AXIS, bool KEEP, bool RUNTIME_AXIS>
void ob_c08_shape(const std::array<size_t,R>& shape_, int axis_rt)
{
    const auto shape = shape_;
    constexpr size_t ax = (size_t)(AXIS < 0 ? AXIS + (int)R : AXIS);
    constexpr size_t RR = KEEP ? R : R-1;
    ASSUME(axis_rt == AXIS);
    auto res = [&](){
        if constexpr (RUNTIME_AXIS) return ix::remove_dims(shape, axis_rt, keep_t<KEEP>{});
        else return ix::remove_dims(shape, meta::ct_v<AXIS>, keep_t<KEEP>{});
    }();
    OBLIGE("C08.result_shape.dim", (size_t)nm::len(res) == RR, R, AXIS+10, KEEP*2+RUNTIME_AXIS);
    for_<RR>([&](auto I){
        if constexpr (KEEP) {
            if constexpr (I.value == ax) OBLIGE("C08.result_shape.kept_axis_is_1", (size_t)nm::at(res, I.value) == 1, R, AXIS+10, KEEP*2+RUNTIME_AXIS, I.value);
            else OBLIGE("C08.result_shape.other_extents", (size_t)nm::at(res, I.value) == shape[I.value], R, AXIS+10, KEEP*2+RUNTIME_AXIS, I.value);
        } else {
            OBLIGE("C08.result_shape.other_extents", (size_t)nm::at(res, I.value) == shape[(I.value < ax ? I.value : I.value + 1)], R, AXIS+10, KEEP*2+RUNTIME_AXIS, I.value);
        }
    });
}
void ob_c08_negctl(const std::array<size_t,2>& ridx_, const std::array<size_t,3>& shape_)
{
    const auto ridx = ridx_; const auto shape = shape_;
    auto slices = ix::reduction_slices(ridx, shape, meta::ct_v<1>, nm::False);
    NEGCTL("C08.NEG.reduced_axis_is_pinned", (size_t)nm::get<1>(nm::at(slices,1)) == (size_t)nm::get<0>(nm::at(slices,1)) + 1, 0);
}
#define SL(R,A,K,RT) template void ob_c08_slices<R,A,K,RT>(const std::array<size_t,(K?R:R-1)>&, const std::array<size_t,R>&, int); \
                     template void ob_c08_shape<R,A,K,RT>(const std::array<size_t,R>&, int);
SL(2,0,false,false) SL(2,1,false,false) SL(2,-1,false,false) SL(2,0,true,false) SL(2,1,true,false)
SL(3,0,false,false) SL(3,1,false,false) SL(3,2,false,false) SL(3,-2,false,false) SL(3,1,true,false) SL(3,-1,true,false)
SL(2,0,false,true) SL(2,-1,false,true) SL(3,1,false,true) SL(3,-3,false,true) SL(3,2,true,true)
