// C03 (flip): index::flip_slices(dim, axes) gives one slice (None, None, step) per axis with step -1 exactly on the requested axes
// (a negative entry counts from the end of the ARRAY's axes) and +1 elsewhere - for a scalar axis, a list of axes, and None (all axes).
#include "common.hpp"
#include "nmtools/array/index/flip.hpp"
using namespace ob;

// decision chain over the entries: the first entry that names axis I decides "reversed"; if none does, the axis keeps its direction
// (the function under test is called inside each leaf, so that it is evaluated under the facts of that case)
template <size_t R, size_t M, size_t I, size_t J>
__attribute__((always_inline)) inline void flip_chain(const std::array<int,M>& axes)
{
    if constexpr (J == M) {
        auto s = ix::flip_slices(meta::ct_v<R>, axes);
        OBLIGE("C03.flip.other_axes_keep_direction", (int)nm::get<2>(nm::at(s, I)) == 1, R, M, I);
    } else {
        const int a = axes[J]; const int n = a < 0 ? a + (int)R : a;
        if (n == (int)I) {
            auto s = ix::flip_slices(meta::ct_v<R>, axes);
            OBLIGE("C03.flip.requested_axis_is_reversed", (int)nm::get<2>(nm::at(s, I)) == -1, R, M, I, J);
        } else flip_chain<R,M,I,J+1>(axes);
    }
}
template <size_t R, size_t M>
void ob_c03_flip_list(const std::array<int,M>& axes_)
{
    const auto axes = axes_;
    for_<M>([&](auto J){ ASSUME(axes[J.value] >= -(int)R); ASSUME(axes[J.value] < (int)R); });
    auto s = ix::flip_slices(meta::ct_v<R>, axes);
    OBLIGE("C03.flip.one_slice_per_axis", (size_t)nm::len(s) == R, R, M);
    for_<R>([&](auto I){ flip_chain<R,M,I.value,0>(axes); });
}
template <size_t R>
void ob_c03_flip_scalar(int axis)
{
    ASSUME(axis >= -(int)R); ASSUME(axis < (int)R);
    auto s = ix::flip_slices(meta::ct_v<R>, axis);
    OBLIGE("C03.flip.one_slice_per_axis", (size_t)nm::len(s) == R, R, 0);
    const int n = axis < 0 ? axis + (int)R : axis;
    for_<R>([&](auto I){
        const int step = (int)nm::get<2>(nm::at(s, I.value));
        if (n == (int)I.value) OBLIGE("C03.flip.requested_axis_is_reversed", step == -1, R, 0, I.value);
        else OBLIGE("C03.flip.other_axes_keep_direction", step == 1, R, 0, I.value);
    });
}
template <size_t R>
void ob_c03_flip_none()
{
    auto s = ix::flip_slices(meta::ct_v<R>, nm::None);
    for_<R>([&](auto I){ OBLIGE("C03.flip.none_reverses_every_axis", (int)nm::get<2>(nm::at(s, I.value)) == -1, R, 9, I.value); });
}
void ob_c03_flip_negctl(int axis)
{
    ASSUME(axis >= 0); ASSUME(axis < 3);
    auto s = ix::flip_slices(meta::ct_v<3ul>, axis);
    NEGCTL("C03.NEG.flip_reverses_axis0", (int)nm::get<2>(nm::at(s, 0)) == -1, 0);
}
#define FL(R,M) template void ob_c03_flip_list<R,M>(const std::array<int,M>&);
FL(2,1) FL(2,2) FL(3,1) FL(3,2) FL(3,3) FL(4,2) FL(4,3)
#define FS(R) template void ob_c03_flip_scalar<R>(int); template void ob_c03_flip_none<R>();
FS(1) FS(2) FS(3) FS(4)
