// the obligations of c14b_extract.cpp on arrays whose shape is a run-time value
#define VERIF_RT_KIND 1
#include "c14b_extract.cpp"
