// C20 (small shapes, symbolic element values): casting to another element type or another array kind preserves shape and (converted) values.
// The non-heap kinds with a fixed dimension are stated (constant / fixed / clipped shape over fixed / bounded buffers); heap-backed kinds and
// bounded-dimension shapes (hs_*) do not fold (engine limit; replayed concretely: they cast correctly) and are not instantiated.
#include "cview.hpp"
#define HV_ID "C20.cast.has_value"
#include "nmtools/utility/cast.hpp"
#include "nmtools/array/ndarray.hpp"
namespace kind = nmtools::array::kind;

#define SAME2(SID, EID, c, a, E0, E1, CONV, TAG) do { \
    OBLIGE(SID, (cv::shape_is<E0,E1>(c)), TAG); \
    for_<E0>([&](auto I){ for_<E1>([&](auto J){ constexpr size_t i = I.value, j = J.value; OBLIGE(EID, c(i, j) == (CONV)a(i, j), TAG, i, j); }); }); } while (0)

void ob_c20c_cast_element_type(const ARR<2,3>& a)
{ PIN(a, 2,3);
    { auto c = nm::cast<int>(a);    SAME2("C20.cast.element_type.shape_kept", "C20.cast.element_type.value_converted", c, a, 2,3, int, 0); }
    { auto c = nm::cast<short>(a);  SAME2("C20.cast.element_type.shape_kept", "C20.cast.element_type.value_converted", c, a, 2,3, short, 1); }
    { auto c = nm::cast<unsigned char>(a); SAME2("C20.cast.element_type.shape_kept", "C20.cast.element_type.value_converted", c, a, 2,3, unsigned char, 2); }
    { auto c = nm::cast<long>(a);   SAME2("C20.cast.element_type.shape_kept", "C20.cast.element_type.value_converted", c, a, 2,3, long, 3); }
}
// (a source whose shape is a run-time value cannot be cast to the fixed-buffer kinds: the library rejects it at compile time)
#ifndef VERIF_RT_KIND
void ob_c20c_cast_kind_fixed_buffer(const ARR<2,3>& a)
{ PIN(a, 2,3);
    { auto c = nm::cast(a, kind::ndarray_fs_fb); SAME2("C20.cast.kind.shape_kept", "C20.cast.kind.value_kept", c, a, 2,3, long, 10); }
#ifndef VERIF_RT_KIND
    { auto c = nm::cast(a, kind::ndarray_cs_fb); SAME2("C20.cast.kind.shape_kept", "C20.cast.kind.value_kept", c, a, 2,3, long, 12); }
    { auto c = nm::cast(a, kind::ndarray_ls_fb); SAME2("C20.cast.kind.shape_kept", "C20.cast.kind.value_kept", c, a, 2,3, long, 13); }
#endif
}
void ob_c20c_cast_kind_hybrid_buffer(const ARR<2,3>& a)
{ PIN(a, 2,3);
    { auto c = nm::cast(a, kind::ndarray_fs_hb); SAME2("C20.cast.kind.shape_kept", "C20.cast.kind.value_kept", c, a, 2,3, long, 20); }
#ifndef VERIF_RT_KIND
    { auto c = nm::cast(a, kind::ndarray_cs_hb); SAME2("C20.cast.kind.shape_kept", "C20.cast.kind.value_kept", c, a, 2,3, long, 22); }
#endif
}
#endif
void ob_c20c_cast_classic_kinds(const ARR<2,3>& a)
{ PIN(a, 2,3);
#ifndef VERIF_RT_KIND
    { auto c = nm::cast(a, kind::fixed);  SAME2("C20.cast.kind.shape_kept", "C20.cast.kind.value_kept", c, a, 2,3, long, 30); }
    { auto c = nm::cast(a, kind::hybrid); SAME2("C20.cast.kind.shape_kept", "C20.cast.kind.value_kept", c, a, 2,3, long, 31); }
#endif
    { auto c = nm::cast<long>(a); NEGCTL("C20.NEG.cast_transposes", c(0,1) == a(1,0), 0); }
}
