// C01: stride / offset / indices formulas on fixed-rank shapes, every extent (DESIGN §3 C01, O1-O4,O6)
#include "common.hpp"
#include "nmtools/array/index/compute_strides.hpp"
#include "nmtools/array/index/compute_offset.hpp"
#include "nmtools/array/index/compute_indices.hpp"
#include "nmtools/array/index/ndindex.hpp"
#include "nmtools/array/index/product.hpp"
#include "nmtools/array/index/reverse.hpp"
using namespace ob;

// O1: strides[i] == prod_{j>i} shape[j]
template <class K, size_t R>
void ob_c01_strides(const mk_t<K,size_t,R>& s)
{
    assume_len<R>(s);
    auto st = ix::compute_strides(s);
    OBLIGE("C01.O1.len", (size_t)nm::len(st)==R, kid<K>, R);
    for_<R>([&](auto I){
        size_t e = 1;
        for_<R>([&](auto J){ if constexpr (J.value > I.value) e *= (size_t)rd<J.value>(s); });
        OBLIGE("C01.O1.stride", (size_t)rd<I.value>(st)==e, kid<K>, R, I.value);
    });
    // stride(shape,k) with a run-time k
}
template <class K, size_t R>
void ob_c01_stride_k(const mk_t<K,size_t,R>& s, size_t k)
{
    assume_len<R>(s);
    ASSUME(k < R);
    for_<R>([&](auto I){
        if (k == I.value) {
            size_t e = 1;
            for_<R>([&](auto J){ if constexpr (J.value > I.value) e *= (size_t)rd<J.value>(s); });
            auto p = ix::stride(s,k);
            OBLIGE("C01.O1.stride_k", (size_t)p==e, kid<K>, R, I.value);
        }
    });
}
// O2: offset == sum idx[i]*strides[i]
template <class K, size_t R>
void ob_c01_offset(const mk_t<K,size_t,R>& idx, const mk_t<K,size_t,R>& st)
{
    assume_len<R>(idx); assume_len<R>(st);
    nm_size_t e = 0;
    for_<R>([&](auto I){ e += (nm_size_t)rd<I.value>(idx) * (nm_size_t)rd<I.value>(st); });
    auto off = ix::compute_offset(idx,st);
    OBLIGE("C01.O2.offset", (nm_size_t)off==e, kid<K>, R);
}
// O2 with narrow element types: every term is widened to the offset type BEFORE the multiplication
template <class TI, class TS, size_t R>
void ob_c01_offset_narrow(const std::array<TI,R>& idx, const std::array<TS,R>& st)
{
    nm_size_t e = 0;
    for_<R>([&](auto I){ e += (nm_size_t)rd<I.value>(idx) * (nm_size_t)rd<I.value>(st); });
    auto off = ix::compute_offset(idx,st);
    OBLIGE("C01.O2.offset_widened_before_multiply", (nm_size_t)off==e, sizeof(TI)*10+sizeof(TS), R);
}
// O2 with indices and strides of DIFFERENT container kinds (the multi-index a(i,j,k) packs is a fixed-length array or tuple, the strides of a
// run-time-rank array are a run-time-length container, and the other way round)
template <class KI, class KS, size_t R>
void ob_c01_offset_mixed(const mk_t<KI,size_t,R>& idx, const mk_t<KS,size_t,R>& st)
{
    assume_len<R>(idx); assume_len<R>(st);
    nm_size_t e = 0;
    for_<R>([&](auto I){ e += (nm_size_t)rd<I.value>(idx) * (nm_size_t)rd<I.value>(st); });
    auto off = ix::compute_offset(idx,st);
    OBLIGE("C01.O2.offset_mixed_container_kinds", (nm_size_t)off==e, kid<KI>*10+kid<KS>, R);
}
#define MIX(KI,KS) template void ob_c01_offset_mixed<KI,KS,1>(const mk_t<KI,size_t,1>&, const mk_t<KS,size_t,1>&); template void ob_c01_offset_mixed<KI,KS,2>(const mk_t<KI,size_t,2>&, const mk_t<KS,size_t,2>&); template void ob_c01_offset_mixed<KI,KS,3>(const mk_t<KI,size_t,3>&, const mk_t<KS,size_t,3>&);
MIX(k_std,k_sv) MIX(k_sv,k_std) MIX(k_tup,k_sv) MIX(k_sv,k_tup) MIX(k_std,k_tup) MIX(k_tup,k_std) MIX(k_utl,k_sv) MIX(k_std,k_utl)
// O3: compute_indices(off,shape)[i] < shape[i]  and == (off / prod_{j>i} s[j]) % s[i]
template <class K, size_t R>
void ob_c01_indices(size_t off, const mk_t<K,size_t,R>& s)
{
    assume_len<R>(s);
    for_<R>([&](auto I){ ASSUME(rd<I.value>(s) >= 1); });
    auto ind = ix::compute_indices(off,s);
    OBLIGE("C01.O3.len", (size_t)nm::len(ind)==R, kid<K>, R);
    for_<R>([&](auto I){
        size_t e = 1;
        for_<R>([&](auto J){ if constexpr (J.value > I.value) e *= (size_t)rd<J.value>(s); });
        OBLIGE("C01.O3.inshape", (size_t)rd<I.value>(ind) < (size_t)rd<I.value>(s), kid<K>, R, I.value);
        OBLIGE("C01.O3.formula", (size_t)rd<I.value>(ind) == (off / e) % (size_t)rd<I.value>(s), kid<K>, R, I.value);
    });
}
// O4: ndindex(s)[i] and ndindex(s).size()
template <class K, size_t R>
void ob_c01_ndindex(size_t off, const mk_t<K,size_t,R>& s)
{
    assume_len<R>(s);
    for_<R>([&](auto I){ ASSUME(rd<I.value>(s) >= 1); });
    auto nd = ix::ndindex(s);
    size_t n = 1;
    for_<R>([&](auto I){ n *= (size_t)rd<I.value>(s); });
    OBLIGE("C01.O4.size", (size_t)nd.size()==n, kid<K>, R);
    auto ind = nd[off];
    for_<R>([&](auto I){
        size_t e = 1;
        for_<R>([&](auto J){ if constexpr (J.value > I.value) e *= (size_t)rd<J.value>(s); });
        OBLIGE("C01.O4.inshape", (size_t)rd<I.value>(ind) < (size_t)rd<I.value>(s), kid<K>, R, I.value);
        OBLIGE("C01.O4.formula", (size_t)rd<I.value>(ind) == (off / e) % (size_t)rd<I.value>(s), kid<K>, R, I.value);
    });
}
// O6: product and reverse
template <class K, size_t R>
void ob_c01_product_reverse(const mk_t<K,size_t,R>& s)
{
    assume_len<R>(s);
    size_t n = 1;
    for_<R>([&](auto I){ n *= (size_t)rd<I.value>(s); });
    OBLIGE("C01.O6.product", (size_t)ix::product(s)==n, kid<K>, R);
    auto r = ix::reverse(s);
    OBLIGE("C01.O6.revlen", (size_t)nm::len(r)==R, kid<K>, R);
    for_<R>([&](auto I){
        OBLIGE("C01.O6.reverse", (size_t)rd<I.value>(r)==(size_t)rd<R-1-I.value>(s), kid<K>, R, I.value);
    });
}
// negative control: wrong stride formula must NOT be proved
template <class K, size_t R>
void ob_c01_negctl(const mk_t<K,size_t,R>& s)
{
    auto st = ix::compute_strides(s);
    NEGCTL("C01.NEG.stride0_is_shape0", (size_t)rd<0>(st)==(size_t)rd<0>(s), kid<K>, R);
}

#define INST(K,R) \
  template void ob_c01_strides<K,R>(const mk_t<K,size_t,R>&); \
  template void ob_c01_stride_k<K,R>(const mk_t<K,size_t,R>&, size_t); \
  template void ob_c01_offset<K,R>(const mk_t<K,size_t,R>&, const mk_t<K,size_t,R>&); \
  template void ob_c01_indices<K,R>(size_t, const mk_t<K,size_t,R>&); \
  template void ob_c01_ndindex<K,R>(size_t, const mk_t<K,size_t,R>&); \
  template void ob_c01_product_reverse<K,R>(const mk_t<K,size_t,R>&);
#define INSTK(K) INST(K,1) INST(K,2) INST(K,3) INST(K,4)
INSTK(k_std) INSTK(k_utl) INSTK(k_tup) INSTK(k_sv)
template void ob_c01_offset_narrow<int,int,2>(const std::array<int,2>&, const std::array<int,2>&);
template void ob_c01_offset_narrow<int,int,3>(const std::array<int,3>&, const std::array<int,3>&);
template void ob_c01_offset_narrow<unsigned,unsigned,3>(const std::array<unsigned,3>&, const std::array<unsigned,3>&);
template void ob_c01_offset_narrow<unsigned char,unsigned short,3>(const std::array<unsigned char,3>&, const std::array<unsigned short,3>&);
template void ob_c01_offset_narrow<int,size_t,3>(const std::array<int,3>&, const std::array<size_t,3>&);
template void ob_c01_negctl<k_std,2>(const mk_t<k_std,size_t,2>&);
#ifdef VERIF_THOROUGH
INST(k_std,5) INST(k_std,6) INST(k_utl,5) INST(k_utl,6) INST(k_tup,5) INST(k_tup,6)
INSTK(k_utup)
#endif
