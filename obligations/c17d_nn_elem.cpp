// C17 (view level, constant shapes, symbolic INTEGER element values - "exactly for integer-valued data where no division occurs"):
// elements of linear equal the direct nested-loop definition (bilinear, conv1d, conv2d do not fold: tried, 100 s per TU, all residual).
//   linear(x, W, b)[n, o]        = sum_i x[n,i] * W[o,i] + b[o]
#include "cview.hpp"
#define HV_ID "C17.nn.has_value"
#include "nmtools/array/view/linear.hpp"
using nm::None; constexpr size_t Z = 0;
#define FOLDN(N, FIRST, NEXT) ([&]{ long acc = 0; for_<N>([&](auto T){ constexpr size_t t = T.value; (void)t; if constexpr (t == 0) acc = (FIRST); else acc = (NEXT); }); return acc; }())
void ob_c17d_linear(const ARR<2,3>& x, const ARR<2,3>& w, const ARR<2>& b)
{ PIN(x, 2,3); PIN(w, 2,3); PIN(b, 2);
    { VIEW(v, view::linear(x, w)); EXPECT_VIEW2("C17.linear.shape", "C17.linear.element_is_the_sum_of_products", v, 2,2, FOLDN(3, x(i,t) * w(j,t), acc + x(i,t) * w(j,t)), 0); }
}
void ob_c17d_linear_bias(const ARR<1,3>& x, const ARR<2,3>& w, const ARR<2>& b)
{ PIN(x, 1,3); PIN(w, 2,3); PIN(b, 2);
    { VIEW(v, view::linear(x, w, b)); EXPECT_VIEW2("C17.linear.shape", "C17.linear.element_is_the_sum_of_products_plus_bias", v, 1,2, FOLDN(3, x(i,t) * w(j,t), acc + x(i,t) * w(j,t)) + b(j), 1); }
}
void ob_c17d_negctl(const ARR<2,3>& x, const ARR<2,3>& w)
{ PIN(x, 2,3); PIN(w, 2,3); auto v = nm::unwrap(view::linear(x, w)); NEGCTL("C17.NEG.linear_is_first_product", (long)v(0,0) == x(0,0) * w(0,0), 0); }

