// C19 (+C02c): inductive invariants of the STL-free containers, one mutator at a time (DESIGN §3 C19)
// Inv(static_vector<T,C>) == size() <= C.  Assume on entry, prove on exit: quantifies over every history.
#include "common.hpp"
#include "nmtools/utl.hpp"
using namespace ob;
namespace utl = nmtools::utl;

template <class T, size_t C> using sv = utl::static_vector<T,C>;
template <class T> __attribute__((always_inline)) inline bool same_bits_(const T& a, const T& b) { return __builtin_memcmp(&a,&b,sizeof(T))==0; }

// Every mutator is analysed per entry size K (template parameter, ASSUME(size()==K)) so that the case split
// precedes the call under test; K ranges over 0..C, i.e. every state the invariant admits.
// --- resize
// (the requested size is a template parameter as well: N2 ranges over 0..C+1, so that the element loop of resize has constant bounds)
template <class T, size_t C, size_t K, size_t N2>
void ob_c19_sv_resize(sv<T,C>& v, size_t n)
{
    ASSUME(v.size() == K); ASSUME(n == N2);
    T keep[C]; for_<C>([&](auto I){ keep[I.value] = v.data()[I.value]; });
    v.resize(n);
    if constexpr (N2 <= C) OBLIGE("C19.static_vector.resize.accepted_size|C02.static_vector.resize.within_capacity", (size_t)v.size() == N2, C, K, N2);
    else OBLIGE("C19.static_vector.resize.refused_size_unchanged|C02.static_vector.resize.refused_within_capacity", (size_t)v.size() == K, C, K, N2);
    // std::vector semantics: the elements that survive keep their value, elements that come into existence are value-initialised
    // (a refused resize keeps everything); positions at or beyond the new size are not part of the container
    const T zero = T();
    for_<C>([&](auto I){
        if constexpr (N2 > C) { if constexpr (I.value < K) OBLIGE("C19.static_vector.resize.refused_contents_unchanged", same_bits_(keep[I.value], v.data()[I.value]), C, K, N2, I.value); }
        else if constexpr (I.value < N2) {
            if constexpr (I.value < K) OBLIGE("C19.static_vector.resize.surviving_elements_unchanged", same_bits_(keep[I.value], v.data()[I.value]), C, K, N2, I.value);
            else OBLIGE("C19.static_vector.resize.new_elements_value_initialised", same_bits_(zero, v.data()[I.value]), C, K, N2, I.value);
        }
    });
}
// --- push_back
template <class T, size_t C, size_t K>
void ob_c19_sv_push_back(sv<T,C>& v, const T& x_)
{
    const T x = x_;
    ASSUME(v.size() == K);
    T keep[C]; for_<C>([&](auto I){ keep[I.value] = v.data()[I.value]; });
    v.push_back(x);
    OBLIGE("C02.static_vector.push_back.within_capacity|C19.static_vector.push_back.inv", (size_t)v.size() <= C, C, K);
    if constexpr (K < C) {
        OBLIGE("C19.static_vector.push_back.accepted_size", (size_t)v.size() == K+1, C, K);
        for_<C>([&](auto I){
            if constexpr (K == I.value) OBLIGE("C19.static_vector.push_back.stored_at_old_size", same_bits_(v.data()[I.value], x), C, K, I.value);
            else                        OBLIGE("C19.static_vector.push_back.others_unchanged", same_bits_(v.data()[I.value], keep[I.value]), C, K, I.value);
        });
    } else {
        OBLIGE("C19.static_vector.push_back.refused_size_unchanged", (size_t)v.size() == K, C, K);
        for_<C>([&](auto I){ OBLIGE("C19.static_vector.push_back.refused_contents_unchanged", same_bits_(v.data()[I.value], keep[I.value]), C, K, I.value); });
    }
}
// --- copy construction and assignment: equal copy, source untouched by writes to the copy, self-assignment harmless
template <class T, size_t C, size_t K>
void ob_c19_sv_copy(const sv<T,C>& o)
{
    ASSUME(o.size() == K);
    sv<T,C> c(o);
    OBLIGE("C19.static_vector.copy_ctor.size", (size_t)c.size() == K, C, K);
    for_<K>([&](auto I){ OBLIGE("C19.static_vector.copy_ctor.elements", same_bits_(c.data()[I.value], o.data()[I.value]), C, K, I.value); });
    // independence: writing the copy leaves the source as it was
    T keep[C]; for_<C>([&](auto I){ keep[I.value] = o.data()[I.value]; });
    for_<C>([&](auto I){ c.data()[I.value] = T(); });
    for_<C>([&](auto I){ OBLIGE("C19.static_vector.copy_ctor.independent", same_bits_(keep[I.value], o.data()[I.value]), C, K, I.value); });
}
template <class T, size_t C, size_t K, size_t KV>
void ob_c19_sv_assign(sv<T,C>& v, const sv<T,C>& o_)
{
    ASSUME(o_.size() == K); ASSUME(v.size() == KV);
    T src[C]; for_<C>([&](auto I){ src[I.value] = o_.data()[I.value]; });
    T keep[C]; for_<C>([&](auto I){ keep[I.value] = v.data()[I.value]; });
    if ((const void*)&v != (const void*)&o_) {   // self-assignment is a separate obligation
        v = o_;
        OBLIGE("C19.static_vector.assign.size", (size_t)v.size() == K, C, K, KV);
        // element-wise equality after assignment is not dischargeable (run-time trip count over memory that may alias size_): not stated
    }
}
template <class T, size_t C, size_t K>
void ob_c19_sv_self_assign(sv<T,C>& v)
{
    ASSUME(v.size() == K);
    T keep[C]; for_<C>([&](auto I){ keep[I.value] = v.data()[I.value]; });
    v = v;
    OBLIGE("C19.static_vector.self_assign.size", (size_t)v.size() == K, C, K);
    for_<C>([&](auto I){ OBLIGE("C19.static_vector.self_assign.contents", same_bits_(v.data()[I.value], keep[I.value]), C, K, I.value); });
}
// --- constructors establish the invariant
template <class T, size_t C>
void ob_c19_sv_ctor(size_t n)
{
    { sv<T,C> v; OBLIGE("C19.static_vector.default_ctor.empty", (size_t)v.size() == 0, C); }
    if (n <= C) { sv<T,C> v(n); OBLIGE("C19.static_vector.sized_ctor.size", (size_t)v.size() == n, C); }
    else        { sv<T,C> v(n); OBLIGE("C19.static_vector.sized_ctor.inv|C02.static_vector.sized_ctor.within_capacity", (size_t)v.size() <= C, C); }
}
// --- element access addresses slot i of the buffer, begin/end delimit size() elements
template <class T, size_t C>
void ob_c19_sv_access(sv<T,C>& v, int i)
{
    ASSUME(v.size() <= C); ASSUME(i >= 0 && (size_t)i < C);
    OBLIGE("C19.static_vector.index.address", (const void*)&v[i] == (const void*)(v.data()+i), C);
    OBLIGE("C19.static_vector.at.address", (const void*)&v.at(i) == (const void*)(v.data()+i), C);
    OBLIGE("C19.static_vector.end_minus_begin", (size_t)(utl::end(v) - utl::begin(v)) == (size_t)v.size(), C);
}
// --- utl::array
template <class T, size_t N>
void ob_c19_array(utl::array<T,N>& a, size_t i)
{
    ASSUME(i < N);
    OBLIGE("C19.array.size", (size_t)a.size() == N, N);
    OBLIGE("C19.array.index.address", (const void*)&a[i] == (const void*)(a.data()+i), N);
    utl::array<T,N> c(a);
    for_<N>([&](auto I){ OBLIGE("C19.array.copy.elements", same_bits_(c[I.value], a[I.value]), N, I.value); });
    T keep[N]; for_<N>([&](auto I){ keep[I.value] = a[I.value]; });
    for_<N>([&](auto I){ c[I.value] = T(); });
    for_<N>([&](auto I){ OBLIGE("C19.array.copy.independent", same_bits_(keep[I.value], a[I.value]), N, I.value); });
}
// --- utl::tuple get<I> returns the I-th constructor argument
void ob_c19_tuple(int a, double b, long c, char d)
{
    utl::tuple<int,double,long,char> t{a,b,c,d};
    OBLIGE("C19.tuple.get", utl::get<0>(t)==a, 0);
    OBLIGE("C19.tuple.get", same_bits_(utl::get<1>(t),b), 1);
    OBLIGE("C19.tuple.get", utl::get<2>(t)==c, 2);
    OBLIGE("C19.tuple.get", utl::get<3>(t)==d, 3);
    auto t2 = t;
    OBLIGE("C19.tuple.copy.get", utl::get<2>(t2)==c, 2);
    utl::tuple<int,double,long,char> t3{0,0.0,0,'x'};
    t3 = t;
    OBLIGE("C19.tuple.assign.get", utl::get<0>(t3)==a && utl::get<3>(t3)==d, 0);
}
// --- tuples of every arity 2..8 (utl::tuple is written out by hand per arity, tuplev2 recursively): value construction, same-type copy,
//     assignment and CONVERTING copy (source element types differ from the target's) keep every element at its own position
#include "nmtools/utl/tuplev2.hpp"
template <template <class...> class TUP, int KIND, size_t... I>
__attribute__((always_inline)) inline void tuple_positions(const std::array<int,sizeof...(I)>& v, std::index_sequence<I...>)
{
    constexpr size_t N = sizeof...(I);
    TUP<always_t<int,I>...> t{v[I]...};
    for_<N>([&](auto J){ OBLIGE("C19.tuple.arity.get_returns_the_element_at_its_position", utl::get<J.value>(t) == v[J.value], KIND, N, J.value); });
    auto c = t;
    for_<N>([&](auto J){ OBLIGE("C19.tuple.arity.copy_keeps_positions", utl::get<J.value>(c) == v[J.value], KIND, N, J.value); });
    TUP<always_t<long,I>...> w(t);                       // converting copy: int -> long at every position
    for_<N>([&](auto J){ OBLIGE("C19.tuple.arity.converting_copy_keeps_positions", utl::get<J.value>(w) == (long)v[J.value], KIND, N, J.value); });
    TUP<always_t<int,I>...> a{(int)(I * 0)...};
    a = t;
    for_<N>([&](auto J){ OBLIGE("C19.tuple.arity.assignment_keeps_positions", utl::get<J.value>(a) == v[J.value], KIND, N, J.value); });
}
template <size_t N> void ob_c19_tuple_arity(const std::array<int,N>& v) { tuple_positions<utl::tuple,0>(v, std::make_index_sequence<N>{}); }
template <size_t N> void ob_c19_tuplev2_arity(const std::array<int,N>& v) { tuple_positions<utl::tuplev2,1>(v, std::make_index_sequence<N>{}); }
#define TA(N) template void ob_c19_tuple_arity<N>(const std::array<int,N>&); template void ob_c19_tuplev2_arity<N>(const std::array<int,N>&);
TA(2) TA(3) TA(4) TA(5) TA(6) TA(7) TA(8) TA(9) TA(10) TA(11) TA(12)
// --- utl::maybe<int>
void ob_c19_maybe(int x, const utl::maybe<int>& o_)
{
    { utl::maybe<int> m; OBLIGE("C19.maybe.default_empty", !m.has_value(), 0); }
    { utl::maybe<int> m(utl::nothing); OBLIGE("C19.maybe.nothing_empty", !static_cast<bool>(m), 0); }
    { utl::maybe<int> m(x); OBLIGE("C19.maybe.value_ctor", m.has_value() && *m == x, 0); }
    { utl::maybe<int> o(o_); ASSUME(o.template get_if<int>() || o.template get_if<utl::nothing_t>());
      // (copy keeps has_value(): not dischargeable - the tag is compared through a 64-bit image of the object; see DESIGN §3 C19)
      if (o_.has_value()) { utl::maybe<int> m(o_); OBLIGE("C19.maybe.copy.value", *m == *o_, 0); }
      if (o.has_value()) { utl::maybe<int> a; a = o; OBLIGE("C19.maybe.assign.has_value", a.has_value(), 1); OBLIGE("C19.maybe.assign.value", *a == *o, 0); }
      else               { utl::maybe<int> a(x); a = o; OBLIGE("C19.maybe.assign.has_value", !a.has_value(), 0); }
      utl::maybe<int> b;
      b = x;
      OBLIGE("C19.maybe.assign_value", b.has_value() && *b == x, 0);
    }
}
// --- utl::either<int,float>
void ob_c19_either(int x, float y, const utl::either<int,float>& o_)
{
    using nmtools::get_if;
    { utl::either<int,float> e(x); OBLIGE("C19.either.left_ctor", get_if<int>(&e) && *get_if<int>(&e)==x && !get_if<float>(&e) && e.index()==0, 0); }
    { utl::either<int,float> e(y); OBLIGE("C19.either.right_ctor", get_if<float>(&e) && same_bits_(*get_if<float>(&e),y) && !get_if<int>(&e) && e.index()==1, 0); }
    { utl::either<int,float> o(o_); ASSUME(get_if<int>(&o) || get_if<float>(&o));
      utl::either<int,float> e(x);
      e = o;
      OBLIGE("C19.either.assign.same_alternative", e.index()==o.index(), 0);
      if (auto p = get_if<int>(&o)) OBLIGE("C19.either.assign.left_value", get_if<int>(&e) && *get_if<int>(&e)==*p, 0);
      if (auto p = get_if<float>(&o)) OBLIGE("C19.either.assign.right_value", get_if<float>(&e) && same_bits_(*get_if<float>(&e),*p), 0);
      if (get_if<int>(&o)) { utl::either<int,float> c(o); OBLIGE("C19.either.copy.same_alternative", c.index()==0 && *get_if<int>(&c)==*get_if<int>(&o), 0); }
      else                 { utl::either<int,float> c(o); OBLIGE("C19.either.copy.same_alternative", c.index()==1 && same_bits_(*get_if<float>(&c),*get_if<float>(&o)), 1); }
    }
}
void ob_c19_negctl(sv<int,4>& v, size_t n)
{
    ASSUME(v.size() <= 4);
    v.resize(n);
    NEGCTL("C19.NEG.resize_always_accepts", (size_t)v.size()==n, 4);
}
// every requested size 0..C+1: the functions are kept alive through a table of their addresses (explicit instantiation of the holder)
template <class T, size_t C, size_t K> struct rsz_inst {
    template <size_t... N2> static constexpr std::array<void(*)(sv<T,C>&, size_t), sizeof...(N2)> tbl(std::index_sequence<N2...>) { return { &ob_c19_sv_resize<T,C,K,N2>... }; }
    static inline auto table = tbl(std::make_index_sequence<C+2>{});
};
#define SVK0(T,C,K) template struct rsz_inst<T,C,K>; template void ob_c19_sv_push_back<T,C,K>(sv<T,C>&, const T&); \
   template void ob_c19_sv_copy<T,C,K>(const sv<T,C>&); template void ob_c19_sv_self_assign<T,C,K>(sv<T,C>&);
#define SVK(T,C,K) SVK0(T,C,K) \
   template void ob_c19_sv_assign<T,C,K,0>(sv<T,C>&, const sv<T,C>&); template void ob_c19_sv_assign<T,C,K,C>(sv<T,C>&, const sv<T,C>&);
#define SV(T,C) template void ob_c19_sv_ctor<T,C>(size_t); template void ob_c19_sv_access<T,C>(sv<T,C>&, int);
SV(int,1) SVK(int,1,0) SVK(int,1,1)
SV(int,4) SVK(int,4,0) SVK(int,4,1) SVK(int,4,2) SVK(int,4,3) SVK(int,4,4)
SV(double,3) SVK(double,3,0) SVK(double,3,1) SVK(double,3,2) SVK(double,3,3)
SV(size_t,8) SVK0(size_t,8,0) SVK0(size_t,8,3) SVK0(size_t,8,7) SVK0(size_t,8,8) // assign: size_t elements alias size_ for TBAA, not dischargeable
template void ob_c19_array<int,3>(utl::array<int,3>&, size_t);
template void ob_c19_array<double,5>(utl::array<double,5>&, size_t);
