// C12 (value level, integer elements, the compiler-vector-extension back end): evaluating add.reduce / multiply.reduce / add / negative of
// a fixed-buffer array whose element VALUES are symbols with a SIMD context yields the shape and, at every index, the value the
// definition gives. Integer addition / multiplication are associative and commutative modulo 2^32, so "equal up to re-association" is
// plain equality here and LLVM can decide it after folding the evaluator (enumerators, packs, tails) for the stated shapes.
// What this adds to c12_enum (which decides the enumerators in isolation): the EVALUATOR's own decisions - which enumerator it picks for
// which axis, how it seeds the output, how it treats tails and unit extents.
// E1-PREFER: clang-O2-novec-scalarized
#include "cview.hpp"
#include "nmtools/array/eval/simd/vector_128.hpp"
#include "nmtools/array/eval/simd/vector_256.hpp"
#ifndef C12_CTX
#define C12_CTX simd::vector_128
#endif
#include "nmtools/array/eval/simd/ufunc.hpp"
#include "nmtools/array/array/ufuncs/add.hpp"
#include "nmtools/array/array/ufuncs/multiply.hpp"
#include "nmtools/array/array/matmul.hpp"
#include "nmtools/array/eval/simd/evaluator/matmul.hpp"
#include "nmtools/array/array/ufuncs/subtract.hpp"
#include "nmtools/utility/unwrap.hpp"
namespace simd = na::simd; using nm::None;
template <size_t... E> using iarr = na::ndarray_t<std::array<int,(E * ... * 1)>, std::array<size_t,sizeof...(E)>>;
#define PINSHAPE(a, ...) cv::assume_shape<__VA_ARGS__>(a)

// reduce over axis AX of a 3-d array (E0,E1,E2): out has the shape with AX dropped, element = fold over AX
template <size_t E0, size_t E1, size_t E2, int AX, bool MUL>
void ob_c12b_reduce3(const iarr<E0,E1,E2>& a)
{
    PINSHAPE(a, E0, E1, E2);
    constexpr size_t ext[3] = {E0,E1,E2}; constexpr size_t ax = (size_t)(AX < 0 ? AX + 3 : AX);
    constexpr size_t o0 = ax == 0 ? E1 : E0, o1 = ax == 2 ? E1 : E2;
    constexpr long tag = E0*100 + E1*10 + E2;
    auto r = [&](){ if constexpr (MUL) return na::multiply.reduce(a, AX, None, None, nm::False, C12_CTX); else return na::add.reduce(a, AX, None, None, nm::False, C12_CTX); }();
    auto shp = nm::shape(r);
    OBLIGE("C12.eval.reduce.shape", (size_t)nm::len(shp) == 2 && (size_t)nm::at(shp,0) == o0 && (size_t)nm::at(shp,1) == o1, tag, AX+10, MUL);
    if ((size_t)nm::len(shp) == 2 && (size_t)nm::at(shp,0) == o0 && (size_t)nm::at(shp,1) == o1) {
        for_<o0>([&](auto I){ for_<o1>([&](auto J){
            unsigned want = MUL ? 1u : 0u;
            for_<ext[ax]>([&](auto T){
                constexpr size_t i = I.value, j = J.value, t = T.value;
                const unsigned x = (unsigned)(ax == 0 ? a(t,i,j) : ax == 1 ? a(i,t,j) : a(i,j,t));
                want = MUL ? want * x : want + x;
            });
            OBLIGE("C12.eval.reduce.element_is_the_fold_over_the_axis", (unsigned)r(I.value, J.value) == want, tag, AX+10, MUL*100 + I.value*10 + J.value);
        }); });
    }
}
// keepdims = None means False (NumPy's default), for the SIMD evaluator as for the view
template <size_t E0, size_t E1, int AX>
void ob_c12b_reduce_keepdims_none(const iarr<E0,E1>& a)
{
    PINSHAPE(a, E0, E1);
    constexpr size_t ax = (size_t)(AX < 0 ? AX + 2 : AX); constexpr size_t o0 = ax == 0 ? E1 : E0;
    auto r = na::add.reduce(a, AX, None, None, None, C12_CTX);
    auto shp = nm::shape(r);
    OBLIGE("C12.eval.reduce.keepdims_none_shape", (size_t)nm::len(shp) == 1 && (size_t)nm::at(shp,0) == o0, E0*100+E1, AX+10);
    if ((size_t)nm::len(shp) == 1 && (size_t)nm::at(shp,0) == o0)
        for_<o0>([&](auto I){
            unsigned want = 0; for_<(ax == 0 ? E0 : E1)>([&](auto T){ want += (unsigned)(ax == 0 ? a(T.value, I.value) : a(I.value, T.value)); });
            OBLIGE("C12.eval.reduce.keepdims_none_element", (unsigned)r(I.value) == want, E0*100+E1, AX+10, I.value);
        });
}
template void ob_c12b_reduce_keepdims_none<2,5,0>(const iarr<2,5>&); template void ob_c12b_reduce_keepdims_none<2,4,-1>(const iarr<2,4>&); template void ob_c12b_reduce_keepdims_none<3,2,0>(const iarr<3,2>&);
// reduce over axis AX of a 2-d array
template <size_t E0, size_t E1, int AX, bool MUL>
void ob_c12b_reduce2(const iarr<E0,E1>& a)
{
    PINSHAPE(a, E0, E1);
    constexpr size_t ax = (size_t)(AX < 0 ? AX + 2 : AX);
    constexpr size_t o0 = ax == 0 ? E1 : E0;
    constexpr long tag = E0*100 + E1;
    auto r = [&](){ if constexpr (MUL) return na::multiply.reduce(a, AX, None, None, nm::False, C12_CTX); else return na::add.reduce(a, AX, None, None, nm::False, C12_CTX); }();
    auto shp = nm::shape(r);
    OBLIGE("C12.eval.reduce.shape", (size_t)nm::len(shp) == 1 && (size_t)nm::at(shp,0) == o0, tag, AX+10, MUL);
    if ((size_t)nm::len(shp) == 1 && (size_t)nm::at(shp,0) == o0) {
        for_<o0>([&](auto I){
            unsigned want = MUL ? 1u : 0u;
            for_<(ax == 0 ? E0 : E1)>([&](auto T){ const unsigned x = (unsigned)(ax == 0 ? a(T.value, I.value) : a(I.value, T.value)); want = MUL ? want * x : want + x; });
            OBLIGE("C12.eval.reduce.element_is_the_fold_over_the_axis", (unsigned)r(I.value) == want, tag, AX+10, MUL*100 + I.value);
        });
    }
}
#define R3(E0,E1,E2,AX,MUL) template void ob_c12b_reduce3<E0,E1,E2,AX,MUL>(const iarr<E0,E1,E2>&);
#define R2(E0,E1,AX,MUL) template void ob_c12b_reduce2<E0,E1,AX,MUL>(const iarr<E0,E1>&);
R2(2,5,0,false) R2(2,5,1,false) R2(3,4,-1,true) R2(5,1,0,false) R2(1,5,1,false) R2(2,4,1,false) R2(2,8,1,false) R2(2,6,1,false) R2(2,3,1,false) R2(2,9,0,true)
R3(2,3,1,1,false) R3(2,3,1,0,false) R3(2,3,1,2,false) R3(2,2,5,1,false) R3(2,1,5,-1,true) R3(1,3,1,1,false)

// ---- whole-array reduction (axis None), with and without an initial value
template <size_t E0, size_t E1, bool MUL, bool INIT>
void ob_c12b_reduce_all(const iarr<E0,E1>& a, int init)
{
    PINSHAPE(a, E0, E1);
    auto r = [&](){
        if constexpr (INIT) { if constexpr (MUL) return na::multiply.reduce(a, None, None, init, nm::False, C12_CTX); else return na::add.reduce(a, None, None, init, nm::False, C12_CTX); }
        else { if constexpr (MUL) return na::multiply.reduce(a, None, None, None, nm::False, C12_CTX); else return na::add.reduce(a, None, None, None, nm::False, C12_CTX); }
    }();
    unsigned want = INIT ? (unsigned)init : (MUL ? 1u : 0u);
    for_<E0>([&](auto I){ for_<E1>([&](auto J){ const unsigned x = (unsigned)a(I.value, J.value); want = MUL ? want * x : want + x; }); });
    OBLIGE("C12.eval.reduce_all.is_the_fold_of_every_element", (unsigned)(int)r == want, E0*100+E1, MUL, INIT);
}
// ---- keepdims and initial on an axis reduction
template <size_t E0, size_t E1, int AX>
void ob_c12b_reduce_keepdims_initial(const iarr<E0,E1>& a, int init)
{
    PINSHAPE(a, E0, E1);
    constexpr size_t ax = (size_t)(AX < 0 ? AX + 2 : AX); constexpr size_t o0 = ax == 0 ? 1 : E0, o1 = ax == 1 ? 1 : E1;
    auto r = na::add.reduce(a, AX, None, init, nm::True, C12_CTX);
    auto shp = nm::shape(r);
    OBLIGE("C12.eval.reduce.keepdims_shape", (size_t)nm::len(shp) == 2 && (size_t)nm::at(shp,0) == o0 && (size_t)nm::at(shp,1) == o1, E0*100+E1, AX+10);
    if ((size_t)nm::len(shp) == 2 && (size_t)nm::at(shp,0) == o0 && (size_t)nm::at(shp,1) == o1)
        for_<o0>([&](auto I){ for_<o1>([&](auto J){
            unsigned want = (unsigned)init;
            for_<(ax == 0 ? E0 : E1)>([&](auto T){ want += (unsigned)(ax == 0 ? a(T.value, J.value) : a(I.value, T.value)); });
            OBLIGE("C12.eval.reduce.initial_is_folded_into_every_element", (unsigned)r(I.value, J.value) == want, E0*100+E1, AX+10, I.value*10+J.value);
        }); });
}
#define RA(E0,E1,MUL,INIT) template void ob_c12b_reduce_all<E0,E1,MUL,INIT>(const iarr<E0,E1>&, int);
RA(1,1,false,false) RA(1,3,true,false) RA(2,2,false,false) RA(2,5,false,true) RA(3,3,true,true) RA(1,9,false,false)
#define RK(E0,E1,AX) template void ob_c12b_reduce_keepdims_initial<E0,E1,AX>(const iarr<E0,E1>&, int);
RK(2,5,0) RK(2,5,1) RK(3,4,-1) RK(3,1,0)
#ifdef VERIF_THOROUGH
R2(3,9,0,false) R2(3,9,1,true) R2(2,8,-1,true) R2(9,2,0,false) R2(1,1,0,false)
R3(2,2,6,2,false) R3(2,5,2,1,true) R3(3,1,4,0,false) R3(1,1,5,2,false) R3(2,2,2,-2,false) R3(1,2,1,0,false)
RA(2,9,true,false) RA(3,5,false,true) RA(1,17,false,false)
RK(2,9,1) RK(5,2,-2)
#endif
// ---- matmul (lhs (M,K) row-major, rhs (K,P) stored column-major as the SIMD evaluator requires): out(i,j) = sum_t lhs(i,t) * rhs(t,j)
template <size_t K, size_t P> using cmarr = na::ndarray_t<std::array<int,K*P>, std::array<size_t,2>, na::resolve_stride_type_t, na::column_major_offset_t>;
template <size_t M, size_t K, size_t P>
void ob_c12b_matmul(const iarr<M,K>& a, const cmarr<K,P>& b, const iarr<M,P>& out_)
{
    auto out = out_;
    PINSHAPE(a, M, K); PINSHAPE(out, M, P);
    ASSUME(b.shape_[0] == K); ASSUME(b.shape_[1] == P); ASSUME(b.strides_[0] == 1); ASSUME(b.strides_[1] == K);
    ASSUME(b.offset_.shape_[0] == K); ASSUME(b.offset_.shape_[1] == P); ASSUME(b.offset_.strides_[0] == 1); ASSUME(b.offset_.strides_[1] == K);
    auto ok = na::matmul(a, b, C12_CTX, out);
    OBLIGE("C12.eval.has_value", nm::has_value(ok), M*100+K*10+P);
    for_<M>([&](auto I){ for_<P>([&](auto J){
        unsigned want = 0; for_<K>([&](auto T){ want += (unsigned)a(I.value, T.value) * (unsigned)b(T.value, J.value); });
        OBLIGE("C12.eval.matmul.element_is_the_sum_of_products", (unsigned)out(I.value, J.value) == want, M*100+K*10+P, I.value*10+J.value);
    }); });
}
template void ob_c12b_matmul<2,3,2>(const iarr<2,3>&, const cmarr<3,2>&, const iarr<2,2>&);
template void ob_c12b_matmul<1,5,2>(const iarr<1,5>&, const cmarr<5,2>&, const iarr<1,2>&);
template void ob_c12b_matmul<2,4,1>(const iarr<2,4>&, const cmarr<4,1>&, const iarr<2,1>&);
void ob_c12b_negctl(const iarr<2,5>& a)
{
    PINSHAPE(a, 2, 5);
    auto r = na::add.reduce(a, 0, None, None, nm::False, C12_CTX);
    NEGCTL("C12.NEG.eval_reduce_is_first_row", (int)r(0) == a(0,0), 0);
}
