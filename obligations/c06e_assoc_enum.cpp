// C06 (exhaustive over small shapes, fixed-length containers holding constants): broadcasting THREE shapes - every triple of shapes of rank
// 1..2 with extents in {1,2,3} - succeeds exactly when, aligned at the trailing axis, all extents per axis are equal or 1, then yields the
// per-axis maximum; the result does not depend on the grouping ((a,b),c) / (a,(b,c)) nor on the operand order (all six orders of the
// variadic call), and broadcasting the result with any of the operands changes nothing.
#include "common.hpp"
#include "nmtools/array/index/broadcast_shape.hpp"
#include "nmtools/utility/has_value.hpp"
#include "nmtools/utility/unwrap.hpp"
using namespace ob;
constexpr size_t ipow(size_t b, size_t r) { size_t p = 1; for (size_t i = 0; i < r; i++) p *= b; return p; }
constexpr size_t ext(size_t code, size_t rank, size_t axis) { size_t c = code; for (size_t i = axis + 1; i < rank; i++) c /= 3; return c % 3 + 1; }
struct want_t { bool ok; size_t rank; size_t e[2]; };
constexpr want_t rule3(size_t ra, size_t ca, size_t rb, size_t cb, size_t rc, size_t cc)
{
    want_t w{true, ra > rb ? (ra > rc ? ra : rc) : (rb > rc ? rb : rc), {1,1}};
    for (size_t k = 0; k < w.rank; k++) {
        size_t a = k < ra ? ext(ca, ra, ra-1-k) : 1, b = k < rb ? ext(cb, rb, rb-1-k) : 1, c = k < rc ? ext(cc, rc, rc-1-k) : 1;
        size_t m = a > b ? (a > c ? a : c) : (b > c ? b : c);
        if (!((a == m || a == 1) && (b == m || b == 1) && (c == m || c == 1))) w.ok = false;
        w.e[w.rank-1-k] = m;
    }
    return w;
}
template <size_t R, size_t C> __attribute__((always_inline)) inline std::array<size_t,R> mkshp()
{ std::array<size_t,R> s{}; for_<R>([&](auto I){ s[I.value] = ext(C, R, I.value); }); return s; }
template <class M> __attribute__((always_inline)) inline bool is_shape(const M& m, const want_t& w)
{
    if (!nm::has_value(m)) return false;
    auto s = nm::unwrap(m);
    bool ok = (size_t)nm::len(s) == w.rank;
    for (size_t i = 0; i < w.rank && i < (size_t)nm::len(s); i++) ok = ok && (size_t)nm::at(s,i) == w.e[i];
    return ok;
}
template <size_t RA, size_t CA, size_t RB, size_t CB, size_t RC, size_t CC>
__attribute__((always_inline)) inline void one()
{
    constexpr want_t w = rule3(RA,CA,RB,CB,RC,CC);
    constexpr long cd = (long)((((RA*10+CA)*10+RB)*10+CB)*10+RC)*10+CC;
    const auto a = mkshp<RA,CA>(); const auto b = mkshp<RB,CB>(); const auto c = mkshp<RC,CC>();
    if constexpr (w.ok) {
        OBLIGE("C06.enum3.compatible_shapes_give_the_per_axis_maximum", is_shape(ix::broadcast_shape(a,b,c), w), cd, 0);
        OBLIGE("C06.enum3.operand_order_does_not_matter", is_shape(ix::broadcast_shape(a,c,b), w) && is_shape(ix::broadcast_shape(b,a,c), w) && is_shape(ix::broadcast_shape(b,c,a), w)
                                                         && is_shape(ix::broadcast_shape(c,a,b), w) && is_shape(ix::broadcast_shape(c,b,a), w), cd, 1);
        auto ab = ix::broadcast_shape(a,b); auto bc = ix::broadcast_shape(b,c);
        OBLIGE("C06.enum3.grouping_does_not_matter", nm::has_value(ab) && nm::has_value(bc) && is_shape(ix::broadcast_shape(nm::unwrap(ab), c), w) && is_shape(ix::broadcast_shape(a, nm::unwrap(bc)), w), cd, 2);
        auto r = ix::broadcast_shape(a,b,c);
        if (nm::has_value(r)) OBLIGE("C06.enum3.broadcasting_with_the_result_changes_nothing", is_shape(ix::broadcast_shape(nm::unwrap(r), a), w) && is_shape(ix::broadcast_shape(b, nm::unwrap(r)), w) && is_shape(ix::broadcast_shape(nm::unwrap(r), nm::unwrap(r)), w), cd, 3);
    } else {
        OBLIGE("C06.enum3.incompatible_shapes_fail|C15.enum3.broadcast_shape.nothing_when_numpy_raises", !nm::has_value(ix::broadcast_shape(a,b,c)) && !nm::has_value(ix::broadcast_shape(c,b,a)) && !nm::has_value(ix::broadcast_shape(b,a,c)), cd, 4);
    }
}
template <size_t RA, size_t CA, size_t RB, size_t CB, size_t RC>
__attribute__((used)) void ob_c06e_triples()
{ for_<ipow(3,RC)>([&](auto CC){ one<RA,CA,RB,CB,RC,CC.value>(); }); }
template <size_t RA, size_t CA, size_t RB, size_t RC, size_t... CB> void emit_cb(std::index_sequence<CB...>) { ((void)&ob_c06e_triples<RA,CA,RB,CB,RC>, ...); }
template <size_t RA, size_t RB, size_t RC, size_t... CA> void emit_ca(std::index_sequence<CA...>) { (emit_cb<RA,CA,RB,RC>(std::make_index_sequence<ipow(3,RB)>{}), ...); }
template <size_t RA, size_t RB, size_t RC> void emit() { emit_ca<RA,RB,RC>(std::make_index_sequence<ipow(3,RA)>{}); }
#ifndef C06E_RA
#define C06E_RA 1
#endif
__attribute__((used)) void c06e_emit() { emit<C06E_RA,1,1>(); emit<C06E_RA,1,2>(); emit<C06E_RA,2,1>(); emit<C06E_RA,2,2>(); }
void ob_c06e_negctl()
{ auto r = ix::broadcast_shape(mkshp<2,(1*3+2)>(), mkshp<1,1>(), mkshp<1,2>()); NEGCTL("C06.NEG.enum3_2_and_3_broadcast|C15.NEG.enum3_2_and_3_broadcast", nm::has_value(r), 0); }
