// C03 (view level, constant shapes, symbolic element values): every rearranging view has NumPy's shape and, at every index, NumPy's element.
// The expected element is written from NumPy's definition in terms of the SOURCE array's own operator().
#include "cview.hpp"
#define HV_ID "C03.view.has_value"
#include "nmtools/array/view/flip.hpp"
#include "nmtools/array/view/squeeze.hpp"
#include "nmtools/array/view/atleast_nd.hpp"
#include "nmtools/array/view/atleast_1d.hpp"
#include "nmtools/array/view/atleast_2d.hpp"
#include "nmtools/array/view/reshape.hpp"
#include "nmtools/array/view/flatten.hpp"
#include "nmtools/array/view/transpose.hpp"
#include "nmtools/array/view/moveaxis.hpp"
#include "nmtools/array/view/swapaxes.hpp"
#include "nmtools/array/view/expand_dims.hpp"

constexpr size_t Z = 0;
// ---- flip
void ob_c03g_flip_none(const ARR<2,3,2>& a)
{ PIN(a, 2,3,2); VIEW(v, view::flip(a, nm::None)); EXPECT_VIEW3("C03.view.flip.shape", "C03.view.flip.all_axes_reversed", v, 2,3,2, a(1-i, 2-j, 1-k), 0); }
void ob_c03g_flip_axis1(const ARR<2,3,2>& a)
{ PIN(a, 2,3,2); VIEW(v, view::flip(a, 1)); EXPECT_VIEW3("C03.view.flip.shape", "C03.view.flip.only_the_named_axis_is_reversed", v, 2,3,2, a(i, 2-j, k), 1); }
void ob_c03g_flip_axis_m1(const ARR<2,3,2>& a)
{ PIN(a, 2,3,2); VIEW(v, view::flip(a, -1)); EXPECT_VIEW3("C03.view.flip.shape", "C03.view.flip.only_the_named_axis_is_reversed", v, 2,3,2, a(i, j, 1-k), 2); }
void ob_c03g_flip_axis_m3(const ARR<2,3,2>& a)
{ PIN(a, 2,3,2); VIEW(v, view::flip(a, -3)); EXPECT_VIEW3("C03.view.flip.shape", "C03.view.flip.only_the_named_axis_is_reversed", v, 2,3,2, a(1-i, j, k), 3); }
void ob_c03g_flip_axes02(const ARR<2,3,2>& a)
{ PIN(a, 2,3,2); VIEW(v, view::flip(a, std::array<int,2>{0,2})); EXPECT_VIEW3("C03.view.flip.shape", "C03.view.flip.axis_list", v, 2,3,2, a(1-i, j, 1-k), 4); }
void ob_c03g_flip_axes_neg(const ARR<2,3,2>& a)
{ PIN(a, 2,3,2); VIEW(v, view::flip(a, std::array<int,2>{-2,0})); EXPECT_VIEW3("C03.view.flip.shape", "C03.view.flip.axis_list", v, 2,3,2, a(1-i, 2-j, k), 5); }
void ob_c03g_flip_twice(const ARR<2,3,2>& a)
{ PIN(a, 2,3,2); VIEW(f, view::flip(a, 1)); VIEW(v, view::flip(f, 1)); EXPECT_VIEW3("C03.view.flip.shape", "C03.view.flip.twice_restores", v, 2,3,2, a(i, j, k), 6); }
void ob_c03g_flipud_lr(const ARR<2,3>& a)
{ PIN(a, 2,3);
    { VIEW(v, view::flipud(a)); EXPECT_VIEW2("C03.view.flip.shape", "C03.view.flipud", v, 2,3, a(1-i, j), 7); }
    { VIEW(v, view::fliplr(a)); EXPECT_VIEW2("C03.view.flip.shape", "C03.view.fliplr", v, 2,3, a(i, 2-j), 8); }
}
// ---- squeeze
void ob_c03g_squeeze_131(const ARR<1,3,1>& a)
{ PIN(a, 1,3,1); VIEW(v, view::squeeze(a)); EXPECT_VIEW1("C03.view.squeeze.shape", "C03.view.squeeze.element", v, 3, a(Z, i, Z), 0); }
void ob_c03g_squeeze_212(const ARR<2,1,2>& a)
{ PIN(a, 2,1,2); VIEW(v, view::squeeze(a)); EXPECT_VIEW2("C03.view.squeeze.shape", "C03.view.squeeze.element", v, 2,2, a(i, Z, j), 1); }
void ob_c03g_squeeze_23(const ARR<2,3>& a)
{ PIN(a, 2,3); VIEW(v, view::squeeze(a)); EXPECT_VIEW2("C03.view.squeeze.shape", "C03.view.squeeze.nothing_to_remove", v, 2,3, a(i, j), 2); }
// ---- atleast_nd
void ob_c03g_atleast(const ARR<3>& a, const ARR<2,3>& b)
{ PIN(a, 3); PIN(b, 2,3);
    { VIEW(v, view::atleast_nd(a, meta::ct_v<3>)); EXPECT_VIEW3("C03.view.atleast_nd.shape", "C03.view.atleast_nd.element", v, 1,1,3, a(k), 0); }
    { VIEW(v, view::atleast_2d(a)); EXPECT_VIEW2("C03.view.atleast_nd.shape", "C03.view.atleast_nd.element", v, 1,3, a(j), 1); }
    { VIEW(v, view::atleast_1d(b)); EXPECT_VIEW2("C03.view.atleast_nd.shape", "C03.view.atleast_nd.already_enough_axes", v, 2,3, b(i,j), 2); }
    { VIEW(v, view::atleast_nd(b, meta::ct_v<3>)); EXPECT_VIEW3("C03.view.atleast_nd.shape", "C03.view.atleast_nd.element", v, 1,2,3, b(j,k), 3); }
}
// ---- reshape / flatten keep C order
void ob_c03g_reshape(const ARR<2,3,2>& a)
{ PIN(a, 2,3,2);
    { VIEW(v, view::reshape(a, cshape<3,4>{})); EXPECT_VIEW2("C03.view.reshape.shape", "C03.view.reshape.c_order", v, 3,4, a((i*4+j)/6, ((i*4+j)/2)%3, (i*4+j)%2), 0); }
    { VIEW(v, view::reshape(a, std::array<int,2>{4,3})); EXPECT_VIEW2("C03.view.reshape.shape", "C03.view.reshape.c_order", v, 4,3, a((i*3+j)/6, ((i*3+j)/2)%3, (i*3+j)%2), 1); }
    { VIEW(v, view::flatten(a)); EXPECT_VIEW1("C03.view.flatten.shape", "C03.view.flatten.c_order", v, 12, a(i/6, (i/2)%3, i%2), 2); }
}
void ob_c03g_reshape_minus1(const ARR<2,3,2>& a)
{ PIN(a, 2,3,2);
    { VIEW(v, view::reshape(a, std::array<int,2>{-1,4})); EXPECT_VIEW2("C03.view.reshape.inferred_extent_shape", "C03.view.reshape.c_order", v, 3,4, a((i*4+j)/6, ((i*4+j)/2)%3, (i*4+j)%2), 3); }
    { VIEW(v, view::reshape(a, std::array<int,3>{2,-1,3})); EXPECT_VIEW3("C03.view.reshape.inferred_extent_shape", "C03.view.reshape.c_order", v, 2,2,3, a((i*6+j*3+k)/6, ((i*6+j*3+k)/2)%3, (i*6+j*3+k)%2), 4); }
}
// ---- transpose / moveaxis / swapaxes
void ob_c03g_transpose(const ARR<2,3,4>& a)
{ PIN(a, 2,3,4);
    { VIEW(v, view::transpose(a)); EXPECT_VIEW3("C03.view.transpose.shape", "C03.view.transpose.default_reverses", v, 4,3,2, a(k, j, i), 0); }
    { VIEW(v, view::transpose(a, std::array<int,3>{1,2,0})); EXPECT_VIEW3("C03.view.transpose.shape", "C03.view.transpose.out_axis_n_is_source_axis_axes_n", v, 3,4,2, a(k, i, j), 1); }
    { VIEW(v, view::transpose(a, nmtools_tuple{meta::ct_v<2>, meta::ct_v<0>, meta::ct_v<1>})); EXPECT_VIEW3("C03.view.transpose.shape", "C03.view.transpose.out_axis_n_is_source_axis_axes_n", v, 4,2,3, a(j, k, i), 2); }
}
void ob_c03g_transpose_inverse(const ARR<2,3,4>& a)
{ PIN(a, 2,3,4);
    VIEW(t, view::transpose(a, std::array<int,3>{1,2,0}));
    VIEW(v, view::transpose(t, std::array<int,3>{2,0,1}));
    EXPECT_VIEW3("C03.view.transpose.shape", "C03.view.transpose.inverse_permutation_restores", v, 2,3,4, a(i, j, k), 3);
}
void ob_c03g_moveaxis(const ARR<2,3,4>& a)
{ PIN(a, 2,3,4);
    { VIEW(v, view::moveaxis(a, 0, -1)); EXPECT_VIEW3("C03.view.moveaxis.shape", "C03.view.moveaxis.element", v, 3,4,2, a(k, i, j), 0); }
    { VIEW(v, view::moveaxis(a, -1, 0)); EXPECT_VIEW3("C03.view.moveaxis.shape", "C03.view.moveaxis.element", v, 4,2,3, a(j, k, i), 1); }
    { VIEW(v, view::moveaxis(a, 1, 1)); EXPECT_VIEW3("C03.view.moveaxis.shape", "C03.view.moveaxis.same_position_is_identity", v, 2,3,4, a(i, j, k), 2); }
}
void ob_c03g_swapaxes(const ARR<2,3,4>& a)
{ PIN(a, 2,3,4);
    { VIEW(v, view::swapaxes(a, 0, 2)); EXPECT_VIEW3("C03.view.swapaxes.shape", "C03.view.swapaxes.element", v, 4,3,2, a(k, j, i), 0); }
    { VIEW(v, view::swapaxes(a, -1, 1)); EXPECT_VIEW3("C03.view.swapaxes.shape", "C03.view.swapaxes.element", v, 2,4,3, a(i, k, j), 1); }
}
// ---- expand_dims
void ob_c03g_expand_dims(const ARR<2,3>& a)
{ PIN(a, 2,3);
    { VIEW(v, view::expand_dims(a, 1)); EXPECT_VIEW3("C03.view.expand_dims.shape", "C03.view.expand_dims.element", v, 2,1,3, a(i, k), 0); }
    { VIEW(v, view::expand_dims(a, -1)); EXPECT_VIEW3("C03.view.expand_dims.shape", "C03.view.expand_dims.element", v, 2,3,1, a(i, j), 1); }
    { VIEW(v, view::expand_dims(a, std::array<int,2>{0,2})); EXPECT_VIEW4("C03.view.expand_dims.shape", "C03.view.expand_dims.element", v, 1,2,1,3, a(j, l), 2); }
}
void ob_c03g_negctl(const ARR<2,3,4>& a)
{ PIN(a, 2,3,4);
    VIEW(v, view::transpose(a, std::array<int,3>{1,2,0}));
    NEGCTL("C03.NEG.transpose_uses_the_inverse_permutation", (long)v(0,1,1) == a(1,1,0), 0);
}
