// C02 clause (c) (+C03 shape laws): shape-growing index functions on bounded shapes that FILL their capacity -
// the result container must have room for every extent (its reported length is the required one) and hold NumPy's shape.
#include "common.hpp"
#include "nmtools/array/index/expand_dims.hpp"
#include "nmtools/array/index/atleast_nd.hpp"
#include "nmtools/array/index/insert_index.hpp"
using namespace ob;
template <size_t C> using svf = nmtools::utl::static_vector<size_t,C>;

// ---- shape_expand_dims(shape, axis): len R+1, 1 inserted at the normalised axis, other extents in order
template <size_t R, int AXIS, size_t C>
void ob_c02_expand_dims(const svf<C>& shape, int axis)
{
    ASSUME(shape.size() == R); ASSUME(axis == AXIS);
    constexpr size_t pos = (size_t)(AXIS < 0 ? AXIS + (int)R + 1 : AXIS);
    auto r = ix::shape_expand_dims(shape, axis);
    if constexpr (meta::is_maybe_v<decltype(r)>) {
        OBLIGE("C02.expand_dims.valid|C15.expand_dims.value_when_in_range", static_cast<bool>(r), R, AXIS+10, C);
        if (r) {
            OBLIGE("C02.expand_dims.result_holds_all_extents|C03.expand_dims.dim", (size_t)nm::len(*r) == R+1, R, AXIS+10, C);
            for_<R+1>([&](auto I){
                if constexpr (I.value == pos) OBLIGE("C03.expand_dims.one_at_axis", (size_t)nm::at(*r, I.value) == 1, R, AXIS+10, C, I.value);
                else OBLIGE("C03.expand_dims.other_extents_in_order", (size_t)nm::at(*r, I.value) == (size_t)rd<(I.value < pos ? I.value : I.value-1)>(shape), R, AXIS+10, C, I.value);
            });
        }
    } else {
        OBLIGE("C02.expand_dims.result_holds_all_extents|C03.expand_dims.dim", (size_t)nm::len(r) == R+1, R, AXIS+10, C);
        for_<R+1>([&](auto I){
            if constexpr (I.value == pos) OBLIGE("C03.expand_dims.one_at_axis", (size_t)nm::at(r, I.value) == 1, R, AXIS+10, C, I.value);
            else OBLIGE("C03.expand_dims.other_extents_in_order", (size_t)nm::at(r, I.value) == (size_t)rd<(I.value < pos ? I.value : I.value-1)>(shape), R, AXIS+10, C, I.value);
        });
    }
}
// ---- shape_atleast_nd(shape, nd): left-padded with ones up to nd
template <size_t R, size_t ND, size_t C>
void ob_c02_atleast_nd(const svf<C>& shape)
{
    ASSUME(shape.size() == R);
    constexpr size_t RR = (R > ND ? R : ND);
    auto r = ix::shape_atleast_nd(shape, meta::ct_v<ND>);   // (a run-time nd selects a heap container: not reachable for E1)
    OBLIGE("C02.atleast_nd.result_holds_all_extents|C03.atleast_nd.dim", (size_t)nm::len(r) == RR, R, ND, C);
    for_<RR>([&](auto I){
        if constexpr (I.value < RR-R) OBLIGE("C03.atleast_nd.padded_with_ones", (size_t)nm::at(r, I.value) == 1, R, ND, C, I.value);
        else OBLIGE("C03.atleast_nd.extents_in_order", (size_t)nm::at(r, I.value) == (size_t)rd<I.value-(RR-R)>(shape), R, ND, C, I.value);
    });
}
void ob_c02_capacity_negctl(const svf<4>& shape, int axis)
{
    ASSUME(shape.size() == 2); ASSUME(axis == 0);
    auto r = ix::shape_expand_dims(shape, axis);
    NEGCTL("C02.NEG.expand_dims_keeps_len|C03.NEG.expand_dims_keeps_len", (size_t)nm::len(nm::unwrap(r)) == 2, 0);
}
#define ED(R,A,C) template void ob_c02_expand_dims<R,A,C>(const svf<C>&, int);
ED(1,0,1) ED(1,1,1) ED(2,0,2) ED(2,1,2) ED(2,-1,2) ED(3,1,3) ED(3,-1,3) ED(2,0,4) ED(3,2,4)
#define AN(R,ND,C) template void ob_c02_atleast_nd<R,ND,C>(const svf<C>&);
AN(1,2,1) AN(2,3,2) AN(2,1,2) AN(1,3,4) AN(3,4,3)
