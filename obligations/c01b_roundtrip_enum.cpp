// C01 (exhaustive over small shapes): the clauses that follow from the stride / offset / indices formulas only through the mixed-radix theorem -
// which LLVM does not discharge symbolically - are decided here for EVERY shape with extents 1..3 at ranks 1..3 (and extents 1..2 at rank 4):
//   * unravel then ravel is the identity on every offset below the element count, ravel then unravel on every multi-index inside the shape;
//   * ndindex(shape)[k] is the unravelling of k: consecutive positions are consecutive in row-major (lexicographic) order, the first is all
//     zeros, the last is (e0-1, .., er-1), ndindex(shape).size() is the element count.
// The functions depend on the shape and the offset only; with these as constants every call folds. Two container kinds: fixed array and
// bounded run-time-length static_vector (the library's run-time-loop branches).
#include "common.hpp"
#include "nmtools/array/index/compute_strides.hpp"
#include "nmtools/array/index/compute_offset.hpp"
#include "nmtools/array/index/compute_indices.hpp"
#include "nmtools/array/index/ndindex.hpp"
#include "nmtools/array/index/product.hpp"
using namespace ob;
constexpr size_t ipow(size_t b, size_t r) { size_t p = 1; for (size_t i = 0; i < r; i++) p *= b; return p; }
template <size_t B> constexpr size_t ext(size_t code, size_t rank, size_t axis) { size_t c = code; for (size_t i = axis + 1; i < rank; i++) c /= B; return c % B + 1; }
template <size_t B> constexpr size_t numel(size_t code, size_t rank) { size_t n = 1; for (size_t i = 0; i < rank; i++) n *= ext<B>(code, rank, i); return n; }
template <size_t B> constexpr size_t digit(size_t off, size_t code, size_t rank, size_t axis) { size_t st = 1; for (size_t i = axis + 1; i < rank; i++) st *= ext<B>(code, rank, i); return (off / st) % ext<B>(code, rank, axis); }

template <class K, size_t R, size_t B, size_t C>
__attribute__((always_inline)) inline auto mk_shape()
{
    if constexpr (std::is_same_v<K,k_std>) { std::array<size_t,R> s{}; for_<R>([&](auto I){ s[I.value] = ext<B>(C, R, I.value); }); return s; }
    else { nmtools::utl::static_vector<size_t,4> s; s.resize(R); for_<R>([&](auto I){ s[I.value] = ext<B>(C, R, I.value); }); return s; }
}
template <class K, size_t R, size_t B, size_t C>
__attribute__((always_inline)) inline void one()
{
    constexpr size_t N = numel<B>(C, R);
    constexpr long kd = std::is_same_v<K,k_std> ? 0 : 1;
    const auto shape = mk_shape<K,R,B,C>();
    const auto strides = ix::compute_strides(shape);
    OBLIGE("C01.enum.product_is_the_element_count", (size_t)ix::product(shape) == N, kd, R, C);
    const auto all = ix::ndindex(shape);
    OBLIGE("C01.enum.ndindex_size_is_the_element_count", (size_t)all.size() == N, kd, R, C);
    for_<N>([&](auto OFF){
        constexpr size_t off = OFF.value;
        const auto idx = ix::compute_indices(off, shape);
        bool unravel_ok = (size_t)nm::len(idx) == R, walk_ok = true;
        const auto nd = all[off];
        for_<R>([&](auto A){ constexpr size_t want = digit<B>(off, C, R, A.value);
            unravel_ok = unravel_ok && (size_t)nm::at(idx, A.value) == want;
            walk_ok = walk_ok && (size_t)nm::at(nd, A.value) == want; });
        OBLIGE("C01.enum.unravel_is_the_mixed_radix_digits", unravel_ok, kd, R, C, off);
        OBLIGE("C01.enum.ravel_of_unravel_is_the_identity", (size_t)ix::compute_offset(idx, strides) == off, kd, R, C, off);
        OBLIGE("C01.enum.ndindex_visits_positions_in_row_major_order", walk_ok, kd, R, C, off);
    });
}
template <class K, size_t R, size_t B, size_t C0>
__attribute__((used)) void ob_c01b_shapes()
{ for_<B>([&](auto L){ one<K, R, B, C0 * B + L.value>(); }); }      // the last extent varies inside one function
template <class K, size_t R, size_t B, size_t... C0> void emit_c(std::index_sequence<C0...>) { ((void)&ob_c01b_shapes<K, R, B, C0>, ...); }
template <class K> void emit_k() { emit_c<K,1,3>(std::make_index_sequence<1>{}); emit_c<K,2,3>(std::make_index_sequence<3>{}); emit_c<K,3,3>(std::make_index_sequence<9>{}); emit_c<K,4,2>(std::make_index_sequence<8>{}); }
__attribute__((used)) void c01b_emit() { emit_k<k_std>(); emit_k<k_sv>(); }
void ob_c01b_negctl()
{ std::array<size_t,2> s{3,2}; auto idx = ix::compute_indices((size_t)4, s); NEGCTL("C01.NEG.unravel_is_column_major", (size_t)nm::at(idx,0) == 1, 0); }
