// C07 / C06 (constant small shapes, symbolic integer elements): the element of an element-wise view at index i IS the scalar operation
// applied to the operands' elements at i under NumPy broadcasting - stretched axes read index 0, missing leading axes are dropped -
// and the result has the broadcast shape. Stated for a non-commutative operation (subtract: operand order), a comparison, a unary
// function, the ternary functions (where, clip), scalar operands, view operands and the outer variant.
#include "bcastob.hpp"
// ---- binary, rank-2 result (R0,R1)
template <size_t R0, size_t R1, class A, class B>
void ob_c07_bin2(const A& a, const B& b, int tag)
{
    {
        auto v = nm::unwrap(view::subtract(raw(a), raw(b)));
        auto shp = nm::shape(v);
        OBLIGE("C07.binary.result_has_the_broadcast_shape|C06.binary.result_has_the_broadcast_shape", (size_t)nm::len(shp) == 2 && (size_t)nm::at(shp, meta::ct_v<0>) == R0 && (size_t)nm::at(shp, meta::ct_v<1>) == R1, R0, R1, tag);
        for_<R0>([&](auto I){ for_<R1>([&](auto J){
            OBLIGE("C07.binary.element_is_op_of_broadcast_operands_in_order|C06.binary.element_reads_the_broadcast_source", (long)v(I.value, J.value) == rd2(a, I.value, J.value) - rd2(b, I.value, J.value), R0*10+R1, tag, I.value, J.value);
        }); });
    }
    {
        auto v = nm::unwrap(view::less(raw(a), raw(b)));
        for_<R0>([&](auto I){ for_<R1>([&](auto J){
            OBLIGE("C07.comparison.element", (bool)v(I.value, J.value) == (rd2(a, I.value, J.value) < rd2(b, I.value, J.value)), R0*10+R1, tag, I.value, J.value);
        }); });
    }
}
// ---- binary, rank-3 result
template <size_t R0, size_t R1, size_t R2, class A, class B>
void ob_c07_bin3(const A& a, const B& b, int tag)
{
    auto v = nm::unwrap(view::subtract(raw(a), raw(b)));
    auto shp = nm::shape(v);
    OBLIGE("C07.binary.result_has_the_broadcast_shape|C06.binary.result_has_the_broadcast_shape", (size_t)nm::len(shp) == 3 && (size_t)nm::at(shp, meta::ct_v<0>) == R0 && (size_t)nm::at(shp, meta::ct_v<1>) == R1 && (size_t)nm::at(shp, meta::ct_v<2>) == R2, R0*100+R1*10+R2, tag);
    for_<R0>([&](auto I){ for_<R1>([&](auto J){ for_<R2>([&](auto K){
        OBLIGE("C07.binary.element_is_op_of_broadcast_operands_in_order|C06.binary.element_reads_the_broadcast_source", (long)v(I.value, J.value, K.value) == rd3(a, I.value, J.value, K.value) - rd3(b, I.value, J.value, K.value), R0*100+R1*10+R2, tag, I.value*10+J.value, K.value);
    }); }); });
}
// ---- unary
template <size_t R0, size_t R1>
void ob_c07_unary(const ARR<R0,R1>& a)
{ PIN(a, R0,R1);
    auto v = nm::unwrap(view::negative(a));
    auto shp = nm::shape(v);
    OBLIGE("C07.unary.shape", (size_t)nm::len(shp) == 2 && (size_t)nm::at(shp, meta::ct_v<0>) == R0 && (size_t)nm::at(shp, meta::ct_v<1>) == R1, R0, R1);
    for_<R0>([&](auto I){ for_<R1>([&](auto J){ OBLIGE("C07.unary.element", (long)v(I.value, J.value) == -a(I.value, J.value), R0*10+R1, I.value, J.value); }); });
}
// ---- a view as operand (transpose of a (3,2) array is (2,3)) and a chained ufunc
void ob_c07_view_operand(const ARR<3,2>& a, const ARR<3>& b)
{ PIN(a, 3,2); PIN(b, 3);
    auto t = nm::unwrap(view::transpose(a));
    auto v = nm::unwrap(view::subtract(t, b));
    for_<2>([&](auto I){ for_<3>([&](auto J){ OBLIGE("C07.view_operand.element", (long)v(I.value, J.value) == a(J.value, I.value) - b(J.value), I.value, J.value); }); });
    auto w = nm::unwrap(view::subtract(b, nm::unwrap(view::add(t, b))));
    for_<2>([&](auto I){ for_<3>([&](auto J){ OBLIGE("C07.chained.element", (long)w(I.value, J.value) == b(J.value) - (a(J.value, I.value) + b(J.value)), I.value, J.value); }); });
}
// ---- outer variant: shape(a)+shape(b), element (i,j) = op(a[i], b[j])
template <size_t A0, size_t A1, size_t B0>
void ob_c07_outer(const ARR<A0,A1>& a, const ARR<B0>& b)
{ PIN(a, A0,A1); PIN(b, B0);
    auto v = nm::unwrap(view::outer_subtract(a, b));
    auto shp = nm::shape(v);
    OBLIGE("C07.outer.shape_is_the_concatenation", (size_t)nm::len(shp) == 3 && (size_t)nm::at(shp, meta::ct_v<0>) == A0 && (size_t)nm::at(shp, meta::ct_v<1>) == A1 && (size_t)nm::at(shp, meta::ct_v<2>) == B0, A0, A1, B0);
    for_<A0>([&](auto I){ for_<A1>([&](auto J){ for_<B0>([&](auto K){
        OBLIGE("C07.outer.element", (long)v(I.value, J.value, K.value) == a(I.value, J.value) - b(K.value), A0*100+A1*10+B0, I.value*10+J.value, K.value);
    }); }); });
}
// instantiations: one function per operand-shape combination
void ob_c07_bin2_1(const ARR<2,3>& a, const ARR<3>& b) { PIN(a, 2,3); PIN(b, 3); ob_c07_bin2<2,3>(OP<2,3>(a), OP<3>(b), 1); }
void ob_c07_bin2_2(const ARR<3>& a, const ARR<2,3>& b) { PIN(a, 3); PIN(b, 2,3); ob_c07_bin2<2,3>(OP<3>(a), OP<2,3>(b), 2); }   // rank extension on the LEFT operand
void ob_c07_bin2_3(const ARR<2,1>& a, const ARR<1,3>& b) { PIN(a, 2,1); PIN(b, 1,3); ob_c07_bin2<2,3>(OP<2,1>(a), OP<1,3>(b), 3); }
void ob_c07_bin2_4(const ARR<1,3>& a, const ARR<2,1>& b) { PIN(a, 1,3); PIN(b, 2,1); ob_c07_bin2<2,3>(OP<1,3>(a), OP<2,1>(b), 4); }
void ob_c07_bin2_5(const ARR<2,2>& a, long b) { PIN(a, 2,2); ob_c07_bin2<2,2>(OP<2,2>(a), b, 5); }   // scalar operand right
void ob_c07_bin2_6(long a, const ARR<2,2>& b) { PIN(b, 2,2); ob_c07_bin2<2,2>(a, OP<2,2>(b), 6); }   // scalar operand left
void ob_c07_bin2_7(const ARR<3,1>& a, const ARR<3>& b) { PIN(a, 3,1); PIN(b, 3); ob_c07_bin2<3,3>(OP<3,1>(a), OP<3>(b), 7); }
void ob_c07_bin2_8(const ARR<1,1>& a, const ARR<2,2>& b) { PIN(a, 1,1); PIN(b, 2,2); ob_c07_bin2<2,2>(OP<1,1>(a), OP<2,2>(b), 8); }
void ob_c07_bin3_1(const ARR<2,1,2>& a, const ARR<3,1>& b) { PIN(a, 2,1,2); PIN(b, 3,1); ob_c07_bin3<2,3,2>(OP<2,1,2>(a), OP<3,1>(b), 1); }   // size-1 middle axis
#ifdef VERIF_THOROUGH
// needs the last source-level pipeline (25 s more)
void ob_c07_bin3_2(const ARR<2>& a, const ARR<2,3,2>& b) { PIN(a, 2); PIN(b, 2,3,2); ob_c07_bin3<2,3,2>(OP<2>(a), OP<2,3,2>(b), 2); }
#endif
void ob_c07_bin3_3(const ARR<2,1,1>& a, const ARR<1,2,3>& b) { PIN(a, 2,1,1); PIN(b, 1,2,3); ob_c07_bin3<2,2,3>(OP<2,1,1>(a), OP<1,2,3>(b), 3); }
void ob_c07_bin3_4(const ARR<1,2,2>& a, const ARR<2,1,2>& b) { PIN(a, 1,2,2); PIN(b, 2,1,2); ob_c07_bin3<2,2,2>(OP<1,2,2>(a), OP<2,1,2>(b), 4); }
template void ob_c07_unary<2,3>(const ARR<2,3>&);
template void ob_c07_unary<1,2>(const ARR<1,2>&);
template void ob_c07_outer<2,2,3>(const ARR<2,2>&, const ARR<3>&);
template void ob_c07_outer<1,3,2>(const ARR<1,3>&, const ARR<2>&);

void ob_c07b_negctl(const ARR<2,1>& a, const ARR<1,3>& b)
{ PIN(a, 2,1); PIN(b, 1,3);
    auto v = nm::unwrap(view::subtract(a, b));
    NEGCTL("C07.NEG.operands_swapped", (long)v(1, 2) == b(0, 2) - a(1, 0), 0);
}
