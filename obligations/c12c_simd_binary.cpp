// C12 part 2 (element-wise binary, 2-d broadcast, outer) - see c12b_simd_eval.cpp.
// C12 (value level, integer elements, the compiler-vector-extension back end): evaluating add.reduce / multiply.reduce / add / negative of
// a fixed-buffer array whose element VALUES are symbols with a SIMD context yields the shape and, at every index, the value the
// definition gives. Integer addition / multiplication are associative and commutative modulo 2^32, so "equal up to re-association" is
// plain equality here and LLVM can decide it after folding the evaluator (enumerators, packs, tails) for the stated shapes.
// What this adds to c12_enum (which decides the enumerators in isolation): the EVALUATOR's own decisions - which enumerator it picks for
// which axis, how it seeds the output, how it treats tails and unit extents.
// E1-PREFER: clang-O2-novec-scalarized
#include "cview.hpp"
#include "nmtools/array/eval/simd/vector_128.hpp"
#include "nmtools/array/eval/simd/vector_256.hpp"
#ifndef C12_CTX
#define C12_CTX simd::vector_128
#endif
#include "nmtools/array/eval/simd/ufunc.hpp"
#include "nmtools/array/array/ufuncs/add.hpp"
#include "nmtools/array/array/ufuncs/multiply.hpp"
#include "nmtools/array/array/ufuncs/subtract.hpp"
#include "nmtools/array/array/ufuncs/sqrt.hpp"
#include "nmtools/array/array/ufuncs/floor.hpp"
#include "nmtools/array/array/ufuncs/ceil.hpp"
#include "nmtools/array/array/activations/leaky_relu.hpp"
#include "nmtools/array/array/activations/prelu.hpp"
#include "nmtools/array/array/activations/hardshrink.hpp"
#include "nmtools/array/array/activations/softshrink.hpp"
#include <cmath>
#include "nmtools/utility/unwrap.hpp"
namespace simd = na::simd; using nm::None;
template <size_t... E> using iarr = na::ndarray_t<std::array<int,(E * ... * 1)>, std::array<size_t,sizeof...(E)>>;
#define PINSHAPE(a, ...) cv::assume_shape<__VA_ARGS__>(a)


// ---- element-wise binary ops, 1-d, every element count N (packs + tail): shape (N), element i = lhs[i] op rhs[i]; float results are
// bit-identical (the lane operation is the scalar operation)
#ifdef C12C_OUTPUT_FORM
// run-time shapes, the result written into a caller-provided fixed-buffer array (the eager functions' `output` argument)
template <class T, size_t... E> using tarr = na::ndarray_t<std::array<T,(E * ... * 1)>, std::array<size_t,sizeof...(E)>>;
#define PINT(a, ...) cv::assume_shape<__VA_ARGS__>(a)
#else
// compile-time shapes: the evaluator allocates a fixed-buffer result
template <class T, size_t... E> using tarr = na::ndarray_t<std::array<T,(E * ... * 1)>, cshape<E...>>;
#define PINT(a, ...) (void)0
#endif
template <class T> __attribute__((always_inline)) inline bool same_val(T x, T y) { if constexpr (std::is_floating_point_v<T>) return __builtin_memcmp(&x, &y, sizeof(T)) == 0; else return x == y; }
template <class T, size_t N, int OP>
void ob_c12c_binary1(const tarr<T,N>& a, const tarr<T,N>& b)
{
    PINT(a, N); PINT(b, N);
    auto mr = [&](){ if constexpr (OP == 0) return na::add(a, b, C12_CTX); else if constexpr (OP == 1) return na::multiply(a, b, C12_CTX); else return na::subtract(a, b, C12_CTX); }();
    constexpr long tag = (long)sizeof(T) * 10 + (std::is_floating_point_v<T> ? 1 : 0);
    OBLIGE("C12.eval.has_value", nm::has_value(mr), tag, N, OP);
    auto r = nm::unwrap(mr);
    OBLIGE("C12.eval.binary.shape", cv::shape_is<N>(r), tag, N, OP);
    if (cv::shape_is<N>(r))
        for_<N>([&](auto I){
            const T x = a(I.value), y = b(I.value); const T want = OP == 0 ? (T)(x + y) : OP == 1 ? (T)(x * y) : (T)(x - y);
            OBLIGE("C12.eval.binary.element_is_the_scalar_operation_on_the_pair", same_val<T>((T)r(I.value), want), tag, N, OP*100 + I.value);
        });
}
// ---- 2-d broadcast binary: out (R,C), lhs (LR,LC), rhs (RR,RC), each operand extent either the output's or 1. Run-time shapes (the
// enumerator-driven path of the evaluator), the result written into a caller-provided fixed-buffer array (the `output` argument)
template <class T, size_t... E> using rarr = na::ndarray_t<std::array<T,(E * ... * 1)>, std::array<size_t,sizeof...(E)>>;
template <class T, size_t R, size_t C, size_t LR, size_t LC, size_t RR, size_t RC>
void ob_c12c_binary2(const rarr<T,LR,LC>& a, const rarr<T,RR,RC>& b, const rarr<T,R,C>& out_)
{
    auto out = out_;   // a local copy: the evaluator's stores cannot alias the operands
    cv::assume_shape<LR,LC>(a); cv::assume_shape<RR,RC>(b); cv::assume_shape<R,C>(out);
    constexpr long tag = R*100000 + C*10000 + LR*1000 + LC*100 + RR*10 + RC;
    auto ok = na::add(a, b, C12_CTX, out);
    OBLIGE("C12.eval.has_value", nm::has_value(ok), tag, sizeof(T));
    for_<R>([&](auto I){ for_<C>([&](auto J){
        const T want = (T)(a(LR == 1 ? 0 : I.value, LC == 1 ? 0 : J.value) + b(RR == 1 ? 0 : I.value, RC == 1 ? 0 : J.value));
        OBLIGE("C12.eval.broadcast.element_pairs_the_broadcast_partners", same_val<T>((T)out(I.value, J.value), want), tag, sizeof(T), I.value*10 + J.value);
    }); });
}
// ---- outer (run-time shapes, result written into a caller-provided array)
template <class T, size_t NA, size_t NB>
void ob_c12c_outer(const rarr<T,NA>& a, const rarr<T,NB>& b, const rarr<T,NA,NB>& out_)
{
    auto out = out_;
    cv::assume_shape<NA>(a); cv::assume_shape<NB>(b); cv::assume_shape<NA,NB>(out);
    auto ok = na::multiply.outer(a, b, None, C12_CTX, out);
    OBLIGE("C12.eval.has_value", nm::has_value(ok), NA, NB);
    for_<NA>([&](auto I){ for_<NB>([&](auto J){
        OBLIGE("C12.eval.outer.element_is_lhs_i_op_rhs_j", same_val<T>((T)out(I.value, J.value), (T)(a(I.value) * b(J.value))), NA, NB, I.value*10+J.value, sizeof(T));
    }); });
}
// ---- unary ops (sqrt / floor / ceil): element i is the scalar function of element i, bit for bit (compiled with -fno-math-errno so that
// the two calls of the same libm function on the same argument are one value for LLVM)
template <class T, size_t N, int OP>
void ob_c12c_unary(const tarr<T,N>& a)
{
    PINT(a, N);
    auto mr = [&](){ if constexpr (OP == 0) return na::sqrt(a, C12_CTX); else if constexpr (OP == 1) return na::floor(a, C12_CTX); else return na::ceil(a, C12_CTX); }();
    constexpr long tag = (long)sizeof(T) * 10 + OP;
    OBLIGE("C12.eval.has_value", nm::has_value(mr), tag, N);
    auto r = nm::unwrap(mr);
    OBLIGE("C12.eval.unary.shape", cv::shape_is<N>(r), tag, N);
    if (cv::shape_is<N>(r))
        for_<N>([&](auto I){
            const T x = a(I.value); const T want = OP == 0 ? std::sqrt(x) : OP == 1 ? std::floor(x) : std::ceil(x);
            OBLIGE("C12.eval.unary.element_is_the_scalar_function_of_the_element", same_val<T>((T)r(I.value), want), tag, N, I.value);
        });
}
// ---- activations with a parameter: the SIMD result is, bit for bit, the result of the default (scalar) evaluator on the same operands
// (the oracle is the library's own scalar path: this is the property's statement, not a re-derived formula)
template <class T, size_t N, int OP>
void ob_c12c_activation(const tarr<T,N>& a, T p)
{
    PINT(a, N);
    constexpr long tag = (long)sizeof(T) * 10 + OP;
    auto ms = [&](){ if constexpr (OP == 0) return na::leaky_relu(a, p); else if constexpr (OP == 1) return na::prelu(a, p); else if constexpr (OP == 2) return na::hardshrink(a, p); else return na::softshrink(a, p); }();
    auto mr = [&](){ if constexpr (OP == 0) return na::leaky_relu(a, p, C12_CTX); else if constexpr (OP == 1) return na::prelu(a, p, C12_CTX); else if constexpr (OP == 2) return na::hardshrink(a, p, C12_CTX); else return na::softshrink(a, p, C12_CTX); }();
    OBLIGE("C12.eval.has_value", nm::has_value(mr) && nm::has_value(ms), tag, N);
    auto r = nm::unwrap(mr); auto sc = nm::unwrap(ms);
    OBLIGE("C12.eval.activation.shape", cv::shape_is<N>(r) && cv::shape_is<N>(sc), tag, N);
    if (cv::shape_is<N>(r) && cv::shape_is<N>(sc))
        for_<N>([&](auto I){ OBLIGE("C12.eval.activation.simd_element_is_the_scalar_evaluators_element", same_val<T>((T)r(I.value), (T)sc(I.value)), tag, N, I.value); });
}
#define A1(T,N,OP) template void ob_c12c_activation<T,N,OP>(const tarr<T,N>&, T);
#define U1(T,N,OP) template void ob_c12c_unary<T,N,OP>(const tarr<T,N>&);
#define B1(T,N,OP) template void ob_c12c_binary1<T,N,OP>(const tarr<T,N>&, const tarr<T,N>&);
#define B2(T,R,C,LR,LC,RR,RC) template void ob_c12c_binary2<T,R,C,LR,LC,RR,RC>(const rarr<T,LR,LC>&, const rarr<T,RR,RC>&, const rarr<T,R,C>&);
#define OTT(T,NA,NB) template void ob_c12c_outer<T,NA,NB>(const rarr<T,NA>&, const rarr<T,NB>&, const rarr<T,NA,NB>&);
#define OT(NA,NB) OTT(int,NA,NB)
#ifndef C12C_NO_INSTANCES
A1(float,5,0) A1(float,9,1) A1(float,5,2) A1(double,3,0) A1(double,5,1) A1(double,3,2)
// (softshrink is not stated: for a NaN element the packed path keeps NaN - every comparison is false - while the scalar definition
//  yields 0, so the two paths are not bit-identical there; relu / relu6 differ likewise for NaN and -0.0 (fmax vs a comparison).
//  These IEEE corner cases are recorded in DESIGN 8.12, not claimed either way.)
U1(float,1,0) U1(float,5,0) U1(float,9,1) U1(float,4,2) U1(double,3,0) U1(double,5,1) U1(double,2,2)
B1(int,1,0) B1(int,3,0) B1(int,4,1) B1(int,5,2) B1(int,9,0) B1(float,1,0) B1(float,4,0) B1(float,5,1) B1(float,7,2) B1(float,9,0) B1(double,1,0) B1(double,3,1) B1(double,5,0)
B2(int,2,5,2,5,1,5) B2(int,2,5,1,5,2,5) B2(int,2,5,2,1,2,5) B2(int,2,5,2,5,2,1) B2(int,2,5,1,1,2,5) B2(int,2,5,2,5,1,1) B2(int,2,5,2,1,1,5) B2(int,3,4,1,4,3,1) B2(float,2,5,2,1,1,5) B2(float,2,5,1,1,2,5)
OT(2,5) OT(3,4) OT(1,1) OT(2,9)
// (replayed concretely and correct, but beyond what LLVM folds: int multiply N=17, (3,9)+(3,1)x(1,9), (2,4)+(2,1) rhs, float (3,9), outer (4,4), (3,13))
#if defined(VERIF_THOROUGH) && !defined(C12C_NO_39)   /* (3,9) outputs fold with 4 lanes only (replayed: correct with 8 and 16) */
B2(int,3,9,3,9,1,9) B2(int,3,9,1,1,3,9)
#endif
#ifdef VERIF_THOROUGH
B1(int,2,0) B1(int,6,0) B1(int,7,1) B1(int,8,2) B1(int,13,0) B1(int,17,0) B1(float,2,1) B1(float,3,2) B1(float,6,0) B1(float,8,1) B1(float,13,0) B1(float,17,2) B1(double,2,2) B1(double,4,0) B1(double,7,1) B1(double,9,0)
B2(int,2,3,2,3,1,3) B2(int,2,3,2,1,2,3) B2(int,1,5,1,5,1,1) B2(float,2,6,1,6,2,1) B2(double,2,5,2,1,1,5) B2(double,2,3,1,3,2,3)
OT(4,3) OT(5,3) OT(1,9) OT(2,7)
#endif
void ob_c12c_negctl(const tarr<int,5>& a, const tarr<int,5>& b)
{
    auto r = nm::unwrap(na::add(a, b, C12_CTX));
    NEGCTL("C12.NEG.eval_binary_is_lhs", (int)r(4) == a(4), 0);
}
#endif // C12C_NO_INSTANCES
