// C14 (small shapes, symbolic integer elements; constant-shape and run-time-shape kinds): calling a functor - all operands at once or
// curried in any split -, a functor with attributes, a composition f * g (* h) with the remaining operands passed on in order, either
// parenthesisation of a chain, and the position-moving combinators give, at every index, the element of the corresponding direct view
// expression (written here against the operand arrays themselves). subtract / "a*b-c" style chains are order sensitive in every operand.
#include "cview.hpp"
#define HV_ID "C14.functor.has_value"
#include "nmtools/array/functional.hpp"
#include "nmtools/array/functional/combinator.hpp"
#include "nmtools/array/functional/transpose.hpp"
#include "nmtools/array/functional/sum.hpp"
#include "nmtools/array/functional/reshape.hpp"
#include "nmtools/array/functional/ufuncs/add.hpp"
#include "nmtools/array/functional/ufuncs/subtract.hpp"
#include "nmtools/array/functional/ufuncs/multiply.hpp"
#include "nmtools/array/view/ufuncs/add.hpp"
#include "nmtools/array/view/ufuncs/subtract.hpp"
#include "nmtools/array/view/ufuncs/multiply.hpp"
namespace fn = nmtools::functional; namespace cb = nmtools::combinator;
constexpr size_t Z = 0;
#define SHP "C14.functor.shape"

#ifndef C14C_PART
#define C14C_PART 0
#endif
#if C14C_PART == 0 || C14C_PART == 1
void ob_c14c_call_and_curry(const ARR<2,3>& a, const ARR<3>& b)
{ PIN(a, 2,3); PIN(b, 3);
    { VIEW(v, fn::subtract(a, b));   EXPECT_VIEW2(SHP, "C14.functor.call_equals_view", v, 2,3, a(i,j) - b(j), 0); }
    { VIEW(v, fn::subtract(a)(b));   EXPECT_VIEW2(SHP, "C14.functor.curried_call_equals_view", v, 2,3, a(i,j) - b(j), 1); }
    { VIEW(v, fn::subtract(b)(a));   EXPECT_VIEW2(SHP, "C14.functor.curried_call_keeps_operand_order", v, 2,3, b(j) - a(i,j), 2); }
}
void ob_c14c_attributes(const ARR<2,3>& a)
{ PIN(a, 2,3);
    { VIEW(v, fn::transpose[std::array<int,2>{1,0}](a)); EXPECT_VIEW2(SHP, "C14.functor.attribute_then_operand", v, 3,2, a(j,i), 3); }
    { VIEW(v, fn::sum[1](a));            EXPECT_VIEW1(SHP, "C14.functor.attribute_then_operand", v, 2, a(i,Z) + a(i,Z+1) + a(i,Z+2), 4); }
    { VIEW(v, fn::reshape[std::array<int,2>{3,2}](a)); EXPECT_VIEW2(SHP, "C14.functor.attribute_then_operand", v, 3,2, a((i*2+j)/3, (i*2+j)%3), 5); }
    { VIEW(v, (fn::sum[0] * fn::transpose[std::array<int,2>{1,0}])(a)); EXPECT_VIEW1(SHP, "C14.compose.attributes_stay_with_their_functor", v, 2, a(i,Z) + a(i,Z+1) + a(i,Z+2), 6); }
}
// (a*b) - c in every split
void ob_c14c_compose2(const ARR<2,3>& a, const ARR<3>& b, const ARR<2,1>& c)
{ PIN(a, 2,3); PIN(b, 3); PIN(c, 2,1);
    auto f = fn::subtract * fn::multiply;
    { VIEW(v, f(a)(b)(c)); EXPECT_VIEW2(SHP, "C14.compose.f_of_g_then_remaining_operand", v, 2,3, a(i,j)*b(j) - c(i,Z), 10); }
    { VIEW(v, f(a,b)(c));  EXPECT_VIEW2(SHP, "C14.compose.f_of_g_then_remaining_operand", v, 2,3, a(i,j)*b(j) - c(i,Z), 11); }
    { VIEW(v, f(a)(b,c));  EXPECT_VIEW2(SHP, "C14.compose.f_of_g_then_remaining_operand", v, 2,3, a(i,j)*b(j) - c(i,Z), 12); }
    { VIEW(v, f(a,b,c));   EXPECT_VIEW2(SHP, "C14.compose.f_of_g_then_remaining_operand", v, 2,3, a(i,j)*b(j) - c(i,Z), 13); }
    { VIEW(v, f(c,b,a));   EXPECT_VIEW2(SHP, "C14.compose.operand_order", v, 2,3, c(i,Z)*b(j) - a(i,j), 14); }
    { VIEW(v, f(a,b,c)); NEGCTL("C14.NEG.compose_applies_f_first", cv::elem(v, 1, 2) == (a(1,2) - b(2)) * c(1,0), 1); }
}
#endif
#if C14C_PART == 0 || C14C_PART == 2
// ((a+b)*c) - d in every split and either parenthesisation
void ob_c14c_compose3(const ARR<2,3>& a, const ARR<3>& b, const ARR<2,1>& c, const ARR<3>& d)
{ PIN(a, 2,3); PIN(b, 3); PIN(c, 2,1); PIN(d, 3);
    auto f = fn::subtract * fn::multiply * fn::add;
#define WANT3 ((a(i,j)+b(j))*c(i,Z) - d(j))
    { VIEW(v, f(a)(b)(c)(d)); EXPECT_VIEW2(SHP, "C14.compose.three_functors.any_split", v, 2,3, WANT3, 20); }
    { VIEW(v, f(a,b)(c)(d));  EXPECT_VIEW2(SHP, "C14.compose.three_functors.any_split", v, 2,3, WANT3, 21); }
    { VIEW(v, f(a,b)(c,d));   EXPECT_VIEW2(SHP, "C14.compose.three_functors.any_split", v, 2,3, WANT3, 22); }
    { VIEW(v, f(a,b,c)(d));   EXPECT_VIEW2(SHP, "C14.compose.three_functors.any_split", v, 2,3, WANT3, 23); }
    { VIEW(v, f(a)(b)(c,d));  EXPECT_VIEW2(SHP, "C14.compose.three_functors.any_split", v, 2,3, WANT3, 24); }
    { VIEW(v, f(a,b,c,d));    EXPECT_VIEW2(SHP, "C14.compose.three_functors.remaining_operands_in_order", v, 2,3, WANT3, 25); }
    { VIEW(v, f(a)(b,c,d));   EXPECT_VIEW2(SHP, "C14.compose.three_functors.remaining_operands_in_order", v, 2,3, WANT3, 26); }
    auto g = (fn::subtract * fn::multiply) * fn::add;
    auto h = fn::subtract * (fn::multiply * fn::add);
    { VIEW(v, g(a,b,c,d));    EXPECT_VIEW2(SHP, "C14.compose.parenthesisation_does_not_matter", v, 2,3, WANT3, 27); }
    { VIEW(v, h(a,b,c,d));    EXPECT_VIEW2(SHP, "C14.compose.parenthesisation_does_not_matter", v, 2,3, WANT3, 28); }
    { VIEW(v, g(a)(b)(c)(d)); EXPECT_VIEW2(SHP, "C14.compose.parenthesisation_does_not_matter", v, 2,3, WANT3, 29); }
    { VIEW(v, h(a,b)(c,d));   EXPECT_VIEW2(SHP, "C14.compose.parenthesisation_does_not_matter", v, 2,3, WANT3, 30); }
    { VIEW(v, f(a,b,c,d)); NEGCTL("C14.NEG.remaining_operands_reversed", cv::elem(v, 1, 2) == (a(1,2)+b(2))*d(2) - c(1,0), 2); }
}
#endif
#if C14C_PART == 0 || C14C_PART == 3
// position-moving combinators inside a chain
void ob_c14c_combinators(const ARR<2,3>& a, const ARR<3>& b, const ARR<2,1>& c, const ARR<3>& d)
{ PIN(a, 2,3); PIN(b, 3); PIN(c, 2,1); PIN(d, 3);
    { auto f = fn::subtract * cb::swap * fn::multiply;            VIEW(v, f(a,b,c));     EXPECT_VIEW2(SHP, "C14.combinator.swap", v, 2,3, c(i,Z) - a(i,j)*b(j), 40); }
    { auto f = fn::subtract * cb::swap * fn::multiply;            VIEW(v, f(a)(b)(c));   EXPECT_VIEW2(SHP, "C14.combinator.swap", v, 2,3, c(i,Z) - a(i,j)*b(j), 41); }
    { auto f = fn::subtract * fn::multiply * cb::dig2 * fn::add;  VIEW(v, f(a,b,c,d));   EXPECT_VIEW2(SHP, "C14.combinator.dig2", v, 2,3, d(j)*(a(i,j)+b(j)) - c(i,Z), 42); }
    { auto f = fn::subtract * fn::multiply * cb::dig2 * fn::add;  VIEW(v, f(a)(b)(c)(d)); EXPECT_VIEW2(SHP, "C14.combinator.dig2", v, 2,3, d(j)*(a(i,j)+b(j)) - c(i,Z), 43); }
    { auto f = fn::subtract * cb::dup;                            VIEW(v, f(a));         EXPECT_VIEW2(SHP, "C14.combinator.dup", v, 2,3, a(i,j) - a(i,j), 44); }
    { auto f = fn::subtract * fn::multiply * cb::bury2 * fn::add; VIEW(v, f(a,b,c,d));   EXPECT_VIEW2(SHP, "C14.combinator.bury2", v, 2,3, c(i,Z)*d(j) - (a(i,j)+b(j)), 45); }
    { auto f = fn::subtract * fn::multiply; VIEW(v, f(a,b,c)); NEGCTL("C14.NEG.compose_applies_f_first", cv::elem(v, 1, 2) == (a(1,2) - b(2)) * c(1,0), 0); }
}
#endif
