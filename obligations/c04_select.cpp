// C04 (+C02): tile / repeat / roll / take index maps (DESIGN §3 C04)
#include "viewob.hpp"
#include "nmtools/array/view/tile.hpp"
#include "nmtools/array/view/repeat.hpp"
#include "nmtools/array/view/roll.hpp"
using namespace ob;
namespace view = nmtools::view;

// ---- tile(a, reps) with len(reps)==R: shape = shape*reps, src = dst mod shape
template <size_t N, size_t R, class K>
void ob_c04_tile(const arr_fs<float,N,R>& a, const mk_t<K,size_t,R>& reps_, const std::array<size_t,R>& dst_)
{
    const auto dst = dst_; const auto reps = reps_;
    for_<R>([&](auto I){ ASSUME(rd<I.value>(a.shape_) >= 1); });
    auto mv = view::tile(a, reps);
    if constexpr (meta::is_maybe_v<decltype(mv)>) OBLIGE("C04.tile.valid", static_cast<bool>(mv), R, kid<K>);
    if (nm::has_value(mv)) {
        const auto& v = nm::unwrap(mv);
        std::array<size_t,R> eshape{}, esrc{};
        for_<R>([&](auto I){ eshape[I.value] = rd<I.value>(a.shape_) * (size_t)rd<I.value>(reps); esrc[I.value] = dst[I.value] % rd<I.value>(a.shape_); });
        VIEW_OBLIGATIONS("C04","tile", v, a, R, R, dst, eshape, esrc, kid<K>);
    }
}
// ---- tile with more reps than dims: (RR > R) array is promoted by prepending 1s
template <size_t N, size_t R, size_t RR>
void ob_c04_tile_longer(const arr_fs<float,N,R>& a, const std::array<size_t,RR>& reps_, const std::array<size_t,RR>& dst_)
{
    const auto dst = dst_; const auto reps = reps_;
    for_<R>([&](auto I){ ASSUME(rd<I.value>(a.shape_) >= 1); });
    auto mv = view::tile(a, reps);
    if constexpr (meta::is_maybe_v<decltype(mv)>) OBLIGE("C04.tile_longer.valid", static_cast<bool>(mv), R, RR);
    if (nm::has_value(mv)) {
        const auto& v = nm::unwrap(mv);
        std::array<size_t,RR> eshape{}; std::array<size_t,R> esrc{};
        for_<RR>([&](auto I){
            if constexpr (I.value < RR-R) eshape[I.value] = reps[I.value];
            else { eshape[I.value] = rd<I.value-(RR-R)>(a.shape_) * reps[I.value]; esrc[I.value-(RR-R)] = dst[I.value] % rd<I.value-(RR-R)>(a.shape_); }
        });
        VIEW_OBLIGATIONS("C04","tile_longer", v, a, RR, R, dst, eshape, esrc, 0);
    }
}
// ---- repeat(a, r, axis) scalar repeats along a compile-time axis
template <size_t N, size_t R, int AXIS>
void ob_c04_repeat_axis(const arr_fs<float,N,R>& a, size_t r, const std::array<size_t,R>& dst_)
{
    const auto dst = dst_;
    constexpr size_t ax = (size_t)(AXIS < 0 ? AXIS + (int)R : AXIS);
    ASSUME(r >= 1);
    auto mv = view::repeat(a, r, meta::ct_v<AXIS>);
    if constexpr (meta::is_maybe_v<decltype(mv)>) OBLIGE("C04.repeat_axis.valid", static_cast<bool>(mv), R, AXIS+10);
    if (nm::has_value(mv)) {
        const auto& v = nm::unwrap(mv);
        std::array<size_t,R> eshape{}, esrc{};
        for_<R>([&](auto I){
            if constexpr (I.value == ax) { eshape[I.value] = rd<I.value>(a.shape_) * r; esrc[I.value] = dst[I.value] / r; }
            else { eshape[I.value] = rd<I.value>(a.shape_); esrc[I.value] = dst[I.value]; }
        });
        VIEW_OBLIGATIONS_X("C04","repeat_axis", v, a, R, R, dst, eshape, esrc, AXIS+10, ax);
    }
}
// ---- roll(a, shift, axis): dst[i] = src[(i - shift) mod n] on the rolled axis, for ANY shift
template <size_t N, size_t R, int AXIS>
void ob_c04_roll_axis(const arr_fs<float,N,R>& a, int shift, const std::array<size_t,R>& dst_)
{
    const auto dst = dst_;
    constexpr size_t ax = (size_t)(AXIS < 0 ? AXIS + (int)R : AXIS);
    for_<R>([&](auto I){ ASSUME(rd<I.value>(a.shape_) >= 1); ASSUME(rd<I.value>(a.shape_) <= 0x3fffffff); });
    auto mv = view::roll(a, shift, meta::ct_v<AXIS>);
    if constexpr (meta::is_maybe_v<decltype(mv)>) OBLIGE("C04.roll_axis.valid", static_cast<bool>(mv), R, AXIS+10);
    if (nm::has_value(mv)) {
        const auto& v = nm::unwrap(mv);
        auto shp = nm::shape(v);
        for_<R>([&](auto I){ OBLIGE("C04.roll_axis.shape", gx<I.value>(shp)==rd<I.value>(a.shape_), R, AXIS+10, I.value); });
        for_<R>([&](auto I){ ASSUME(dst[I.value] < rd<I.value>(a.shape_)); });
        auto src = v.indexer.indices(dst);
        for_<R>([&](auto J){
            if constexpr (J.value != ax) OBLIGE("C04.roll_axis.other_axes_same", gx<J.value>(src)==dst[J.value], R, AXIS+10, J.value);
        });
        // the rolled axis equals (dst - shift) mod extent for EVERY shift; that value lies in [0,extent)
        // by definition of mod, which is the in-shape clause of C02 for this axis
        int n = (int)rd<ax>(a.shape_);
        ASSUME(shift > -0x3fffffff && shift < 0x3fffffff);
        int d = (int)dst[ax] - shift;        // no overflow: |dst| < 2^30, |shift| < 2^30
        int want = d % n; if (want < 0) want += n;
        OBLIGE("C04.roll_axis.srcidx_mod|C02.roll_axis.srcidx_is_mod", (long)gx<ax>(src) == (long)want, R, AXIS+10);
        std::array<size_t,R> esrc = dst; esrc[ax] = (size_t)want;
        auto e1 = std::apply([&](auto... i){ return v(i...); }, dst);
        auto e2 = std::apply([&](auto... i){ return a(i...); }, esrc);
        OBLIGE("C04.roll_axis.element", same_bits(e1,e2), R, AXIS+10);
    }
}
template <size_t N>
void ob_c04_negctl(const arr_fs<float,N,2>& a, const std::array<size_t,2>& reps_)
{
    const auto reps = reps_;
    auto mv = view::tile(a, reps);
    if (nm::has_value(mv)) { auto shp = nm::shape(nm::unwrap(mv)); NEGCTL("C04.NEG.tile_shape_is_src", gx<0>(shp)==rd<0>(a.shape_), 2); }
}
#define TL(N,R,K) template void ob_c04_tile<N,R,K>(const arr_fs<float,N,R>&, const mk_t<K,size_t,R>&, const std::array<size_t,R>&);
TL(6,1,k_std) TL(12,2,k_std) TL(24,3,k_std) TL(12,2,k_utl)
template void ob_c04_tile_longer<6,1,2>(const arr_fs<float,6,1>&, const std::array<size_t,2>&, const std::array<size_t,2>&);
template void ob_c04_tile_longer<12,2,3>(const arr_fs<float,12,2>&, const std::array<size_t,3>&, const std::array<size_t,3>&);
#define RP(N,R,A) template void ob_c04_repeat_axis<N,R,A>(const arr_fs<float,N,R>&, size_t, const std::array<size_t,R>&);
RP(6,1,0) RP(12,2,0) RP(12,2,1) RP(12,2,-1) RP(24,3,0) RP(24,3,1) RP(24,3,2) RP(24,3,-2)
#define RL(N,R,A) template void ob_c04_roll_axis<N,R,A>(const arr_fs<float,N,R>&, int, const std::array<size_t,R>&);

RL(6,1,0) RL(12,2,0) RL(12,2,1) RL(12,2,-1) RL(24,3,1) RL(24,3,-3)
template void ob_c04_negctl<12>(const arr_fs<float,12,2>&, const std::array<size_t,2>&);
