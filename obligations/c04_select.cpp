// C04 (+C02): tile / repeat / roll / take index maps (DESIGN §3 C04)
#include "viewob.hpp"
#include "nmtools/array/view/tile.hpp"
#include "nmtools/array/view/repeat.hpp"
#include "nmtools/array/view/roll.hpp"
using namespace ob;
namespace view = nmtools::view;

// ---- tile(a, reps) with len(reps)==R: shape = shape*reps, src = dst mod shape
template <size_t N, size_t R, class K>
void ob_c04_tile(const arr_fs<float,N,R>& a, const mk_t<K,size_t,R>& reps_, const std::array<size_t,R>& dst_)
{
    const auto dst = dst_; const auto reps = reps_;
    for_<R>([&](auto I){ ASSUME(rd<I.value>(a.shape_) >= 1); });
    auto mv = view::tile(a, reps);
    if constexpr (meta::is_maybe_v<decltype(mv)>) OBLIGE("C04.tile.valid", static_cast<bool>(mv), R, kid<K>);
    if (nm::has_value(mv)) {
        const auto& v = nm::unwrap(mv);
        std::array<size_t,R> eshape{}, esrc{};
        for_<R>([&](auto I){ eshape[I.value] = rd<I.value>(a.shape_) * (size_t)rd<I.value>(reps); esrc[I.value] = dst[I.value] % rd<I.value>(a.shape_); });
        VIEW_OBLIGATIONS("C04","tile", v, a, R, R, dst, eshape, esrc, kid<K>);
    }
}
// ---- tile with more reps than dims: (RR > R) array is promoted by prepending 1s
template <size_t N, size_t R, size_t RR>
void ob_c04_tile_longer(const arr_fs<float,N,R>& a, const std::array<size_t,RR>& reps_, const std::array<size_t,RR>& dst_)
{
    const auto dst = dst_; const auto reps = reps_;
    for_<R>([&](auto I){ ASSUME(rd<I.value>(a.shape_) >= 1); });
    auto mv = view::tile(a, reps);
    if constexpr (meta::is_maybe_v<decltype(mv)>) OBLIGE("C04.tile_longer.valid", static_cast<bool>(mv), R, RR);
    if (nm::has_value(mv)) {
        const auto& v = nm::unwrap(mv);
        std::array<size_t,RR> eshape{}; std::array<size_t,R> esrc{};
        for_<RR>([&](auto I){
            if constexpr (I.value < RR-R) eshape[I.value] = reps[I.value];
            else { eshape[I.value] = rd<I.value-(RR-R)>(a.shape_) * reps[I.value]; esrc[I.value-(RR-R)] = dst[I.value] % rd<I.value-(RR-R)>(a.shape_); }
        });
        VIEW_OBLIGATIONS("C04","tile_longer", v, a, RR, R, dst, eshape, esrc, 0);
    }
}
// ---- repeat(a, r, axis) scalar repeats along a compile-time axis
template <size_t N, size_t R, int AXIS>
void ob_c04_repeat_axis(const arr_fs<float,N,R>& a, size_t r, const std::array<size_t,R>& dst_)
{
    const auto dst = dst_;
    constexpr size_t ax = (size_t)(AXIS < 0 ? AXIS + (int)R : AXIS);
    ASSUME(r >= 1);
    auto mv = view::repeat(a, r, meta::ct_v<AXIS>);
    if constexpr (meta::is_maybe_v<decltype(mv)>) OBLIGE("C04.repeat_axis.valid", static_cast<bool>(mv), R, AXIS+10);
    if (nm::has_value(mv)) {
        const auto& v = nm::unwrap(mv);
        std::array<size_t,R> eshape{}, esrc{};
        for_<R>([&](auto I){
            if constexpr (I.value == ax) { eshape[I.value] = rd<I.value>(a.shape_) * r; esrc[I.value] = dst[I.value] / r; }
            else { eshape[I.value] = rd<I.value>(a.shape_); esrc[I.value] = dst[I.value]; }
        });
        VIEW_OBLIGATIONS_X("C04","repeat_axis", v, a, R, R, dst, eshape, esrc, AXIS+10, ax);
    }
}
// ---- roll(a, shift, axis): dst[i] = src[(i - shift) mod n] on the rolled axis, for ANY shift
template <size_t N, size_t R, int AXIS>
void ob_c04_roll_axis(const arr_fs<float,N,R>& a, int shift, const std::array<size_t,R>& dst_)
{
    const auto dst = dst_;
    constexpr size_t ax = (size_t)(AXIS < 0 ? AXIS + (int)R : AXIS);
    for_<R>([&](auto I){ ASSUME(rd<I.value>(a.shape_) >= 1); ASSUME(rd<I.value>(a.shape_) <= 0x3fffffff); });
    auto mv = view::roll(a, shift, meta::ct_v<AXIS>);
    if constexpr (meta::is_maybe_v<decltype(mv)>) OBLIGE("C04.roll_axis.valid", static_cast<bool>(mv), R, AXIS+10);
    if (nm::has_value(mv)) {
        const auto& v = nm::unwrap(mv);
        auto shp = nm::shape(v);
        for_<R>([&](auto I){ OBLIGE("C04.roll_axis.shape", gx<I.value>(shp)==rd<I.value>(a.shape_), R, AXIS+10, I.value); });
        for_<R>([&](auto I){ ASSUME(dst[I.value] < rd<I.value>(a.shape_)); });
        auto src = v.indexer.indices(dst);
        for_<R>([&](auto J){
            if constexpr (J.value != ax) OBLIGE("C04.roll_axis.other_axes_same", gx<J.value>(src)==dst[J.value], R, AXIS+10, J.value);
        });
        // the rolled axis equals (dst - shift) mod extent for EVERY shift; that value lies in [0,extent)
        // by definition of mod, which is the in-shape clause of C02 for this axis
        int n = (int)rd<ax>(a.shape_);
        ASSUME(shift > -0x3fffffff && shift < 0x3fffffff);
        int d = (int)dst[ax] - shift;        // no overflow: |dst| < 2^30, |shift| < 2^30
        int want = d % n; if (want < 0) want += n;
        OBLIGE("C04.roll_axis.srcidx_mod|C02.roll_axis.srcidx_is_mod", (long)gx<ax>(src) == (long)want, R, AXIS+10);
        std::array<size_t,R> esrc = dst; esrc[ax] = (size_t)want;
        auto e1 = std::apply([&](auto... i){ return v(i...); }, dst);
        auto e2 = std::apply([&](auto... i){ return a(i...); }, esrc);
        OBLIGE("C04.roll_axis.element", same_bits(e1,e2), R, AXIS+10);
    }
}
// ---- index::roll with a LIST of axes (index level, every shape / position / shift): the listed axes are shifted one after the other
// (np.roll: `for sh, ax in broadcast(shift, axis): shifts[ax] += sh`), a scalar shift is broadcast over the list, the other axes are kept.
// Kinds: fixed-length lists (std::array) and bounded run-time-length lists (static_vector with an assumed length), which take the
// library's run-time-loop branches (normalize_roll_length resizes its result).
template <class K, size_t R, int A0, int A1, bool SCALAR>
void ob_c04_roll_list(const std::array<size_t,R>& shape_, const std::array<size_t,R>& idx_, const mk_t<K,int,2>& shift_)
{
    const auto shape = shape_; const auto idx = idx_; const auto shift = shift_;
    mk_t<K,int,2> axis{}; if constexpr (std::is_same_v<K,k_sv>) axis.resize(2);
    nm::at(axis,0) = A0; nm::at(axis,1) = A1;
    assume_len<2>(shift);
    for_<R>([&](auto I){ ASSUME(shape[I.value] >= 1); ASSUME(shape[I.value] <= 0x3fffffff); ASSUME(idx[I.value] < shape[I.value]); });
    const int s0 = rd<0>(shift), s1 = SCALAR ? s0 : rd<1>(shift);
    ASSUME(s0 > -0x1fffffff && s0 < 0x1fffffff); ASSUME(s1 > -0x1fffffff && s1 < 0x1fffffff);
    auto r = [&]{ if constexpr (SCALAR) return nm::index::roll(shape, idx, s0, axis); else return nm::index::roll(shape, idx, shift, axis); }();
    constexpr long tag = kid<K> * 1000 + (SCALAR ? 500 : 0) + A0 * 10 + A1;
    OBLIGE("C04.roll_list.result_rank", (size_t)nm::len(r) == R, R, tag);
    // the library's index type is int: the expectation is stated in the same type (no overflow: extents < 2^30, |shift| < 2^29)
    std::array<int,R> e{}; for_<R>([&](auto I){ e[I.value] = (int)idx[I.value]; });
    auto mod = [](int d, int n){ int w = d % n; return w < 0 ? w + n : w; };
    e[A0] = mod(e[A0] - s0, (int)shape[A0]);
    e[A1] = mod(e[A1] - s1, (int)shape[A1]);
    for_<R>([&](auto I){
        if constexpr ((int)I.value == A0 || (int)I.value == A1) OBLIGE("C04.roll_list.listed_axis_is_shifted_mod_extent|C02.roll_list.srcidx_in_extent", (long)gx<I.value>(r) == (long)e[I.value], R, tag, I.value);
        else OBLIGE("C04.roll_list.other_axes_same", (long)gx<I.value>(r) == (long)idx[I.value], R, tag, I.value);
    });
}
#define RLL(K,R,A0,A1,S) template void ob_c04_roll_list<K,R,A0,A1,S>(const std::array<size_t,R>&, const std::array<size_t,R>&, const mk_t<K,int,2>&);
RLL(k_std,2,0,1,false) RLL(k_std,2,1,0,true) RLL(k_std,3,2,0,false) RLL(k_std,3,0,2,true) RLL(k_std,3,1,1,false) RLL(k_std,2,0,0,true)
RLL(k_sv,2,0,1,false) RLL(k_sv,2,1,0,true) RLL(k_sv,3,2,0,false) RLL(k_sv,3,0,2,true) RLL(k_sv,3,1,1,false) RLL(k_sv,2,0,0,true)
template <size_t N>
void ob_c04_negctl(const arr_fs<float,N,2>& a, const std::array<size_t,2>& reps_)
{
    const auto reps = reps_;
    auto mv = view::tile(a, reps);
    if (nm::has_value(mv)) { auto shp = nm::shape(nm::unwrap(mv)); NEGCTL("C04.NEG.tile_shape_is_src", gx<0>(shp)==rd<0>(a.shape_), 2); }
}
#define TL(N,R,K) template void ob_c04_tile<N,R,K>(const arr_fs<float,N,R>&, const mk_t<K,size_t,R>&, const std::array<size_t,R>&);
TL(6,1,k_std) TL(12,2,k_std) TL(24,3,k_std) TL(12,2,k_utl)
template void ob_c04_tile_longer<6,1,2>(const arr_fs<float,6,1>&, const std::array<size_t,2>&, const std::array<size_t,2>&);
template void ob_c04_tile_longer<12,2,3>(const arr_fs<float,12,2>&, const std::array<size_t,3>&, const std::array<size_t,3>&);
#define RP(N,R,A) template void ob_c04_repeat_axis<N,R,A>(const arr_fs<float,N,R>&, size_t, const std::array<size_t,R>&);
RP(6,1,0) RP(12,2,0) RP(12,2,1) RP(12,2,-1) RP(24,3,0) RP(24,3,1) RP(24,3,2) RP(24,3,-2)
#define RL(N,R,A) template void ob_c04_roll_axis<N,R,A>(const arr_fs<float,N,R>&, int, const std::array<size_t,R>&);

RL(6,1,0) RL(12,2,0) RL(12,2,1) RL(12,2,-1) RL(24,3,1) RL(24,3,-3)
template void ob_c04_negctl<12>(const arr_fs<float,12,2>&, const std::array<size_t,2>&);
