// C02 clause (c) / C09: the result container of shape functions has room for every extent they produce when the operand shapes are
// BOUNDED (utl::static_vector) and FILL their capacity, also when only one operand is bounded and the other is a fixed array (the
// capacity of the result has to come from BOTH operands' kinds). Stated as "the reported length of the result is the required one":
// an over-capacity resize is refused silently by static_vector, so a too-small result type shows as a too-short result.
// (bounded x bounded tile / outer / matmul of rank 3 do not fold - the length of a hybrid result is re-read through a struct copy -; for
// those the capacity carried by the result TYPE is stated by the E3 witnesses c02_cap_*.)
#include "common.hpp"
#include "nmtools/array/index/tile.hpp"
#include "nmtools/array/index/outer.hpp"
#include "nmtools/array/index/pad.hpp"
#include "nmtools/array/index/repeat.hpp"
#include "nmtools/array/index/transpose.hpp"
#include "nmtools/array/index/remove_dims.hpp"
#include "nmtools/array/index/take.hpp"
#include "nmtools/array/view/matmul.hpp"
#include "nmtools/utility/unwrap.hpp"
#include "nmtools/utility/has_value.hpp"
using namespace ob;
template <size_t C> using svf = nmtools::utl::static_vector<size_t,C>;
template <class R> __attribute__((always_inline)) inline size_t len_of(const R& r)
{ if constexpr (meta::is_maybe_v<R>) return nm::has_value(r) ? (size_t)nm::len(nm::unwrap(r)) : (size_t)-1; else return (size_t)nm::len(r); }
#define CAP "C02.capacity.result_holds_all_extents|C09.capacity.result_holds_all_extents"

// shape_tile(shape, reps): max(R, RR) extents
template <size_t R, size_t RR, size_t C, size_t CR>
void ob_c02d_tile_bb(const svf<C>& shape, const svf<CR>& reps)
{ ASSUME(shape.size() == R); ASSUME(reps.size() == RR); auto r = ix::shape_tile(shape, reps); OBLIGE(CAP, len_of(r) == (R > RR ? R : RR), 1, R, RR, C*10+CR); }
template <size_t R, size_t RR, size_t CR>
void ob_c02d_tile_fb(const std::array<size_t,R>& shape, const svf<CR>& reps)
{ ASSUME(reps.size() == RR); auto r = ix::shape_tile(shape, reps); OBLIGE(CAP, len_of(r) == (R > RR ? R : RR), 2, R, RR, CR); }
template <size_t R, size_t RR, size_t C>
void ob_c02d_tile_bf(const svf<C>& shape, const std::array<size_t,RR>& reps)
{ ASSUME(shape.size() == R); auto r = ix::shape_tile(shape, reps); OBLIGE(CAP, len_of(r) == (R > RR ? R : RR), 3, R, RR, C); }
// shape_outer(a, b): R + RR extents
template <size_t R, size_t RR, size_t C, size_t CR>
void ob_c02d_outer_bb(const svf<C>& a, const svf<CR>& b)
{ ASSUME(a.size() == R); ASSUME(b.size() == RR); auto r = ix::shape_outer(a, b); OBLIGE(CAP, len_of(r) == R + RR, 4, R, RR, C*10+CR); }
template <size_t R, size_t RR, size_t CR>
void ob_c02d_outer_fb(const std::array<size_t,R>& a, const svf<CR>& b)
{ ASSUME(b.size() == RR); auto r = ix::shape_outer(a, b); OBLIGE(CAP, len_of(r) == R + RR, 5, R, RR, CR); }
template <size_t R, size_t RR, size_t C>
void ob_c02d_outer_bf(const svf<C>& a, const std::array<size_t,RR>& b)
{ ASSUME(a.size() == R); auto r = ix::shape_outer(a, b); OBLIGE(CAP, len_of(r) == R + RR, 6, R, RR, C); }
// shape_matmul(a, b): max(R, RR) extents for operands of rank >= 2 with equal contraction lengths and batch axes
template <size_t R, size_t RR, size_t C, size_t CR>
void ob_c02d_matmul_bb(const svf<C>& a, const svf<CR>& b)
{
    ASSUME(a.size() == R); ASSUME(b.size() == RR);
    ASSUME(a[R-1] == b[RR-2]);
    for_<(R < RR ? R : RR) - 2>([&](auto I){ ASSUME(a[R-3-I.value] == b[RR-3-I.value]); });
    auto r = ix::shape_matmul(a, b); OBLIGE(CAP, len_of(r) == (R > RR ? R : RR), 7, R, RR, C*10+CR);
}
// shape_repeat(shape, repeats, axis), shape_transpose(shape, axes), shape_pad(shape, widths), shape_take(shape, indices, axis): R extents
template <size_t R, size_t C>
void ob_c02d_same_rank(const svf<C>& shape, const svf<C>& axes, const svf<2*C>& widths)
{
    ASSUME(shape.size() == R); ASSUME(axes.size() == R); ASSUME(widths.size() == 2*R);
    for_<R>([&](auto I){ ASSUME(axes[I.value] == (size_t)(R - 1 - I.value)); });
    { auto r = ix::shape_repeat(shape, (size_t)2, (int)0);           OBLIGE(CAP, len_of(r) == R, 8, R, C);
      // the VALUES of the run-time-length branch agree with the definition too (one oracle for every container kind: C09)
      if (len_of(r) == R) for_<R>([&](auto I){ OBLIGE("C09.bounded_shape.shape_repeat.extents|C04.bounded_shape.shape_repeat.extents", (size_t)nm::at(nm::unwrap(r), I.value) == (I.value == 0 ? 2 : 1) * (size_t)nm::at(shape, I.value), R, C, I.value); }); }
    { auto r = ix::shape_transpose(shape, axes);                     OBLIGE(CAP, len_of(r) == R, 9, R, C);
      if (len_of(r) == R) for_<R>([&](auto I){ OBLIGE("C09.bounded_shape.shape_transpose.extents|C03.bounded_shape.shape_transpose.extents", (size_t)nm::at(nm::unwrap(r), I.value) == (size_t)nm::at(shape, R - 1 - I.value), R, C, I.value); }); }
    { auto r = ix::shape_pad(shape, widths);                         OBLIGE(CAP, len_of(r) == R, 10, R, C); }
    { auto r = ix::shape_take(shape, std::array<size_t,2>{0,0}, (int)0); OBLIGE(CAP, len_of(r) == R, 11, R, C); }
}
// remove_dims(shape, axis, keepdims): R - 1 extents without keepdims, R with
template <size_t R, size_t C>
void ob_c02d_remove_dims(const svf<C>& shape)
{
    ASSUME(shape.size() == R);
    { auto r = ix::remove_dims(shape, (int)0, nm::False); OBLIGE(CAP, len_of(r) == R - 1, 12, R, C);
      if (len_of(r) == R - 1) for_<R-1>([&](auto I){ OBLIGE("C09.bounded_shape.remove_dims.extents|C08.bounded_shape.remove_dims.extents", (size_t)nm::at(nm::unwrap(r), I.value) == (size_t)nm::at(shape, I.value + 1), R, C, I.value); }); }
    { auto r = ix::remove_dims(shape, (int)-1, nm::True); OBLIGE(CAP, len_of(r) == R, 13, R, C);
      if (len_of(r) == R) for_<R>([&](auto I){ OBLIGE("C09.bounded_shape.remove_dims.keepdims_extents|C08.bounded_shape.remove_dims.keepdims_extents", (size_t)nm::at(nm::unwrap(r), I.value) == (I.value == R - 1 ? 1 : (size_t)nm::at(shape, I.value)), R, C, I.value); }); }
}
void ob_c02d_negctl(const svf<3>& a, const svf<3>& b)
{ ASSUME(a.size() == 2); ASSUME(b.size() == 1); auto r = ix::shape_outer(a, b); NEGCTL("C02.NEG.outer_keeps_the_left_rank|C09.NEG.outer_keeps_the_left_rank", len_of(r) == 2, 0); }

template void ob_c02d_tile_bf<3,1,3>(const svf<3>&, const std::array<size_t,1>&);
template void ob_c02d_outer_bf<2,2,2>(const svf<2>&, const std::array<size_t,2>&); template void ob_c02d_outer_bf<3,1,3>(const svf<3>&, const std::array<size_t,1>&);
template void ob_c02d_matmul_bb<2,2,2,2>(const svf<2>&, const svf<2>&); template void ob_c02d_same_rank<2,2>(const svf<2>&, const svf<2>&, const svf<4>&); template void ob_c02d_same_rank<3,3>(const svf<3>&, const svf<3>&, const svf<6>&);
template void ob_c02d_remove_dims<2,2>(const svf<2>&); template void ob_c02d_remove_dims<3,3>(const svf<3>&); template void ob_c02d_remove_dims<3,4>(const svf<4>&);
