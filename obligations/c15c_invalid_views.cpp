// C15 (view level, arrays whose shape is a run-time value pinned by ASSUME): an argument combination NumPy rejects yields Nothing - the
// view expression has no value - instead of a view with a made-up shape. (The accepting side is the has_value obligation of every
// VIEW(...) in the other view-level TUs.)
#define VERIF_RT_KIND 1
#include "cview.hpp"
#include "nmtools/array/view/reshape.hpp"
#include "nmtools/array/view/transpose.hpp"
#include "nmtools/array/view/concatenate.hpp"
#include "nmtools/array/view/stack.hpp"
#include "nmtools/array/view/broadcast_to.hpp"
#include "nmtools/array/view/pad.hpp"
#include "nmtools/array/view/where.hpp"
#include "nmtools/array/view/ufuncs/subtract.hpp"
#include "nmtools/array/view/moveaxis.hpp"
#define REJECTS(ID, ...) do { auto r_ = (__VA_ARGS__); OBLIGE(ID, !nm::has_value(r_), __LINE__); } while (0)

void ob_c15c_reshape_0(const ARR<2,3>& a)
{ PIN(a, 2,3);
    REJECTS("C15.view.reshape.element_count_differs", view::reshape(a, std::array<int,2>{4,2}));
}
void ob_c15c_reshape_1(const ARR<2,3>& a)
{ PIN(a, 2,3);
    REJECTS("C15.view.reshape.two_inferred_extents", view::reshape(a, std::array<int,2>{-1,-1}));
}
void ob_c15c_reshape_2(const ARR<2,3>& a)
{ PIN(a, 2,3);
    REJECTS("C15.view.reshape.inferred_extent_does_not_divide", view::reshape(a, std::array<int,2>{-1,4}));
}
void ob_c15c_reshape_3(const ARR<2,3>& a)
{ PIN(a, 2,3);
    REJECTS("C15.view.reshape.zero_extent", view::reshape(a, std::array<int,2>{0,6}));
}
void ob_c15c_transpose_0(const ARR<2,3,2>& a)
{ PIN(a, 2,3,2);
    REJECTS("C15.view.transpose.repeated_axis", view::transpose(a, std::array<int,3>{0,0,1}));
}
// (an out-of-range axis or an axis list of the wrong length ends in std::array::at throwing std::out_of_range for these operand kinds: loud, not stated)
void ob_c15c_broadcast_0(const ARR<2,3>& a, const ARR<2>& b, const ARR<2,2>& c)
{ PIN(a, 2,3); PIN(b, 2); PIN(c, 2,2);
    REJECTS("C15.view.ufunc.operands_do_not_broadcast", view::subtract(a, b));
}
void ob_c15c_broadcast_1(const ARR<2,3>& a, const ARR<2>& b, const ARR<2,2>& c)
{ PIN(a, 2,3); PIN(b, 2); PIN(c, 2,2);
    REJECTS("C15.view.ufunc.operands_do_not_broadcast", view::subtract(c, a));
}
void ob_c15c_broadcast_2(const ARR<2,3>& a, const ARR<2>& b, const ARR<2,2>& c)
{ PIN(a, 2,3); PIN(b, 2); PIN(c, 2,2);
    REJECTS("C15.view.where.operands_do_not_broadcast", view::where(a, b, c));
}
void ob_c15c_broadcast_3(const ARR<2,3>& a, const ARR<2>& b, const ARR<2,2>& c)
{ PIN(a, 2,3); PIN(b, 2); PIN(c, 2,2);
    REJECTS("C15.view.broadcast_to.extent_not_stretchable", view::broadcast_to(a, std::array<size_t,2>{3,3}));
}
void ob_c15c_broadcast_4(const ARR<2,3>& a, const ARR<2>& b, const ARR<2,2>& c)
{ PIN(a, 2,3); PIN(b, 2); PIN(c, 2,2);
    REJECTS("C15.view.broadcast_to.fewer_axes_than_the_source", view::broadcast_to(a, std::array<size_t,1>{3}));
}
void ob_c15c_join_0(const ARR<2,3>& a, const ARR<2,2>& c, const ARR<3>& p)
{ PIN(a, 2,3); PIN(c, 2,2); PIN(p, 3);
    REJECTS("C15.view.concatenate.other_extents_differ", view::concatenate(a, c, 0));
}
void ob_c15c_join_1(const ARR<2,3>& a, const ARR<2,2>& c, const ARR<3>& p)
{ PIN(a, 2,3); PIN(c, 2,2); PIN(p, 3);
    REJECTS("C15.view.concatenate.ranks_differ", view::concatenate(a, p, 0));
}
void ob_c15c_join_2(const ARR<2,3>& a, const ARR<2,2>& c, const ARR<3>& p)
{ PIN(a, 2,3); PIN(c, 2,2); PIN(p, 3);
    REJECTS("C15.view.stack.shapes_differ", view::stack(a, c));
}
void ob_c15c_pad_0(const ARR<2,3>& a)
{ PIN(a, 2,3);
    REJECTS("C15.view.pad.width_list_of_the_wrong_length", view::pad(a, std::array<int,3>{1,0,1}, 0L));
}
void ob_c15c_negctl(const ARR<2,3>& a)
{ PIN(a, 2,3);
    auto r = view::reshape(a, std::array<int,2>{3,2});
    NEGCTL("C15.NEG.valid_reshape_rejected", !nm::has_value(r), 0);
}
