// C04: expand (spacing insertion along one axis) at index level.
//   shape: extent on the axis becomes s + (s-1)*spacing, other extents kept
//   index: a destination coordinate that is a multiple of (spacing+1) maps to coordinate/(spacing+1) on the axis (others unchanged);
//          any other coordinate is a fill position (the index function returns None)
#include "common.hpp"
#include "nmtools/array/view/expand.hpp"
using namespace ob;

template <class K, size_t R, int AXIS>
void ob_c04_expand(const mk_t<K,size_t,R>& shape_, const mk_t<K,size_t,R>& idx_, int axis, size_t spacing)
{
    assume_len<R>(shape_); assume_len<R>(idx_);
    const auto shape = shape_; const auto idx = idx_;
    constexpr size_t ax = (size_t)(AXIS < 0 ? AXIS + (int)R : AXIS);
    ASSUME(axis == AXIS); ASSUME(spacing >= 1); ASSUME(spacing < (1ul<<20));
    for_<R>([&](auto I){ ASSUME((size_t)rd<I.value>(shape) >= 1); ASSUME((size_t)rd<I.value>(shape) < (1ul<<20)); ASSUME((size_t)rd<I.value>(idx) < (1ul<<41)); });
    {
        auto s = ix::shape_expand(shape, axis, spacing);
        OBLIGE("C04.expand.shape.dim", (size_t)nm::len(s) == R, kid<K>, R, AXIS+10);
        for_<R>([&](auto I){
            if constexpr (I.value == ax) OBLIGE("C04.expand.shape.axis_extent", (size_t)nm::at(s,I.value) == (size_t)rd<ax>(shape) + ((size_t)rd<ax>(shape)-1)*spacing, kid<K>, R, AXIS+10, I.value);
            else OBLIGE("C04.expand.shape.other_extents_kept", (size_t)nm::at(s,I.value) == (size_t)rd<I.value>(shape), kid<K>, R, AXIS+10, I.value);
        });
    }
    const size_t x = rd<ax>(idx);
    if (x % (spacing+1) == 0) {
        auto r = ix::expand(idx, shape, axis, spacing);
        using left_t = meta::get_either_left_t<decltype(r)>; auto* p = nmtools::get_if<left_t>(&r);
        OBLIGE("C04.expand.index.source_position_on_multiples", p != nullptr, kid<K>, R, AXIS+10);
        if (p) for_<R>([&](auto I){
            if constexpr (I.value == ax) OBLIGE("C04.expand.index.axis_coordinate_divided", (size_t)nm::at(*p,I.value) == x / (spacing+1), kid<K>, R, AXIS+10, I.value);
            else OBLIGE("C04.expand.index.other_coordinates_kept", (size_t)nm::at(*p,I.value) == (size_t)rd<I.value>(idx), kid<K>, R, AXIS+10, I.value);
        });
    } else {
        auto r = ix::expand(idx, shape, axis, spacing);
        using left_t = meta::get_either_left_t<decltype(r)>; auto* p = nmtools::get_if<left_t>(&r);
        OBLIGE("C04.expand.index.fill_between_multiples", p == nullptr, kid<K>, R, AXIS+10);
    }
}
void ob_c04_expand_negctl(const std::array<size_t,2>& shape_, const std::array<size_t,2>& idx_, size_t spacing)
{
    const auto shape = shape_; const auto idx = idx_;
    ASSUME(spacing >= 1); ASSUME(spacing < 1024); ASSUME(idx[1] < 4096);
    auto r = ix::expand(idx, shape, 1, spacing);
    using left_t = meta::get_either_left_t<decltype(r)>; auto* p = nmtools::get_if<left_t>(&r);
    NEGCTL("C04.NEG.expand_never_fills", p != nullptr, 0);
}
#define EX(K,R,A) template void ob_c04_expand<K,R,A>(const mk_t<K,size_t,R>&, const mk_t<K,size_t,R>&, int, size_t);
#define EXK(R,A) EX(k_std,R,A) EX(k_utl,R,A)
// bounded run-time-length shapes (the library's run-time-loop branches, which heap-backed shapes take as well)
EX(k_sv,1,0) EX(k_sv,2,0) EX(k_sv,2,-1) EX(k_sv,3,1) EX(k_sv,3,-3)
EXK(1,0) EXK(1,-1) EXK(2,0) EXK(2,1) EXK(2,-1) EXK(2,-2) EXK(3,0) EXK(3,1) EXK(3,2) EXK(3,-1) EXK(3,-2)
#ifdef VERIF_THOROUGH
EXK(3,-3) EXK(4,0) EXK(4,1) EXK(4,2) EXK(4,3) EXK(4,-1) EXK(4,-2) EXK(4,-3) EXK(4,-4)
#endif
