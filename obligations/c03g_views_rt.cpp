// the obligations of c03g_views.cpp on arrays whose shape is a run-time value (the library's run-time branches)
#define VERIF_RT_KIND 1
#include "c03g_views.cpp"
