// C06 (+C15): pairwise broadcast_shape is sound + complete w.r.t. NumPy's rule, idempotent, None-neutral (DESIGN §3 C06)
#include "common.hpp"
#include "nmtools/array/index/broadcast_shape.hpp"
using namespace ob;

template <size_t RA, size_t RB> constexpr size_t RMAX = (RA > RB ? RA : RB);
template <size_t RA, size_t RB> constexpr size_t RMIN = (RA < RB ? RA : RB);

// per-axis compatibility, right aligned: axis i counts from the back
template <size_t I, size_t RA, size_t RB, class A, class B>
__attribute__((always_inline)) inline bool compat_axis(const A& a, const B& b)
{
    size_t x = rd<RA-1-I>(a), y = rd<RB-1-I>(b);
    return x==y || x==1 || y==1;
}

template <class K, size_t RA, size_t RB, size_t I>
__attribute__((always_inline)) inline void chain(const mk_t<K,size_t,RA>& a, const mk_t<K,size_t,RB>& b)
{
    constexpr size_t R = RMAX<RA,RB>;
    if constexpr (I == RMIN<RA,RB>) {
        // every aligned pair is compatible: NumPy succeeds -> must have a value, with the per-axis maximum
        auto r = ix::broadcast_shape(a,b);
        OBLIGE("C06.bshape.complete|C15.bshape.value_when_compatible", static_cast<bool>(r), kid<K>, RA, RB);
        if (r) {
            OBLIGE("C06.bshape.len", (size_t)nm::len(*r)==R, kid<K>, RA, RB);
            for_<R>([&](auto J){ // J counts from the back
                size_t e;
                if constexpr (J.value < RA && J.value < RB) {
                    size_t x = rd<RA-1-J.value>(a), y = rd<RB-1-J.value>(b);
                    e = x > y ? x : y;
                } else if constexpr (J.value < RA) e = rd<RA-1-J.value>(a);
                else e = rd<RB-1-J.value>(b);
                OBLIGE("C06.bshape.max", (size_t)rd<R-1-J.value>(*r)==e, kid<K>, RA, RB, J.value);
            });
        }
    } else {
        if (!compat_axis<I,RA,RB>(a,b)) {
            // first incompatible pair at aligned axis I: NumPy raises -> must be Nothing
            auto r = ix::broadcast_shape(a,b);
            OBLIGE("C06.bshape.sound|C15.bshape.nothing_when_incompatible", !static_cast<bool>(r), kid<K>, RA, RB, I);
        } else {
            chain<K,RA,RB,I+1>(a,b);
        }
    }
}
template <class K, size_t RA, size_t RB>
void ob_c06_bshape(const mk_t<K,size_t,RA>& a, const mk_t<K,size_t,RB>& b)
{
    assume_len<RA>(a); assume_len<RB>(b);
    chain<K,RA,RB,0>(a,b);
}
// idempotence: bs(a,a) == a ; None is neutral
template <class K, size_t R>
void ob_c06_idem(const mk_t<K,size_t,R>& a)
{
    assume_len<R>(a);
    {
        auto r = ix::broadcast_shape(a,a);
        OBLIGE("C06.idem.value", static_cast<bool>(r), kid<K>, R);
        if (r) for_<R>([&](auto I){ OBLIGE("C06.idem.same", (size_t)rd<I.value>(*r)==(size_t)rd<I.value>(a), kid<K>, R, I.value); });
    }
    {
        auto r = ix::broadcast_shape(nm::None,a);
        OBLIGE("C06.none.left.value", static_cast<bool>(r), kid<K>, R);
        if (r) for_<R>([&](auto I){ OBLIGE("C06.none.left.same", (size_t)rd<I.value>(*r)==(size_t)rd<I.value>(a), kid<K>, R, I.value); });
    }
    {
        auto r = ix::broadcast_shape(a,nm::None);
        OBLIGE("C06.none.right.value", static_cast<bool>(r), kid<K>, R);
        if (r) for_<R>([&](auto I){ OBLIGE("C06.none.right.same", (size_t)rd<I.value>(*r)==(size_t)rd<I.value>(a), kid<K>, R, I.value); });
    }
}
// three operands: the variadic form is the left fold of the (proved) pairwise rule:
//   bs(a,b,c) == bs(*bs(a,b), c) when bs(a,b) has a value, Nothing otherwise.
template <class K, size_t RA, size_t RB, size_t RC>
void ob_c06_bshape3(const mk_t<K,size_t,RA>& a, const mk_t<K,size_t,RB>& b, const mk_t<K,size_t,RC>& c)
{
    assume_len<RA>(a); assume_len<RB>(b); assume_len<RC>(c);
    constexpr size_t R = RMAX<RMAX<RA,RB>,RC>;
    auto ab = ix::broadcast_shape(a,b);
    if (ab) {
        auto r2 = ix::broadcast_shape(*ab,c);
        if (r2) {
            auto abc = ix::broadcast_shape(a,b,c);
            OBLIGE("C06.bshape3.fold.value", static_cast<bool>(abc), kid<K>, RA, RB, RC);
            if (abc) for_<R>([&](auto I){ OBLIGE("C06.bshape3.fold.same", (size_t)rd<I.value>(*abc)==(size_t)rd<I.value>(*r2), kid<K>, RA*100+RB*10+RC, I.value); });
        } else {
            auto abc = ix::broadcast_shape(a,b,c);
            OBLIGE("C06.bshape3.fold.nothing2", !static_cast<bool>(abc), kid<K>, RA, RB, RC);
        }
    } else {
        auto abc = ix::broadcast_shape(a,b,c);
        OBLIGE("C06.bshape3.fold.nothing1", !static_cast<bool>(abc), kid<K>, RA, RB, RC);
    }
}
template <class K>
void ob_c06_negctl(const mk_t<K,size_t,2>& a, const mk_t<K,size_t,2>& b)
{
    auto r = ix::broadcast_shape(a,b);
    NEGCTL("C06.NEG.always_value", static_cast<bool>(r), kid<K>);
}
#define INST(K,RA,RB) template void ob_c06_bshape<K,RA,RB>(const mk_t<K,size_t,RA>&, const mk_t<K,size_t,RB>&);
#define INSTK(K) INST(K,1,1) INST(K,1,2) INST(K,2,1) INST(K,2,2) INST(K,1,3) INST(K,3,1) INST(K,2,3) INST(K,3,2) INST(K,3,3) \
   template void ob_c06_idem<K,1>(const mk_t<K,size_t,1>&); template void ob_c06_idem<K,2>(const mk_t<K,size_t,2>&); template void ob_c06_idem<K,3>(const mk_t<K,size_t,3>&);
INSTK(k_std) INSTK(k_utl)
// (bounded run-time-length kinds do not discharge here: the result is a hybrid_ndarray whose length is re-read through a struct copy in every iteration)
template void ob_c06_bshape3<k_std,2,2,2>(const mk_t<k_std,size_t,2>&, const mk_t<k_std,size_t,2>&, const mk_t<k_std,size_t,2>&);
template void ob_c06_bshape3<k_std,1,2,3>(const mk_t<k_std,size_t,1>&, const mk_t<k_std,size_t,2>&, const mk_t<k_std,size_t,3>&);
template void ob_c06_negctl<k_std>(const mk_t<k_std,size_t,2>&, const mk_t<k_std,size_t,2>&);
#ifdef VERIF_THOROUGH
INSTK(k_tup)
INST(k_std,4,4) INST(k_std,1,4) INST(k_std,4,2) INST(k_std,3,4)
#endif
