// C04: tril / triu index law. For a destination index (.., row, col) and diagonal offset k:
//   tril keeps the source element (identity index) exactly when col <= row + k, triu exactly when col >= row + k;
//   otherwise the index function returns Nothing (the view then yields zero). A 1-d source is used as every row.
//   shape_tril/shape_triu: the source shape, or (n, n) for a 1-d source.
#include "common.hpp"
#include "nmtools/array/view/tril.hpp"
#include "nmtools/array/view/triu.hpp"
#include "nmtools/array/view/eye.hpp"
using namespace ob;

template <class K, size_t R, bool UPPER>
void ob_c04_tri(const mk_t<K,size_t,R>& shape_, const mk_t<K,size_t,(R==1?2:R)>& idx_, int k)
{
    constexpr size_t RD = (R==1?2:R);
    const auto shape = shape_; const auto idx = idx_;
    for_<R>([&](auto I){ ASSUME((size_t)rd<I.value>(shape) >= 1); ASSUME((size_t)rd<I.value>(shape) < (1ul<<20)); });
    for_<RD>([&](auto I){ ASSUME((size_t)rd<I.value>(idx) < (1ul<<20)); });
    ASSUME(k > -(1<<20)); ASSUME(k < (1<<20));
    {
        auto s = [&](){ if constexpr (UPPER) return ix::shape_triu(shape); else return ix::shape_tril(shape); }();
        OBLIGE("C04.tri.shape.dim", (size_t)nm::len(s) == RD, kid<K>, R, UPPER);
        for_<RD>([&](auto I){
            constexpr size_t src = (R==1 ? 0 : I.value);
            OBLIGE("C04.tri.shape.extents", (size_t)nm::at(s,I.value) == (size_t)rd<src>(shape), kid<K>, R, UPPER, I.value);
        });
    }
    // NumPy: tril keeps col - row <= k, triu keeps col - row >= k; written in the library's 32-bit index type (no overflow: all below 2^20)
    const int row = (int)rd<RD-2>(idx), col = (int)rd<RD-1>(idx);
    const bool kept = UPPER ? (row <= col - k) : (col <= row + k);
    if (kept) {
        auto r = [&](){ if constexpr (UPPER) return ix::triu(shape, idx, k); else return ix::tril(shape, idx, k); }();
        OBLIGE("C04.tri.index.value_on_kept_side", static_cast<bool>(r), kid<K>, R, UPPER);
        if (r) {
            OBLIGE("C04.tri.index.dim", (size_t)nm::len(*r) == R, kid<K>, R, UPPER);
            for_<R>([&](auto I){
                constexpr size_t d = (R==1 ? 1 : I.value);
                OBLIGE("C04.tri.index.reads_same_position", (size_t)nm::at(*r,I.value) == (size_t)rd<d>(idx), kid<K>, R, UPPER, I.value);
            });
        }
    } else {
        auto r = [&](){ if constexpr (UPPER) return ix::triu(shape, idx, k); else return ix::tril(shape, idx, k); }();
        OBLIGE("C04.tri.index.nothing_on_zeroed_side", !static_cast<bool>(r), kid<K>, R, UPPER);
    }
}
// eye(N, M, k): the index function returns Nothing (the view then yields one) exactly on the k-th diagonal, col == row + k,
// and the unchanged position (into the zeros operand) elsewhere
template <class K>
void ob_c04_eye(const mk_t<K,size_t,2>& shape_, const mk_t<K,size_t,2>& idx_, int k)
{
    const auto shape = shape_; const auto idx = idx_;
    for_<2>([&](auto I){ ASSUME((size_t)rd<I.value>(idx) < (1ul<<20)); });
    ASSUME(k > -(1<<20)); ASSUME(k < (1<<20));
    const int row = (int)rd<0>(idx), col = (int)rd<1>(idx);
    if (col == row + k) {
        auto r = ix::eye(shape, idx, k);
        OBLIGE("C04.eye.index.nothing_on_the_diagonal", !static_cast<bool>(r), kid<K>);
    } else {
        auto r = ix::eye(shape, idx, k);
        OBLIGE("C04.eye.index.value_off_the_diagonal", static_cast<bool>(r), kid<K>);
        if (r) for_<2>([&](auto I){ OBLIGE("C04.eye.index.reads_same_position", (size_t)nm::at(*r,I.value) == (size_t)rd<I.value>(idx), kid<K>, I.value); });
    }
}
template void ob_c04_eye<k_std>(const mk_t<k_std,size_t,2>&, const mk_t<k_std,size_t,2>&, int);
template void ob_c04_eye<k_utl>(const mk_t<k_utl,size_t,2>&, const mk_t<k_utl,size_t,2>&, int);
void ob_c04_tri_negctl(const std::array<size_t,2>& shape_, const std::array<size_t,2>& idx_, int k)
{
    const auto shape = shape_; const auto idx = idx_;
    ASSUME(idx[0] < 1024); ASSUME(idx[1] < 1024); ASSUME(k > -1024); ASSUME(k < 1024);
    auto r = ix::tril(shape, idx, k);
    NEGCTL("C04.NEG.tril_keeps_everything", static_cast<bool>(r), 0);
}
#define TR(K,R) template void ob_c04_tri<K,R,false>(const mk_t<K,size_t,R>&, const mk_t<K,size_t,(R==1?2:R)>&, int); \
                template void ob_c04_tri<K,R,true>(const mk_t<K,size_t,R>&, const mk_t<K,size_t,(R==1?2:R)>&, int);
TR(k_std,1) TR(k_std,2) TR(k_std,3) TR(k_std,4) TR(k_utl,1) TR(k_utl,2) TR(k_utl,3) TR(k_utl,4)
#ifdef VERIF_THOROUGH
TR(k_std,5) TR(k_utl,5)
#endif
