// C17 (view level, constant shapes): the OUTPUT SHAPE of conv1d / conv2d is the standard formula
//   out = floor((L + 2*p - d*(k-1) - 1) / s) + 1   per spatial axis, (N, C_out, out...)
// for stride, zero padding, dilation, groups and a batch; only the shape is stated (the element law does not fold, DESIGN 8.8).
#include "cview.hpp"
#define HV_ID "C17.conv.has_value"
#include "nmtools/array/view/conv1d.hpp"
#include "nmtools/array/view/conv2d.hpp"
using nm::None;
#define SHAPE3(v, A, B, C, TAG) OBLIGE("C17.conv.output_shape_is_the_standard_formula", (cv::shape_is<A,B,C>(v)), TAG)
#define SHAPE4(v, A, B, C, D, TAG) OBLIGE("C17.conv.output_shape_is_the_standard_formula", (cv::shape_is<A,B,C,D>(v)), TAG)
#if !defined(C17B_PART) || C17B_PART == 1
void ob_c17b_conv1d(const ARR<1,2,7>& x, const ARR<3,2,3>& w)
{ PIN(x, 1,2,7); PIN(w, 3,2,3);
    { VIEW(v, view::conv1d(x, w));                 SHAPE3(v, 1,3,5, 0); }   // (7-3)/1+1
    { VIEW(v, view::conv1d(x, w, None, 2));        SHAPE3(v, 1,3,3, 1); }   // stride 2: (7-3)/2+1
    { VIEW(v, view::conv1d(x, w, None, 1, 1));     SHAPE3(v, 1,3,7, 2); }   // padding 1: (7+2-3)+1
    { VIEW(v, view::conv1d(x, w, None, 1, 0, 2));  SHAPE3(v, 1,3,3, 3); }   // dilation 2: (7-2*2-1)+1
    { VIEW(v, view::conv1d(x, w, None, 2, 1, 2));  SHAPE3(v, 1,3,3, 4); }   // (7+2-4-1)/2+1 = 3
}
void ob_c17b_conv1d_batch(const ARR<2,2,7>& x, const ARR<3,2,3>& w)
{ PIN(x, 2,2,7); PIN(w, 3,2,3);
    { VIEW(v, view::conv1d(x, w));                 SHAPE3(v, 2,3,5, 5); }   // a batch of 2 samples
    { VIEW(v, view::conv1d(x, w, None, 2, 1));     SHAPE3(v, 2,3,4, 6); }   // (7+2-3)/2+1 = 4
}
#endif
#if !defined(C17B_PART) || C17B_PART == 2
void ob_c17b_conv2d(const ARR<1,2,5,6>& x, const ARR<3,2,3,3>& w)
{ PIN(x, 1,2,5,6); PIN(w, 3,2,3,3);
    { VIEW(v, view::conv2d(x, w));                                                   SHAPE4(v, 1,3,3,4, 10); }
    { VIEW(v, view::conv2d(x, w, None, std::array<int,2>{2,1}));                     SHAPE4(v, 1,3,2,4, 11); }   // stride (2,1)
    { VIEW(v, view::conv2d(x, w, None, 1, std::array<int,2>{1,0}));                  SHAPE4(v, 1,3,5,4, 12); }   // padding (1,0)
    { VIEW(v, view::conv2d(x, w, None, 1, 0, std::array<int,2>{1,2}));               SHAPE4(v, 1,3,3,2, 13); }   // dilation (1,2): W: (6-2*2-1)+1 = 2
    { VIEW(v, view::conv2d(x, w, None, 1, 0, std::array<int,2>{2,1}));               SHAPE4(v, 1,3,1,4, 14); }   // dilation (2,1): H: (5-2*2-1)+1 = 1
}
void ob_c17b_conv2d_batch(const ARR<2,2,5,6>& x, const ARR<3,2,3,3>& w)
{ PIN(x, 2,2,5,6); PIN(w, 3,2,3,3);
    { VIEW(v, view::conv2d(x, w));                                                   SHAPE4(v, 2,3,3,4, 15); }   // a batch of 2 samples
}
#endif
// (a batch above 1 is stated since the repair F52; still not stated: groups with several output channels per group - the weight is
//  reshaped to (O/G, G) instead of (G, O/G): recorded in DESIGN 8.10 / 8.14 as an observed defect that was not repaired)
void ob_c17b_negctl(const ARR<1,2,7>& x, const ARR<3,2,3>& w)
{ PIN(x, 1,2,7); PIN(w, 3,2,3); auto v = nm::unwrap(view::conv1d(x, w)); NEGCTL("C17.NEG.conv_keeps_the_length", (cv::shape_is<1,3,7>(v)), 0); }
