// C16 on fixed-dimension arrays whose shape is a run-time value (pinned by ASSUME): the library's run-time branches - maybe-typed results,
// loops over len(shape) - for dot / matmul / tensordot / inner / outer / vecdot / kron / trace. The result must HAVE a value and equal the definition.
#include "cview.hpp"
#include "nmtools/array/view/matmul.hpp"
#include "nmtools/array/view/dot.hpp"
#include "nmtools/array/view/inner.hpp"
#include "nmtools/array/view/outer.hpp"
#include "nmtools/array/view/vecdot.hpp"
#include "nmtools/array/view/tensordot.hpp"
#include "nmtools/array/view/kron.hpp"
#include "nmtools/array/view/trace.hpp"

#define SUM3(EXPR) ([&]{ long w = 0; for_<3>([&](auto T){ constexpr size_t t = T.value; const long x = (EXPR); if constexpr (t == 0) w = x; else w = w + x; }); return w; }())
#define SUM2(EXPR) ([&]{ long w = 0; for_<2>([&](auto T){ constexpr size_t t = T.value; const long x = (EXPR); if constexpr (t == 0) w = x; else w = w + x; }); return w; }())

void ob_c16b_matmul(const farr<2,3>& a, const farr<3,2>& b)
{
    cv::assume_shape<2,3>(a); cv::assume_shape<3,2>(b);
    auto r = view::matmul(a, b);
    OBLIGE("C16.rt.matmul.has_value", nm::has_value(r), 0);
    auto v = nm::unwrap(r);
    EXPECT_VIEW2("C16.rt.matmul.shape", "C16.rt.matmul.element", v, 2,2, SUM3(a(i,t) * b(t,j)), 0);
}
void ob_c16b_dot_vm(const farr<3>& a, const farr<3,2>& b)
{
    cv::assume_shape<3>(a); cv::assume_shape<3,2>(b);
    auto r = view::dot(a, b);
    OBLIGE("C16.rt.dot.vector_matrix_has_value", nm::has_value(r), 0);
    auto v = nm::unwrap(r);
    EXPECT_VIEW1("C16.rt.dot.vector_matrix_shape", "C16.rt.dot.vector_matrix_element", v, 2, SUM3(a(t) * b(t,i)), 0);
}
void ob_c16b_dot_mv(const farr<2,3>& a, const farr<3>& b)
{
    cv::assume_shape<2,3>(a); cv::assume_shape<3>(b);
    auto r = view::dot(a, b);
    OBLIGE("C16.rt.dot.matrix_vector_has_value", nm::has_value(r), 0);
    auto v = nm::unwrap(r);
    EXPECT_VIEW1("C16.rt.dot.matrix_vector_shape", "C16.rt.dot.matrix_vector_element", v, 2, SUM3(a(i,t) * b(t)), 0);
}
void ob_c16b_batch(const farr<2,2,3>& a, const farr<1,3,2>& b)
{
    cv::assume_shape<2,2,3>(a); cv::assume_shape<1,3,2>(b);
    auto r = view::matmul(a, b);
    OBLIGE("C16.rt.matmul.batch_has_value", nm::has_value(r), 0);
    auto v = nm::unwrap(r);
    // (the result shape of the batched form is a bounded-length container whose length LLVM does not fold: dimension and elements only)
    OBLIGE("C16.rt.matmul.batch_dim", (size_t)nm::len(nm::shape(v)) == 3, 0);
    for_<2>([&](auto I){ for_<2>([&](auto J){ for_<2>([&](auto K){ constexpr size_t i = I.value, j = J.value, k = K.value;
        OBLIGE("C16.rt.matmul.batch_element", (long)v(i,j,k) == SUM3(a(i,j,t) * b((size_t)0,t,k)), 222, 0, i*10+j, k); }); }); });
}
void ob_c16b_tensordot(const farr<2,3>& a, const farr<3,2>& b)
{
    cv::assume_shape<2,3>(a); cv::assume_shape<3,2>(b);
    auto r = view::tensordot(a, b, meta::ct_v<1>);
    OBLIGE("C16.rt.tensordot.has_value", nm::has_value(r), 0);
    auto v = nm::unwrap(r);
    EXPECT_VIEW2("C16.rt.tensordot.shape", "C16.rt.tensordot.one_axis_is_matmul", v, 2,2, SUM3(a(i,t) * b(t,j)), 0);
}
// (bounded-dimension operands - static_vector shapes - leave the tensordot pipeline residual: not stated)
void ob_c16b_vectors(const farr<3>& a, const farr<3>& b, const farr<2>& c)
{
    cv::assume_shape<3>(a); cv::assume_shape<3>(b); cv::assume_shape<2>(c);
    const long want = SUM3(a(t) * b(t));
    { auto r = view::dot(a, b); OBLIGE("C16.rt.dot.vectors_has_value", nm::has_value(r), 0); OBLIGE("C16.rt.dot.vectors", (long)static_cast<long>(nm::unwrap(r)) == want, 0); }
    { auto r = view::inner(a, b); OBLIGE("C16.rt.inner.vectors_has_value", nm::has_value(r), 0); OBLIGE("C16.rt.inner.vectors", (long)static_cast<long>(nm::unwrap(r)) == want, 0); }
    { auto r = view::vecdot(a, b); OBLIGE("C16.rt.vecdot.vectors_has_value", nm::has_value(r), 0); OBLIGE("C16.rt.vecdot.vectors", (long)static_cast<long>(nm::unwrap(r)) == want, 0); }
    { auto r = view::outer(a, c); OBLIGE("C16.rt.outer.has_value", nm::has_value(r), 0); auto v = nm::unwrap(r); EXPECT_VIEW2("C16.rt.outer.shape", "C16.rt.outer.element", v, 3,2, a(i) * c(j), 0); }
}
void ob_c16b_trace(const farr<3,3>& a, const farr<2,3,3>& b)
{
    cv::assume_shape<3,3>(a); cv::assume_shape<2,3,3>(b);
    { auto r = view::trace(a); OBLIGE("C16.rt.trace.has_value", nm::has_value(r), 0); OBLIGE("C16.rt.trace.sum_of_the_diagonal", (long)static_cast<long>(nm::unwrap(r)) == SUM3(a(t,t)), 0); }
    { auto r = view::trace(b); OBLIGE("C16.rt.trace.rank3_has_value", nm::has_value(r), 1); auto v = nm::unwrap(r); EXPECT_VIEW1("C16.rt.trace.rank3_default_axes_are_0_and_1", "C16.rt.trace.rank3_element", v, 3, SUM2(b(t,t,i)), 1); }
}
// trace with an offset of either sign on axis pairs of DIFFERENT extent (tall and wide), chosen axes on rank 3:
//   trace(a, k, ax1, ax2)[..] = sum_t a[.. t - min(k,0) on ax1 .., t + max(k,0) on ax2 ..], t < length of that diagonal
void ob_c16b_trace_offsets(const farr<4,3,2>& a)
{
    cv::assume_shape<4,3,2>(a);
    constexpr size_t O = 0;
    // axes (0,2): extents 4 and 2 (tall). offset -1: rows 1.., length min(4-1,2) = 2; offset -3: length 1; offset +1: length min(4, 2-1) = 1
    { auto r = view::trace(a, -1, 0, 2); OBLIGE("C16.rt.trace.offset_has_value", nm::has_value(r), 10); auto v = nm::unwrap(r); EXPECT_VIEW1("C16.rt.trace.offset_shape", "C16.rt.trace.below_the_main_diagonal_of_a_tall_pair", v, 3, a(O+1,i,O) + a(O+2,i,O+1), 10); }
    { auto r = view::trace(a, -3, 0, 2); OBLIGE("C16.rt.trace.offset_has_value", nm::has_value(r), 11); auto v = nm::unwrap(r); EXPECT_VIEW1("C16.rt.trace.offset_shape", "C16.rt.trace.below_the_main_diagonal_of_a_tall_pair", v, 3, a(O+3,i,O), 11); }
    { auto r = view::trace(a, 1, 0, 2);  OBLIGE("C16.rt.trace.offset_has_value", nm::has_value(r), 12); auto v = nm::unwrap(r); EXPECT_VIEW1("C16.rt.trace.offset_shape", "C16.rt.trace.above_the_main_diagonal_of_a_tall_pair", v, 3, a(O,i,O+1), 12); }
    // axes (2,0): extents 2 and 4 (wide). offset -1: length min(2-1, 4) = 1; offset +2: length min(2, 4-2) = 2
    { auto r = view::trace(a, -1, 2, 0); OBLIGE("C16.rt.trace.offset_has_value", nm::has_value(r), 13); auto v = nm::unwrap(r); EXPECT_VIEW1("C16.rt.trace.offset_shape", "C16.rt.trace.below_the_main_diagonal_of_a_wide_pair", v, 3, a(O,i,O+1), 13); }
    { auto r = view::trace(a, 2, 2, 0);  OBLIGE("C16.rt.trace.offset_has_value", nm::has_value(r), 14); auto v = nm::unwrap(r); EXPECT_VIEW1("C16.rt.trace.offset_shape", "C16.rt.trace.above_the_main_diagonal_of_a_wide_pair", v, 3, a(O+2,i,O) + a(O+3,i,O+1), 14); }
    // axes (1,2): extents 3 and 2. offset -1: length min(3-1, 2) = 2
    { auto r = view::trace(a, -1, 1, 2); OBLIGE("C16.rt.trace.offset_has_value", nm::has_value(r), 15); auto v = nm::unwrap(r); EXPECT_VIEW1("C16.rt.trace.offset_shape", "C16.rt.trace.below_the_main_diagonal_of_a_tall_pair", v, 4, a(i,O+1,O) + a(i,O+2,O+1), 15); }
}
void ob_c16b_negctl(const farr<2,3>& a, const farr<3,2>& b)
{
    cv::assume_shape<2,3>(a); cv::assume_shape<3,2>(b);
    auto v = nm::unwrap(view::matmul(a, b));
    NEGCTL("C16.NEG.rt_matmul_is_elementwise", (long)v(0,1) == a(0,1) * b(0,1), 0);
}
