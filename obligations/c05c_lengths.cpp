// C05 (index level, SYMBOLIC extent): the length of a sliced axis for every extent n up to 2^40 - not only the small extents that
// c05_slice enumerates. a[:] keeps n, a[::k] has ceil(n/k) elements, a[::-k] likewise. (Before F47 the length went through a float
// quotient and was rounded for extents above 2^24.)
#include "common.hpp"
#include "nmtools/array/index/slice.hpp"
using namespace ob;
using nm::None;
template <int STEP>
void ob_c05c_length(size_t n)
{
    ASSUME(n >= 1 && n < (1ul << 40));
    const std::array<size_t,1> shape{n};
    constexpr size_t k = (size_t)(STEP < 0 ? -STEP : STEP);
    { auto r = nm::index::shape_slice(shape, nmtools_tuple{None, None, STEP});
      OBLIGE("C05.length.whole_axis_with_a_step_has_ceil_n_over_step_elements", (size_t)nm::len(r) == 1 && (size_t)nm::at(r, 0) == (n + k - 1) / k, STEP + 10); }
    if constexpr (STEP == 1) {
      auto r = nm::index::shape_slice(shape, nmtools_tuple{None, None});
      OBLIGE("C05.length.whole_axis_keeps_its_extent", (size_t)nm::len(r) == 1 && (size_t)nm::at(r, 0) == n, 0); }
}
template void ob_c05c_length<1>(size_t); template void ob_c05c_length<2>(size_t); template void ob_c05c_length<3>(size_t); template void ob_c05c_length<-1>(size_t); template void ob_c05c_length<-2>(size_t);
// ---- the position a sliced axis reads, for a symbolic extent and a symbolic result index: a[::k][i] is a[i*k], a[::-k][i] is a[n-1-i*k];
// with i below the length the position is inside the axis (the in-bounds clause of C02 for slices, for every extent)
template <int STEP>
void ob_c05c_position(size_t n, size_t i)
{
    ASSUME(n >= 1 && n < (1ul << 40));
    constexpr size_t k = (size_t)(STEP < 0 ? -STEP : STEP);
    ASSUME(i < (n + k - 1) / k);
    const std::array<size_t,1> shape{n}; const std::array<size_t,1> idx{i};
    auto r = nm::index::slice(idx, shape, nmtools_tuple{None, None, STEP});
    const size_t want = STEP > 0 ? i * k : n - 1 - i * k;
    OBLIGE("C05.position.whole_axis_with_a_step", (size_t)nm::len(r) == 1 && (size_t)nm::at(r, 0) == want, STEP + 10);
    // (for |step| > 1 "i < ceil(n/k) implies i*k < n" is integer arithmetic LLVM does not do; it follows from the position law above)
    if constexpr (k == 1) OBLIGE("C02.slice.position_inside_the_axis|C05.position.inside_the_axis", (size_t)nm::at(r, 0) < n, STEP + 10);
}
template void ob_c05c_position<1>(size_t, size_t); template void ob_c05c_position<2>(size_t, size_t); template void ob_c05c_position<3>(size_t, size_t); template void ob_c05c_position<-1>(size_t, size_t); template void ob_c05c_position<-2>(size_t, size_t);
void ob_c05c_negctl(size_t n)
{
    ASSUME(n >= 1 && n < (1ul << 40));
    const std::array<size_t,1> shape{n};
    auto r = nm::index::shape_slice(shape, nmtools_tuple{None, None, 2});
    NEGCTL("C05.NEG.step_is_ignored", (size_t)nm::at(r, 0) == n, 0);
}
