// C03 (moveaxis with several axes): index::moveaxis_to_transpose(shape, source, destination) depends only on the rank and the two axis
// lists, so for a fixed rank its whole domain is finite. Every pair of duplicate-free lists of 2 axes (ranks 3, 4; entries written
// non-negative or negative) and of 3 axes (rank 4) is enumerated here with the lists given as run-time arrays whose values are
// pinned by ASSUME; the expected permutation is NumPy's algorithm written out in the driver:
//     order = [n for n in range(ndim) if n not in source]; for dest, src in sorted(zip(destination, source)): order.insert(dest, src)
#include "common.hpp"
#include "nmtools/array/index/moveaxis.hpp"
using namespace ob;

template <size_t R, size_t M>
constexpr std::array<int,R> numpy_order(const std::array<int,M>& src, const std::array<int,M>& dst)
{
    std::array<int,R> order{}; size_t n = 0;
    for (size_t a = 0; a < R; a++) { bool in = false; for (size_t j = 0; j < M; j++) if (src[j] == (int)a) in = true; if (!in) order[n++] = (int)a; }
    // pairs sorted by destination
    std::array<int,M> idx{}; for (size_t j = 0; j < M; j++) idx[j] = (int)j;
    for (size_t i = 0; i < M; i++) for (size_t j = i+1; j < M; j++) if (dst[idx[j]] < dst[idx[i]]) { int t = idx[i]; idx[i] = idx[j]; idx[j] = t; }
    for (size_t k = 0; k < M; k++) {
        int d = dst[idx[k]], s = src[idx[k]];
        for (size_t i = n; i > (size_t)d; i--) order[i] = order[i-1];
        order[d] = s; n++;
    }
    return order;
}
template <size_t R, size_t M, class Src, class Dst>
__attribute__((always_inline)) inline void one_case(const std::array<size_t,R>& shape, Src, Dst, bool neg_src, bool neg_dst, long tag)
{
    constexpr std::array<int,M> S = Src::value, D = Dst::value;
    constexpr auto want = numpy_order<R,M>(S, D);
    std::array<int,M> src{}, dst{};
    for (size_t j = 0; j < M; j++) { src[j] = neg_src ? S[j] - (int)R : S[j]; dst[j] = neg_dst ? D[j] - (int)R : D[j]; }
    auto r = ix::moveaxis_to_transpose(shape, src, dst);
    OBLIGE("C03.moveaxis_multi.value_for_valid_lists|C15.moveaxis_multi.value_for_valid_lists", static_cast<bool>(r), R, M, tag);
    if (r) for_<R>([&](auto I){ OBLIGE("C03.moveaxis_multi.order_is_numpys", (int)nm::at(*r, I.value) == want[I.value], R, M, tag, I.value); });
}
template <int... V> struct il { static constexpr std::array<int,sizeof...(V)> value{V...}; };

template <size_t R>
void ob_c03_moveaxis_pairs(const std::array<size_t,R>& shape_)
{
    const auto shape = shape_;
    for_<R>([&](auto S0){ for_<R>([&](auto S1){ if constexpr (S0.value != S1.value) {
        for_<R>([&](auto D0){ for_<R>([&](auto D1){ if constexpr (D0.value != D1.value) {
            using S = il<(int)S0.value,(int)S1.value>; using D = il<(int)D0.value,(int)D1.value>;
            constexpr long tag = ((S0.value*R + S1.value)*R + D0.value)*R + D1.value;
            one_case<R,2>(shape, S{}, D{}, false, false, tag);
            one_case<R,2>(shape, S{}, D{}, true, false, tag + 1000);
            one_case<R,2>(shape, S{}, D{}, false, true, tag + 2000);
        } }); });
    } }); });
}
#ifdef VERIF_THOROUGH
void ob_c03_moveaxis_triples(const std::array<size_t,4>& shape_)
{
    const auto shape = shape_; constexpr size_t R = 4;
    for_<R>([&](auto S0){ for_<R>([&](auto S1){ for_<R>([&](auto S2){ if constexpr (S0.value != S1.value && S0.value != S2.value && S1.value != S2.value) {
        for_<R>([&](auto D0){ for_<R>([&](auto D1){ for_<R>([&](auto D2){ if constexpr (D0.value != D1.value && D0.value != D2.value && D1.value != D2.value) {
            using S = il<(int)S0.value,(int)S1.value,(int)S2.value>; using D = il<(int)D0.value,(int)D1.value,(int)D2.value>;
            constexpr long tag = ((((S0.value*R + S1.value)*R + S2.value)*R + D0.value)*R + D1.value)*R + D2.value;
            one_case<R,3>(shape, S{}, D{}, false, false, tag);
        } }); }); });
    } }); }); });
}
#endif
void ob_c03_moveaxis_multi_negctl(const std::array<size_t,3>& shape_)
{
    const auto shape = shape_;
    std::array<int,2> src{0,1}, dst{2,0};
    auto r = ix::moveaxis_to_transpose(shape, src, dst);
    if (r) NEGCTL("C03.NEG.moveaxis_multi_identity|C15.NEG.moveaxis_multi_identity", (int)nm::at(*r,0) == 0, 0);
}
template void ob_c03_moveaxis_pairs<3>(const std::array<size_t,3>&);
template void ob_c03_moveaxis_pairs<4>(const std::array<size_t,4>&);
