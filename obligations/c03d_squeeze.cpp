// C03 (squeeze) and C09 (branch-to-branch agreement of one index function): index::shape_squeeze keeps exactly the
// extents that are not 1, in order - for every container kind that has its own branch in the library:
//   fixed-length arrays (std::array, utl::array)      -> the "else" fill loop + resize
//   bounded run-time-length static_vector             -> same loops over len(shape)
//   tuple of clipped integers (bounded shape of an ndarray) -> the meta::template_for / offset branch
// The single-extent pattern MASK is a template parameter (bit i set <=> extent i is 1); the other extents stay symbolic.
#include "common.hpp"
#include "nmtools/array/index/squeeze.hpp"
using namespace ob;

template <size_t MASK, size_t R> constexpr size_t kept_count() { size_t n=0; for (size_t i=0;i<R;i++) if (!((MASK>>i)&1)) n++; return n; }
template <size_t MASK, size_t R> constexpr size_t kept_pos(size_t j) { size_t n=0; for (size_t i=0;i<R;i++) if (!((MASK>>i)&1)) { if (n==j) return i; n++; } return R; }

template <class K, size_t R, size_t MASK>
void ob_c03_squeeze(const mk_t<K,size_t,R>& shape_)
{
    const auto shape = shape_;
    assume_len<R>(shape);
    for_<R>([&](auto I){
        if constexpr ((MASK>>I.value)&1) ASSUME((size_t)rd<I.value>(shape) == 1);
        else { ASSUME((size_t)rd<I.value>(shape) > 1); ASSUME((size_t)rd<I.value>(shape) < 65536); }
    });
    constexpr size_t N = kept_count<MASK,R>();
    auto r = ix::shape_squeeze(shape);
    OBLIGE("C03.squeeze.dim_is_number_of_non_single_extents|C09.squeeze.kinds_agree.dim", (size_t)nm::len(r) == N, R, MASK, kid<K>);
    for_<N>([&](auto J){
        constexpr size_t P = kept_pos<MASK,R>(J.value);
        OBLIGE("C03.squeeze.keeps_non_single_extents_in_order|C09.squeeze.kinds_agree.extents", (size_t)nm::at(r, J.value) == (size_t)rd<P>(shape), R, MASK, kid<K>, J.value);
    });
}

// clipped tuple: element i has the bound B_i = 1 when bit i of MASK is set, else 100+i
template <size_t MASK, size_t I> using clip_el = nmtools::clipped_size_t<(((MASK>>I)&1) ? 1 : 100+I)>;
template <size_t MASK, class Seq> struct mk_clip;
template <size_t MASK, size_t... Is> struct mk_clip<MASK,std::index_sequence<Is...>> { using type = nmtools_tuple<clip_el<MASK,Is>...>; };
template <size_t MASK, size_t R> using clip_t = typename mk_clip<MASK,std::make_index_sequence<R>>::type;

// AT_BOUND: every kept extent equals its bound (the usual state of an ndarray's clipped shape); otherwise strictly below it
template <size_t R, size_t MASK, bool AT_BOUND>
void ob_c09_squeeze_clipped(const clip_t<MASK,R>& shape_)
{
    const auto shape = shape_;
    for_<R>([&](auto I){
        if constexpr ((MASK>>I.value)&1) ASSUME((size_t)nm::get<I.value>(shape) == 1);
        else if constexpr (AT_BOUND) ASSUME((size_t)nm::get<I.value>(shape) == 100+I.value);
        else { ASSUME((size_t)nm::get<I.value>(shape) > 1); ASSUME((size_t)nm::get<I.value>(shape) < 100+I.value); }
    });
    constexpr size_t N = kept_count<MASK,R>();
    auto r = ix::shape_squeeze(shape);
    OBLIGE("C03.squeeze.dim_is_number_of_non_single_extents|C09.squeeze.kinds_agree.dim", (size_t)nm::len(r) == N, R, MASK, 9+AT_BOUND);
    for_<N>([&](auto J){
        constexpr size_t P = kept_pos<MASK,R>(J.value);
        OBLIGE("C03.squeeze.keeps_non_single_extents_in_order|C09.squeeze.kinds_agree.extents", (size_t)nm::get<J.value>(r) == (size_t)nm::get<P>(shape), R, MASK, 9+AT_BOUND, J.value);
    });
}
void ob_c03_squeeze_negctl(const std::array<size_t,3>& shape_)
{
    const auto shape = shape_;
    ASSUME(shape[0] == 1); ASSUME(shape[1] > 1); ASSUME(shape[2] > 1);
    auto r = ix::shape_squeeze(shape);
    NEGCTL("C03.NEG.squeeze_keeps_single|C09.NEG.squeeze_keeps_single", (size_t)nm::at(r,0) == 1, 0);
}
#define SQ(K,R,M) template void ob_c03_squeeze<K,R,M>(const mk_t<K,size_t,R>&);
#define SQK(R,M) SQ(k_std,R,M) SQ(k_utl,R,M) SQ(k_sv,R,M)
#define CL(R,M) template void ob_c09_squeeze_clipped<R,M,false>(const clip_t<M,R>&); template void ob_c09_squeeze_clipped<R,M,true>(const clip_t<M,R>&);
#define BOTH(R,M) SQK(R,M) CL(R,M)
BOTH(1,0) BOTH(2,0) BOTH(2,1) BOTH(2,2) BOTH(3,0) BOTH(3,1) BOTH(3,2) BOTH(3,4) BOTH(3,3) BOTH(3,5) BOTH(3,6)
BOTH(4,1) BOTH(4,6) BOTH(4,9) BOTH(4,10)
#ifdef VERIF_THOROUGH
BOTH(4,0) BOTH(4,2) BOTH(4,3) BOTH(4,4) BOTH(4,5) BOTH(4,7) BOTH(4,8) BOTH(4,11) BOTH(4,12) BOTH(4,13) BOTH(4,14)
BOTH(5,5) BOTH(5,10) BOTH(5,17) BOTH(5,25)
#endif
