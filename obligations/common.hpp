// Shared helpers for obligation drivers: symbolic container kinds and trusted readers.
#pragma once
#include "oblige.hpp"
#include "nmtools/meta.hpp"
#include "nmtools/utility/at.hpp"
#include "nmtools/utility/shape.hpp"
#include "nmtools/utl.hpp"
#include "nmtools/array/ndarray/hybrid.hpp"
#include <array>
#include <tuple>
#include <utility>
#include <cstddef>
#include <cstring>

namespace nm = nmtools;
namespace nmtools::index {}
namespace ix = nmtools::index;
namespace meta = nmtools::meta;

namespace ob {
// compile-time loop, body receives std::integral_constant<size_t,I>
template <size_t... Is, class F>
__attribute__((always_inline)) inline void for_impl(std::index_sequence<Is...>, F&& f)
{ (f(std::integral_constant<size_t,Is>{}),...); }
template <size_t N, class F>
__attribute__((always_inline)) inline void for_(F&& f)
{ for_impl(std::make_index_sequence<N>{}, static_cast<F&&>(f)); }

// fixed-rank container kinds (DESIGN §2 "fixed kinds")
struct k_std {}; struct k_utl {}; struct k_tup {}; struct k_utup {}; struct k_carr{};
// bounded run-time-length kind: utl::static_vector<T,8> with ASSUME(len == R).  meta::len_v of it is 0, so the library takes
// the SAME run-time-loop branches (`for (i=0; i<len(shape); i++)`) that std::vector / dynamic shapes take.
struct k_sv {};
// the same with `int` elements: results are then bounded containers of int whose element stores cannot alias their
// (size_t) length field for TBAA, which lets LLVM unroll loops over len(result)
struct k_svi {};
template <class K, class T, size_t R> struct mk;
template <class T, size_t R> struct mk<k_std,T,R>  { using type = std::array<T,R>; };
template <class T, size_t R> struct mk<k_utl,T,R>  { using type = nmtools::utl::array<T,R>; };
template <class T, size_t> using always_t = T;
template <class T, class Seq> struct mk_tup; 
template <class T, size_t... Is> struct mk_tup<T,std::index_sequence<Is...>> {
    using std_t = std::tuple<always_t<T,Is>...>;
    using utl_t = nmtools::utl::tuple<always_t<T,Is>...>;
};
template <class T, size_t R> struct mk<k_tup,T,R>  { using type = typename mk_tup<T,std::make_index_sequence<R>>::std_t; };
template <class T, size_t R> struct mk<k_utup,T,R> { using type = typename mk_tup<T,std::make_index_sequence<R>>::utl_t; };
template <class T, size_t R> struct mk<k_sv,T,R>   { using type = nmtools::utl::static_vector<T,8>; };
template <class T, size_t R> struct mk<k_svi,T,R>  { using type = nmtools::utl::static_vector<int,8>; };
template <class K, class T, size_t R> using mk_t = typename mk<K,T,R>::type;
// length precondition of a symbolic container: nothing to assume for fixed kinds
template <size_t R, class X> __attribute__((always_inline)) inline void assume_len(const X&) {}
template <size_t R, class T, size_t C> __attribute__((always_inline)) inline void assume_len(const nmtools::utl::static_vector<T,C>& x) { ASSUME((size_t)x.size() == R); }

// trusted reader of element I (does not go through nmtools::at for std kinds)
template <size_t I, class T, size_t N>
__attribute__((always_inline)) inline const T& rd(const std::array<T,N>& a) { return a[I]; }
template <size_t I, class T, size_t N>
__attribute__((always_inline)) inline const T& rd(const nmtools::utl::array<T,N>& a) { return a.buffer[I]; }
template <size_t I, class... Ts>
__attribute__((always_inline)) inline decltype(auto) rd(const std::tuple<Ts...>& a) { return std::get<I>(a); }
template <size_t I, class... Ts>
__attribute__((always_inline)) inline decltype(auto) rd(const nmtools::utl::tuple<Ts...>& a) { return nmtools::utl::get<I>(a); }
template <size_t I, class T, size_t N>
__attribute__((always_inline)) inline const T& rd(const T (&a)[N]) { return a[I]; }
template <size_t I, class T, size_t C>
__attribute__((always_inline)) inline const T& rd(const nmtools::utl::static_vector<T,C>& a) { return a.data()[I]; }

template <size_t I, class T, size_t N>
__attribute__((always_inline)) inline const T& rd(const nmtools::array::hybrid_ndarray<T,N,1>& a) { return a.buffer_[I]; }

template <class T> struct rank_of;
template <class T, size_t N> struct rank_of<std::array<T,N>> : std::integral_constant<size_t,N> {};
template <class T, size_t N> struct rank_of<nmtools::utl::array<T,N>> : std::integral_constant<size_t,N> {};
template <class... Ts> struct rank_of<std::tuple<Ts...>> : std::integral_constant<size_t,sizeof...(Ts)> {};
template <class... Ts> struct rank_of<nmtools::utl::tuple<Ts...>> : std::integral_constant<size_t,sizeof...(Ts)> {};
template <class T> constexpr size_t rank_v = rank_of<std::remove_cv_t<std::remove_reference_t<T>>>::value;

// kind index for obligation ids (0 std::array, 1 utl::array, 2 std::tuple, 3 utl::tuple)
template <class K> constexpr long kid = -1;
template <> constexpr long kid<k_std> = 0; template <> constexpr long kid<k_utl> = 1;
template <> constexpr long kid<k_tup> = 2; template <> constexpr long kid<k_utup> = 3; template <> constexpr long kid<k_sv> = 4; template <> constexpr long kid<k_svi> = 5;
} // namespace ob
