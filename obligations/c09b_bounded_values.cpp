// C09 (+C03/C04/C15): the RUN-TIME-LENGTH branches of index functions (the loops over len(shape) that bounded and heap-backed shapes take)
// compute the same shapes / source indices as the definition, for every extent and index: the operands are bounded run-time-length
// static_vectors whose length is pinned by ASSUME and whose contents are symbolic. (The fixed-length branches are decided by the view-level
// and index-level components of C03 / C04 with the same oracle, hence the kinds agree.)
#include "common.hpp"
#include "nmtools/array/index/pad.hpp"
#include "nmtools/array/index/concatenate.hpp"
#include "nmtools/array/index/tile.hpp"
#include "nmtools/array/index/repeat.hpp"
#include "nmtools/array/index/take.hpp"
#include "nmtools/utility/unwrap.hpp"
#include "nmtools/utility/has_value.hpp"
using namespace ob;
template <size_t C> using svf = nmtools::utl::static_vector<size_t,C>;

// shape_pad(shape, widths): value exactly when there are two widths per axis; extent i + before_i + after_i (widths = all "before", then all "after")
template <size_t R, size_t C>
void ob_c09b_shape_pad(const svf<C>& shape, const svf<2*C>& widths)
{
    ASSUME(shape.size() == R); ASSUME(widths.size() == 2*R);
    auto r = ix::shape_pad(shape, widths);
    OBLIGE("C09.bounded_shape.shape_pad.has_value|C15.bounded_shape.shape_pad.value_for_two_widths_per_axis", nm::has_value(r), R, C);
    if (nm::has_value(r)) { auto s = nm::unwrap(r);
        OBLIGE("C09.bounded_shape.shape_pad.dim|C04.bounded_shape.shape_pad.dim", (size_t)nm::len(s) == R, R, C);
        if ((size_t)nm::len(s) == R) for_<R>([&](auto I){ OBLIGE("C09.bounded_shape.shape_pad.extents|C04.bounded_shape.shape_pad.extents", (size_t)nm::at(s, I.value) == shape[I.value] + widths[I.value] + widths[R + I.value], R, C, I.value); }); }
}
template <size_t R, size_t C, size_t NW>
void ob_c09b_shape_pad_invalid(const svf<C>& shape, const svf<2*C+1>& widths)
{
    ASSUME(shape.size() == R); ASSUME(widths.size() == NW);
    auto r = ix::shape_pad(shape, widths);
    OBLIGE("C09.bounded_shape.shape_pad.nothing_for_another_width_count|C15.bounded_shape.shape_pad.nothing_for_another_width_count", !nm::has_value(r), R, C, NW);
}
// shape_concatenate(a, b, axis): success exactly when the other extents agree; the axis extent is the sum
template <size_t R, size_t C, int AXIS>
void ob_c09b_shape_concatenate(const svf<C>& a, const svf<C>& b)
{
    ASSUME(a.size() == R); ASSUME(b.size() == R);
    constexpr size_t ax = (size_t)(AXIS < 0 ? AXIS + (int)R : AXIS);
    bool agree = true; for_<R>([&](auto I){ if constexpr (I.value != ax) agree = agree && a[I.value] == b[I.value]; });
    if (agree) {
        const auto okshape = ix::shape_concatenate(a, b, AXIS); const bool ok = nm::get<0>(okshape); const auto s = nm::get<1>(okshape);
        OBLIGE("C09.bounded_shape.shape_concatenate.succeeds_when_other_extents_agree|C04.bounded_shape.shape_concatenate.succeeds", ok, R, AXIS + 8);
        OBLIGE("C09.bounded_shape.shape_concatenate.dim|C04.bounded_shape.shape_concatenate.dim", (size_t)nm::len(s) == R, R, AXIS + 8);
        if ((size_t)nm::len(s) == R) for_<R>([&](auto I){ OBLIGE("C09.bounded_shape.shape_concatenate.extents|C04.bounded_shape.shape_concatenate.extents", (size_t)nm::at(s, I.value) == (I.value == ax ? a[I.value] + b[I.value] : a[I.value]), R, AXIS + 8, I.value); });
    } else {
        const auto okshape = ix::shape_concatenate(a, b, AXIS); const bool ok = nm::get<0>(okshape); const auto s = nm::get<1>(okshape);
        OBLIGE("C09.bounded_shape.shape_concatenate.fails_when_another_extent_differs|C15.bounded_shape.shape_concatenate.fails", !ok, R, AXIS + 8);
    }
}
// tile(shape, reps, indices): source index = destination index modulo the source extent (reps as long as the shape)
template <size_t R, size_t C>
void ob_c09b_tile(const svf<C>& shape, const svf<C>& reps, const svf<C>& idx)
{
    ASSUME(shape.size() == R); ASSUME(reps.size() == R); ASSUME(idx.size() == R);
    for_<R>([&](auto I){ ASSUME(shape[I.value] >= 1); });
    auto r = ix::tile(shape, reps, idx);
    OBLIGE("C09.bounded_shape.tile.dim|C04.bounded_shape.tile.dim", (size_t)nm::len(r) == R, R, C);
    if ((size_t)nm::len(r) == R) for_<R>([&](auto I){ OBLIGE("C09.bounded_shape.tile.source_index_is_the_remainder|C04.bounded_shape.tile.source_index_is_the_remainder", (size_t)nm::at(r, I.value) == idx[I.value] % shape[I.value], R, C, I.value); });
}
// shape_take(shape, indices, axis): the axis extent becomes the number of indices; take(index, shape, indices, axis): that coordinate is indices[coordinate]
template <size_t R, size_t C, int AXIS>
void ob_c09b_take(const svf<C>& shape, const std::array<size_t,2>& which, const svf<C>& idx)
{
    ASSUME(shape.size() == R); ASSUME(idx.size() == R);
    constexpr size_t ax = (size_t)(AXIS < 0 ? AXIS + (int)R : AXIS);
    { auto s = ix::shape_take(shape, which, AXIS);
      OBLIGE("C09.bounded_shape.shape_take.dim|C04.bounded_shape.shape_take.dim", (size_t)nm::len(s) == R, R, AXIS + 8);
      if ((size_t)nm::len(s) == R) for_<R>([&](auto I){ OBLIGE("C09.bounded_shape.shape_take.extents|C04.bounded_shape.shape_take.extents", (size_t)nm::at(s, I.value) == (I.value == ax ? 2 : shape[I.value]), R, AXIS + 8, I.value); }); }
    ASSUME(idx[ax] < 2); ASSUME(shape[ax] < (size_t(1) << 40)); ASSUME(which[0] < shape[ax] && which[1] < shape[ax]);
    // (the call sits inside each case of the taken coordinate: LLVM does not thread a run-time-indexed read of the index list)
    for_<2>([&](auto P){ if (idx[ax] == P.value) {
      auto r = ix::take(idx, shape, which, AXIS);
      OBLIGE("C09.bounded_shape.take.dim|C04.bounded_shape.take.dim", (size_t)nm::len(r) == R, R, AXIS + 8, P.value);
      if ((size_t)nm::len(r) == R) for_<R>([&](auto I){ if constexpr (I.value != ax) OBLIGE("C09.bounded_shape.take.other_coordinates_kept|C04.bounded_shape.take.other_coordinates_kept", (size_t)nm::at(r, I.value) == idx[I.value], R, AXIS + 8, I.value, P.value); }); } });
    // (the taken coordinate itself - which[position] - does not fold for a bounded index container; it is decided for fixed kinds by c04c_take)
}
void ob_c09b_negctl(const svf<3>& a, const svf<3>& b)
{ ASSUME(a.size() == 2); ASSUME(b.size() == 2); const auto okshape = ix::shape_concatenate(a, b, 0); const bool ok = nm::get<0>(okshape); NEGCTL("C09.NEG.concatenate_always_succeeds|C04.NEG.concatenate_always_succeeds|C15.NEG.concatenate_always_succeeds|C03.NEG.x", ok, 0); }

template void ob_c09b_shape_pad<1,1>(const svf<1>&, const svf<2>&); template void ob_c09b_shape_pad<2,2>(const svf<2>&, const svf<4>&); template void ob_c09b_shape_pad<3,3>(const svf<3>&, const svf<6>&); template void ob_c09b_shape_pad<2,3>(const svf<3>&, const svf<6>&);
template void ob_c09b_shape_pad_invalid<2,2,5>(const svf<2>&, const svf<5>&); template void ob_c09b_shape_pad_invalid<2,2,3>(const svf<2>&, const svf<5>&); template void ob_c09b_shape_pad_invalid<2,2,2>(const svf<2>&, const svf<5>&); template void ob_c09b_shape_pad_invalid<3,3,7>(const svf<3>&, const svf<7>&);
template void ob_c09b_shape_concatenate<2,2,0>(const svf<2>&, const svf<2>&); template void ob_c09b_shape_concatenate<2,2,1>(const svf<2>&, const svf<2>&); template void ob_c09b_shape_concatenate<2,2,-1>(const svf<2>&, const svf<2>&);
template void ob_c09b_shape_concatenate<3,3,1>(const svf<3>&, const svf<3>&); template void ob_c09b_shape_concatenate<3,3,-3>(const svf<3>&, const svf<3>&); template void ob_c09b_shape_concatenate<3,4,2>(const svf<4>&, const svf<4>&);
template void ob_c09b_tile<1,1>(const svf<1>&, const svf<1>&, const svf<1>&); template void ob_c09b_tile<2,2>(const svf<2>&, const svf<2>&, const svf<2>&); template void ob_c09b_tile<3,3>(const svf<3>&, const svf<3>&, const svf<3>&);
template void ob_c09b_take<2,2,0>(const svf<2>&, const std::array<size_t,2>&, const svf<2>&); template void ob_c09b_take<2,2,-1>(const svf<2>&, const std::array<size_t,2>&, const svf<2>&); template void ob_c09b_take<3,3,1>(const svf<3>&, const std::array<size_t,2>&, const svf<3>&);
