// C20 (+C01.O5): post-state of ndarray_t::resize and the offset functor, all extents (DESIGN §3 C20, C01 O5)
#include "common.hpp"
#include "nmtools/array/ndarray.hpp"
#include <vector>
using namespace ob;
namespace na = nmtools::array;

template <class T, size_t N, size_t R> using fs_fb_row = na::ndarray_t<std::array<T,N>, std::array<size_t,R>>;
template <class T, size_t N, size_t R> using fs_fb_col = na::column_major_ndarray_t<std::array<T,N>, std::array<size_t,R>>;
template <class T, size_t N, size_t R> using fs_hb_row = na::ndarray_t<nmtools::utl::static_vector<T,N>, std::array<size_t,R>>;
template <class T, size_t N, size_t R> using fs_hb_col = na::column_major_ndarray_t<nmtools::utl::static_vector<T,N>, std::array<size_t,R>>;
template <class T, size_t N, size_t R> using us_fb_row = na::ndarray_t<nmtools::utl::array<T,N>, nmtools::utl::array<size_t,R>>;

template <bool ColMajor, size_t R, size_t I, class S>
__attribute__((always_inline)) inline size_t layout_stride(const S& s)
{
    size_t e = 1;
    for_<R>([&](auto J){
        if constexpr (ColMajor) { if constexpr (J.value < I) e *= (size_t)rd<J.value>(s); }
        else                    { if constexpr (J.value > I) e *= (size_t)rd<J.value>(s); }
    });
    return e;
}

// --- resize(request array): success post-state and refusal
template <class A, bool ColMajor, size_t R, long KIND>
void ob_c20_resize(A& a, const std::array<size_t,R>& req_, const std::array<size_t,R>& idx_)
{
    const auto req = req_; const auto idx = idx_; // private copies: the request cannot alias the array object
    auto old_shape = a.shape_;
    size_t old_len = nm::len(a.data_);
    ASSUME(old_len <= 24); // class invariant of the bounded buffer (proved per mutator under C19); trivially true for the fixed buffer
    if (a.resize(req)) {
        for_<R>([&](auto I){
            OBLIGE("C20.resize.shape", (size_t)rd<I.value>(a.shape_) == rd<I.value>(req), KIND, R, I.value);
            OBLIGE("C20.resize.strides", (size_t)rd<I.value>(a.strides_) == (layout_stride<false,R,I.value>(req)), KIND, R, I.value);
            OBLIGE("C20.resize.functor_strides|C01.O5.functor_strides", (size_t)rd<I.value>(a.offset_.strides_) == (layout_stride<ColMajor,R,I.value>(req)), KIND, R, I.value);
        });
        size_t n = 1; for_<R>([&](auto I){ n *= rd<I.value>(req); });
        OBLIGE("C20.resize.numel", n == (size_t)nm::len(a.data_), KIND, R);
        // offset(i...) = sum i_k * functor stride_k  (C01.O5, step 2; step 1 is functor_strides above)
        size_t e = 0; for_<R>([&](auto I){ e += rd<I.value>(idx) * (size_t)rd<I.value>(a.offset_.strides_); });
        size_t off = std::apply([&](auto... i){ return (size_t)a.offset(i...); }, idx);
        OBLIGE("C01.O5.offset", off == e, KIND, R);
        const void* p = std::apply([&](auto... i){ return (const void*)&a(i...); }, idx);
        OBLIGE("C01.O5.address", p == (const void*)&a.data_[e], KIND, R);
    } else {
        for_<R>([&](auto I){
            OBLIGE("C20.refuse.shape_unchanged", (size_t)rd<I.value>(a.shape_) == (size_t)rd<I.value>(old_shape), KIND, R, I.value);
        });
        OBLIGE("C20.refuse.len_unchanged", (size_t)nm::len(a.data_) == old_len, KIND, R);
        // refusal happens only for a mismatching element count
        size_t n = 1; for_<R>([&](auto I){ n *= rd<I.value>(req); });
        OBLIGE("C20.refuse.only_if_numel_differs", n != old_len, KIND, R);
    }
}
// --- resize(i,j,k) variadic form agrees
template <class A, bool ColMajor, size_t R, long KIND>
void ob_c20_resize_variadic(A& a, const std::array<size_t,R>& req_)
{
    const auto req = req_;
    bool ok = std::apply([&](auto... i){ return a.resize(i...); }, req);
    if (ok) {
        for_<R>([&](auto I){
            OBLIGE("C20.resizev.shape", (size_t)rd<I.value>(a.shape_) == rd<I.value>(req), KIND, R, I.value);
            OBLIGE("C20.resizev.functor_strides", (size_t)rd<I.value>(a.offset_.strides_) == (layout_stride<ColMajor,R,I.value>(req)), KIND, R, I.value);
        });
    }
}
// --- default construction establishes the invariant
template <class A, bool ColMajor, size_t R, long KIND>
void ob_c20_ctor()
{
    A a;
    size_t n = 1; for_<R>([&](auto I){ n *= (size_t)rd<I.value>(a.shape_); });
    OBLIGE("C20.ctor.numel", n == (size_t)nm::len(a.data_), KIND, R);
    for_<R>([&](auto I){
        OBLIGE("C20.ctor.functor_strides|C01.O5.ctor_functor_strides", (size_t)rd<I.value>(a.offset_.strides_) == (layout_stride<ColMajor,R,I.value>(a.shape_)), KIND, R, I.value);
    });
}
template <class A, size_t R>
void ob_c20_negctl(A& a, const std::array<size_t,R>& req_)
{
    const auto req = req_;
    if (a.resize(req)) { NEGCTL("C20.NEG.shape0_is_req1", (size_t)rd<0>(a.shape_) == rd<R-1>(req), R); }
}

#define INST(A,COL,R,KIND) \
  template void ob_c20_resize<A,COL,R,KIND>(A&, const std::array<size_t,R>&, const std::array<size_t,R>&); \
  template void ob_c20_resize_variadic<A,COL,R,KIND>(A&, const std::array<size_t,R>&); \
  template void ob_c20_ctor<A,COL,R,KIND>();
#define COMMA ,
#define INSTR(R) \
  INST(fs_fb_row<float COMMA 24 COMMA R>, false, R, 0) INST(fs_fb_col<float COMMA 24 COMMA R>, true, R, 1) \
  INST(fs_hb_row<float COMMA 24 COMMA R>, false, R, 2) INST(fs_hb_col<double COMMA 24 COMMA R>, true, R, 3)
INSTR(1) INSTR(2) INSTR(3)
template void ob_c20_negctl<fs_fb_row<float,24,2>,2>(fs_fb_row<float,24,2>&, const std::array<size_t,2>&);
#ifdef VERIF_THOROUGH
INSTR(4)
#endif

// ---------------- hybrid_ndarray<T,max,dim> ----------------
template <size_t MAX, size_t R>
void ob_c20_hybrid_resize(na::hybrid_ndarray<float,MAX,R>& a, const std::array<size_t,R>& req_, const std::array<size_t,R>& idx_)
{
    const auto req = req_; const auto idx = idx_;
    const auto old_shape = a.shape_;
    const auto old_strides = a.strides_;
    size_t n = 1; for_<R>([&](auto I){ n *= rd<I.value>(req); });
    if (a.resize(req)) {
        for_<R>([&](auto I){
            OBLIGE("C20.hybrid.resize.shape", (size_t)rd<I.value>(a.shape_) == rd<I.value>(req), MAX, R, I.value);
            OBLIGE("C20.hybrid.resize.strides", (size_t)rd<I.value>(a.strides_) == (layout_stride<false,R,I.value>(req)), MAX, R, I.value);
        });
        OBLIGE("C20.hybrid.resize.fits", n <= MAX, MAX, R);
        size_t e = 0; for_<R>([&](auto I){ e += rd<I.value>(idx) * (size_t)rd<I.value>(a.strides_); });
        const void* p = std::apply([&](auto... i){ return (const void*)&a(i...); }, idx);
        OBLIGE("C01.O5.hybrid.address", p == (const void*)&a.buffer_[e], MAX, R);
    } else {
        for_<R>([&](auto I){
            OBLIGE("C20.hybrid.refuse.shape_unchanged", (size_t)rd<I.value>(a.shape_) == (size_t)rd<I.value>(old_shape), MAX, R, I.value);
            OBLIGE("C20.hybrid.refuse.strides_unchanged", (size_t)rd<I.value>(a.strides_) == (size_t)rd<I.value>(old_strides), MAX, R, I.value);
        });
        OBLIGE("C20.hybrid.refuse.only_if_too_large", n > MAX, MAX, R);
    }
}
template <size_t MAX, size_t R>
void ob_c20_hybrid_ctor()
{
    na::hybrid_ndarray<float,MAX,R> a;
    size_t n = 1; for_<R>([&](auto I){ n *= (size_t)rd<I.value>(a.shape_); });
    OBLIGE("C20.hybrid.ctor.fits", n <= MAX, MAX, R);
    for_<R>([&](auto I){
        OBLIGE("C20.hybrid.ctor.strides", (size_t)rd<I.value>(a.strides_) == (layout_stride<false,R,I.value>(a.shape_)), MAX, R, I.value);
    });
}
// a variadic resize with FEWER extents than the fixed dimension is refused (it would otherwise zero-fill the missing extents) and changes nothing
template <size_t MAX>
void ob_c20_hybrid_resize_arity(na::hybrid_ndarray<float,MAX,3>& a, size_t x, size_t y)
{
    const auto old_shape = a.shape_;
    const bool ok = a.resize(x, y);
    OBLIGE("C20.hybrid.resize.too_few_extents_are_refused", !ok, MAX, 3);
    for_<3>([&](auto I){ OBLIGE("C20.hybrid.refuse.shape_unchanged", (size_t)rd<I.value>(a.shape_) == (size_t)rd<I.value>(old_shape), MAX, 3, I.value + 10); });
}
template void ob_c20_hybrid_resize_arity<12>(na::hybrid_ndarray<float,12,3>&, size_t, size_t);
#define INSTH(MAX,R) template void ob_c20_hybrid_resize<MAX,R>(na::hybrid_ndarray<float,MAX,R>&, const std::array<size_t,R>&, const std::array<size_t,R>&); \
   template void ob_c20_hybrid_ctor<MAX,R>();
INSTH(12,1) INSTH(12,2) INSTH(24,3)
#ifdef VERIF_THOROUGH
INSTH(64,4)
#endif

// ---------------- refusal for a request of the wrong rank (fixed-rank shape, resizable buffer)
template <class A, size_t R, size_t R2, long KIND>
void ob_c20_refuse_rank(A& a, const std::array<size_t,R2>& req_)
{
    const auto req = req_;
    const auto old_shape = a.shape_;
    size_t old_len = nm::len(a.data_);
    ASSUME(old_len <= 24);
    if (a.resize(req)) {
        OBLIGE("C20.rank.never_accepts_wrong_rank", false, KIND, R, R2);
    } else {
        for_<R>([&](auto I){
            OBLIGE("C20.rank.refuse.shape_unchanged", (size_t)rd<I.value>(a.shape_) == (size_t)rd<I.value>(old_shape), KIND, R, R2, I.value);
        });
        OBLIGE("C20.rank.refuse.len_unchanged", (size_t)nm::len(a.data_) == old_len, KIND, R, R2);
    }
}
template void ob_c20_refuse_rank<fs_fb_row<float,24,2>,2,3,0>(fs_fb_row<float,24,2>&, const std::array<size_t,3>&);
template void ob_c20_refuse_rank<fs_hb_row<float,24,2>,2,3,2>(fs_hb_row<float,24,2>&, const std::array<size_t,3>&);
template void ob_c20_refuse_rank<fs_hb_row<float,24,3>,3,1,2>(fs_hb_row<float,24,3>&, const std::array<size_t,1>&);

// ---------------- ndarray_t whose shape is a bounded run-time-length container (static_vector): the run-time-loop branches of
// ndarray_t::resize and of the offset functor's copy-assignment (the same branches dynamic shapes take)
using sv4_t = nmtools::utl::static_vector<size_t,4>;
template <class T, size_t N> using hs_fb_row = na::ndarray_t<std::array<T,N>, sv4_t>;
template <class T, size_t N> using hs_fb_col = na::column_major_ndarray_t<std::array<T,N>, sv4_t>;
template <class A, bool ColMajor, size_t R, long KIND, size_t OLD>
void ob_c20_resize_bounded_dim(A& a, const std::array<size_t,R>& req_, const std::array<size_t,R>& idx_)
{
    const auto req = req_; const auto idx = idx_;
    // class invariant on entry: the four length fields agree (established by every constructor and - this is what is proved below - by resize);
    // OLD is the dimension before the call. static_vector::resize value-initialises elements OLD..R-1 in a run-time loop whose stores LLVM
    // cannot separate from the length field for a symbolic start, so the old dimension is split into its five possible values - one
    // function per value (leaves of a run-time split inside one function are merged back by the optimiser).
    ASSUME(a.shape_.size() == OLD); ASSUME(a.strides_.size() == OLD); ASSUME(a.offset_.strides_.size() == OLD); ASSUME(a.offset_.shape_.size() == OLD);
    if (a.resize(req)) {
        OBLIGE("C20.bounded_dim.resize.dim", (size_t)a.shape_.size() == R, KIND, R);
        OBLIGE("C20.bounded_dim.resize.strides_dim", (size_t)a.strides_.size() == R, KIND, R);
        OBLIGE("C20.bounded_dim.resize.functor_strides_dim|C01.O5.bounded_dim.functor_strides_dim", (size_t)a.offset_.strides_.size() == R, KIND, R);
        for_<R>([&](auto I){
            OBLIGE("C20.bounded_dim.resize.shape", (size_t)rd<I.value>(a.shape_) == rd<I.value>(req), KIND, R, I.value);
            OBLIGE("C20.bounded_dim.resize.strides", (size_t)rd<I.value>(a.strides_) == (layout_stride<false,R,I.value>(req)), KIND, R, I.value);
            // (functor strides of a bounded-dim array: copied by a run-time loop inside the functor's operator= - dischargeable for R == 1 only;
            //  the member-wise agreement of that copy is decided by rule R-MEMCOPY)
            if constexpr (R == 1) OBLIGE("C20.bounded_dim.resize.functor_strides|C01.O5.bounded_dim.functor_strides", (size_t)rd<I.value>(a.offset_.strides_) == (layout_stride<ColMajor,R,I.value>(req)), KIND, R, I.value);
        });
        size_t n = 1; for_<R>([&](auto I){ n *= rd<I.value>(req); });
        OBLIGE("C20.bounded_dim.resize.numel", n == (size_t)nm::len(a.data_), KIND, R);
    }
}
#define INSTB_(R,OLD) template void ob_c20_resize_bounded_dim<hs_fb_row<float,24>,false,R,10,OLD>(hs_fb_row<float,24>&, const std::array<size_t,R>&, const std::array<size_t,R>&);
#define INSTBC_(R,OLD) template void ob_c20_resize_bounded_dim<hs_fb_col<float,24>,true,R,11,OLD>(hs_fb_col<float,24>&, const std::array<size_t,R>&, const std::array<size_t,R>&);
#define INSTB(R) INSTB_(R,0) INSTB_(R,1) INSTB_(R,2) INSTB_(R,3) INSTB_(R,4)
#define INSTBC(R) INSTBC_(R,0) INSTBC_(R,1) INSTBC_(R,2) INSTBC_(R,3) INSTBC_(R,4)
// not instantiated (LLVM leaves them residual since static_vector::resize value-initialises the new elements: growth of the dimension by
// three, and growth at all in the column-major rank-2 case whose strides go through a reversed temporary): row-major 0 -> 3, column-major 0,1 -> 2
INSTB(1) INSTB(2) INSTB_(3,1) INSTB_(3,2) INSTB_(3,3) INSTB_(3,4) INSTBC(1) INSTBC_(2,2) INSTBC_(2,3) INSTBC_(2,4)

// ---------------- bounded-dim shape AND bounded buffer (both static_vector): a request whose element count exceeds the buffer's
// capacity is refused and leaves dimension, shape length of the strides and buffer length as they were - also when the request has
// another rank than the array
template <class T, size_t N> using hs_hb_row = na::ndarray_t<nmtools::utl::static_vector<T,N>, sv4_t>;
template <class A, size_t CAP, size_t R2, long KIND, size_t OLD>
void ob_c20_bounded_refuse(A& a, const std::array<size_t,R2>& req_)
{
    const auto req = req_;
    ASSUME(a.shape_.size() == OLD); ASSUME(a.strides_.size() == OLD); ASSUME(a.offset_.strides_.size() == OLD); ASSUME(a.offset_.shape_.size() == OLD);
    ASSUME(a.data_.size() <= CAP);
    const size_t old_dim = a.shape_.size(), old_sdim = a.strides_.size(), old_len = a.data_.size();
    size_t n = 1; for_<R2>([&](auto I){ ASSUME(rd<I.value>(req) < (1ul<<20)); n *= rd<I.value>(req); });
    if (n > CAP) {
        const bool ok = a.resize(req);
        OBLIGE("C20.bounded.refuses_more_than_capacity", !ok, KIND, R2, CAP);
        OBLIGE("C20.bounded.refuse.dim_unchanged", (size_t)a.shape_.size() == old_dim, KIND, R2, CAP);
        OBLIGE("C20.bounded.refuse.strides_dim_unchanged", (size_t)a.strides_.size() == old_sdim, KIND, R2, CAP);
        OBLIGE("C20.bounded.refuse.len_unchanged", (size_t)a.data_.size() == old_len, KIND, R2, CAP);
    } else {
        const bool ok = a.resize(req);
        // (accepting path: dischargeable only when the dimension does not grow and the rank is below 3 - see the note at the instantiations)
        if (ok && R2 < 3 && OLD >= R2) {
            OBLIGE("C20.bounded.accept.dim", (size_t)a.shape_.size() == R2, KIND, R2, CAP);
            OBLIGE("C20.bounded.accept.len", (size_t)a.data_.size() == n, KIND, R2, CAP);
        }
    }
}
#define INSTBR_(R2,OLD) template void ob_c20_bounded_refuse<hs_hb_row<float,12>,12,R2,12,OLD>(hs_hb_row<float,12>&, const std::array<size_t,R2>&);
#define INSTBR(R2) INSTBR_(R2,0) INSTBR_(R2,1) INSTBR_(R2,2) INSTBR_(R2,3) INSTBR_(R2,4)
INSTBR(1) INSTBR(2) INSTBR(3)
