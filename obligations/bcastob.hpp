// shared by c07b_bcast / c07c_where / c06c_bcastview: constant-shape arrays of symbolic longs and NumPy's broadcast read
#pragma once
#include "cview.hpp"
#include "nmtools/array/view/ufuncs/subtract.hpp"
#include "nmtools/array/view/ufuncs/add.hpp"
#include "nmtools/array/view/ufuncs/less.hpp"
#include "nmtools/array/view/ufuncs/negative.hpp"
#include "nmtools/array/view/ufuncs/left_shift.hpp"
#include "nmtools/array/view/where.hpp"
#include "nmtools/array/view/transpose.hpp"
#include "nmtools/array/view/broadcast_to.hpp"
#include "nmtools/array/view/broadcast_arrays.hpp"

// an operand together with its (stated) extents; scalars are passed as they are
template <class A, size_t... E> struct opnd { const A& arr; static constexpr size_t rank = sizeof...(E); static constexpr size_t e[sizeof...(E) ? sizeof...(E) : 1] = {E...}; };
template <size_t... E, class A> inline opnd<A,E...> OP(const A& a) { return {a}; }
template <class X> inline decltype(auto) raw(const X& x) { if constexpr (std::is_arithmetic_v<X>) return (x); else return (x.arr); }
// broadcast read: element of the operand at the index (i,j,k) of a rank-3 (or (j,k) of a rank-2) result, NumPy's rule:
// operands are aligned at the trailing axis, an extent-1 axis reads index 0, missing leading axes are dropped
template <class X> inline long rd3(const X& x, size_t i, size_t j, size_t k)
{
    if constexpr (std::is_arithmetic_v<X>) return x;
    else {
        if constexpr (X::rank == 3) return x.arr(X::e[0] == 1 ? 0 : i, X::e[1] == 1 ? 0 : j, X::e[2] == 1 ? 0 : k);
        else if constexpr (X::rank == 2) return x.arr(X::e[0] == 1 ? 0 : j, X::e[1] == 1 ? 0 : k);
        else return x.arr(X::e[0] == 1 ? 0 : k);
    }
}
template <class X> inline long rd2(const X& x, size_t j, size_t k)
{
    if constexpr (std::is_arithmetic_v<X>) return x;
    else {
        if constexpr (X::rank == 2) return x.arr(X::e[0] == 1 ? 0 : j, X::e[1] == 1 ? 0 : k);
        else return x.arr(X::e[0] == 1 ? 0 : k);
    }
}
