// shared by c07b_bcast / c07c_where / c06c_bcastview: constant-shape arrays of symbolic longs and NumPy's broadcast read
#pragma once
#include "common.hpp"
#include "nmtools/array/ndarray.hpp"
#include "nmtools/array/view/ufuncs/subtract.hpp"
#include "nmtools/array/view/ufuncs/add.hpp"
#include "nmtools/array/view/ufuncs/less.hpp"
#include "nmtools/array/view/ufuncs/negative.hpp"
#include "nmtools/array/view/ufuncs/left_shift.hpp"
#include "nmtools/array/view/where.hpp"
#include "nmtools/array/view/transpose.hpp"
#include "nmtools/array/view/broadcast_to.hpp"
#include "nmtools/array/view/broadcast_arrays.hpp"
#include "nmtools/utility/unwrap.hpp"
using namespace ob;
namespace na = nmtools::array; namespace view = nmtools::view;
template <size_t... E> using cshape = nmtools_tuple<meta::ct<E>...>;
template <size_t... E> using carr = na::ndarray_t<std::array<long,(E * ... * 1)>, cshape<E...>>;

// broadcast read: element of `a` (extents E...) at the index (i,j,k) of a rank-3 (or (j,k) of a rank-2) result, NumPy's rule:
// operands are aligned at the trailing axis, an extent-1 axis reads index 0, missing leading axes are dropped
template <class T> struct ext_of;
template <size_t N, unsigned long... E> struct ext_of<na::ndarray_t<std::array<long,N>, nmtools_tuple<meta::integral_constant<unsigned long,E>...>>> { static constexpr size_t rank = sizeof...(E); static constexpr size_t e[sizeof...(E)] = {E...}; };
template <class A> inline long rd3(const A& a, size_t i, size_t j, size_t k)
{
    if constexpr (std::is_arithmetic_v<A>) return a;
    else {
        using X = ext_of<A>;
        if constexpr (X::rank == 3) return a(X::e[0] == 1 ? 0 : i, X::e[1] == 1 ? 0 : j, X::e[2] == 1 ? 0 : k);
        else if constexpr (X::rank == 2) return a(X::e[0] == 1 ? 0 : j, X::e[1] == 1 ? 0 : k);
        else return a(X::e[0] == 1 ? 0 : k);
    }
}
template <class A> inline long rd2(const A& a, size_t j, size_t k)
{
    if constexpr (std::is_arithmetic_v<A>) return a;
    else {
        using X = ext_of<A>;
        if constexpr (X::rank == 2) return a(X::e[0] == 1 ? 0 : j, X::e[1] == 1 ? 0 : k);
        else return a(X::e[0] == 1 ? 0 : k);
    }
}

