// C05 (view level, small shapes, symbolic element values): view::slice follows Python's slice.indices rule.
// For an axis of extent N (1..4) EVERY combination of start / stop in {None, -N-2 .. N+2} and step in {absent, None, +-1, +-2, +-3} is
// stated: the sliced axis has Python's length and element k of it is the source element start' + k*step (written against the
// source array's own operator()); integers drop their axis (negative ones counted from the end); an ellipsis stands for the
// unnamed axes. The function depends on (extent, start, stop, step) only, so for these extents the enumeration is exhaustive up
// to the range of start / stop beyond which Python clamps (|value| > N behaves like |value| = N+1, which is enumerated).
// The oracle is slice.indices as documented by Python, written here as a constexpr function of four integers.
#include "cview.hpp"
#define HV_ID "C05.view.has_value"
#include "nmtools/array/view/slice.hpp"

namespace c05 {
constexpr long NONE = 99;
struct py_t { long start, step, len; };
// Python: slice(start, stop, step).indices(n) and the length of the resulting range
constexpr py_t pyslice(long n, long s0, long s1, long st)
{
    long step = st == NONE ? 1 : st;
    long lower = step > 0 ? 0 : -1, upper = step > 0 ? n : n - 1;
    long start = 0, stop = 0;
    if (s0 == NONE) start = step < 0 ? upper : lower;
    else { start = s0; if (start < 0) { start += n; if (start < lower) start = lower; } else if (start > upper) start = upper; }
    if (s1 == NONE) stop = step < 0 ? lower : upper;
    else { stop = s1; if (stop < 0) { stop += n; if (stop < lower) stop = lower; } else if (stop > upper) stop = upper; }
    long len = 0;
    if (step > 0) len = stop > start ? (stop - start - 1) / step + 1 : 0;
    else len = start > stop ? (start - stop - 1) / (-step) + 1 : 0;
    return py_t{start, step, len};
}
// the slice argument: a tuple whose parts are run-time ints (constants here) or None; FORM 2 = (start,stop), 3 = (start,stop,step)
template <long S0, long S1, long ST, int FORM>
__attribute__((always_inline)) inline auto spec()
{
    auto part = [](auto c){ constexpr long v = decltype(c)::value; if constexpr (v == NONE) return nm::None; else return (int)v; };
    if constexpr (FORM == 2) return nmtools_tuple{part(std::integral_constant<long,S0>{}), part(std::integral_constant<long,S1>{})};
    else return nmtools_tuple{part(std::integral_constant<long,S0>{}), part(std::integral_constant<long,S1>{}), part(std::integral_constant<long,ST>{})};
}
constexpr long code(long s0, long s1, long st, int form) { return (((s0 + 20) * 200 + (s1 + 20)) * 200 + (st + 20)) * 10 + form; }

// the view under test. FORM 2 / 3: tuple (start,stop) / (start,stop,step) with None parts; 4: index array {start,stop,step}; 5: index array
// {start,stop}; 6: run-time list (array of index arrays) handed to apply_slice; 7: run-time list of either-typed parts (int | tuple)
template <long S0, long S1, long ST, int FORM, class A>
__attribute__((always_inline)) inline auto mkview(const A& a)
{
    if constexpr (FORM == 2 || FORM == 3) return view::slice(a, spec<S0,S1,ST,FORM>(), nmtools_tuple{nm::None, nm::None});
    else if constexpr (FORM == 4) return view::slice(a, std::array<int,3>{(int)S0,(int)S1,(int)ST}, nmtools_tuple{nm::None, nm::None});
    else if constexpr (FORM == 5) return view::slice(a, std::array<int,2>{(int)S0,(int)S1}, nmtools_tuple{nm::None, nm::None});
    else if constexpr (FORM == 6) {
        using part_t = std::array<int,3>;
        return view::apply_slice(a, std::array<part_t,2>{part_t{(int)S0,(int)S1,(int)ST}, part_t{0,2,1}});
    } else {
        using tup_t = nmtools_tuple<int,int,int>; using part_t = nmtools_either<int,tup_t>;
        return view::apply_slice(a, std::array<part_t,2>{part_t{tup_t{(int)S0,(int)S1,(int)ST}}, part_t{tup_t{0,2,1}}});
    }
}
// one (extent, start, stop, step): length and every element of a[start:stop:step, :]
template <size_t N, long S0, long S1, long ST, int FORM, class A>
__attribute__((always_inline)) inline void one(const A& a)
{
    constexpr py_t py = pyslice((long)N, S0, S1, (FORM == 5 ? NONE : ST));
    constexpr long cd = code(S0, S1, ST, FORM);
    auto v = mkview<S0,S1,ST,FORM>(a);
    OBLIGE("C05.slice.length_is_pythons", (cv::shape_is<(size_t)py.len, 2>(v)), N, cd);
    // (the element obligations of the either-typed list do not fold - std::variant bookkeeping -; its lengths are stated, its elements are not)
    if constexpr (FORM != 7)
    for_<(size_t)py.len>([&](auto K){ for_<2>([&](auto J){
        constexpr size_t k = K.value, j = J.value; constexpr size_t src = (size_t)(py.start + (long)k * py.step);
        OBLIGE("C05.slice.element_k_is_source_start_plus_k_step", cv::elem(v, k, j) == (long)a(src, j), N, cd, k, j);
    }); });
}
// values of start / stop for extent N: index 0 .. 2N+4 is -N-2 .. N+2, index 2N+5 is None
template <size_t N> constexpr long val(size_t i) { return i == 2 * N + 5 ? NONE : (long)i - (long)N - 2; }
template <size_t N> constexpr size_t NV = 2 * N + 6;
// step forms: 0 = two-part tuple, 1 = step None, 2..7 = tuple with an integer step; 8..11 index array of three, 12 index array of two,
// 13..16 run-time list of index arrays, 17..20 run-time list of either-typed parts
constexpr size_t NFORMS = 21;
constexpr long STEPS[NFORMS] = {NONE, NONE, 1, 2, 3, -1, -2, -3,   1, 2, -1, -2,   1,   1, 2, -1, -3,   1, 3, -1, -2};
constexpr int  FORMS[NFORMS] = {2, 3, 3, 3, 3, 3, 3, 3,   4, 4, 4, 4,   5,   6, 6, 6, 6,   7, 7, 7, 7};

// one start, every stop, one step form (integer-only forms skip the None entries)
template <size_t N, size_t I0, size_t IS>
__attribute__((used)) void ob_c05_slice(const ARR<N,2>& a)
{
    PIN(a, N, 2);
    for_<NV<N>>([&](auto I1){
        constexpr long s0 = val<N>(I0), s1 = val<N>(I1.value);
        if constexpr (FORMS[IS] <= 3 || (s0 != NONE && s1 != NONE))
            one<N, s0, s1, STEPS[IS], FORMS[IS]>(a);
    });
}
} // namespace c05

#ifndef C05_N
#define C05_N 3
#endif
// step forms [C05_FIRST, C05_LAST) of this translation unit
#ifndef C05_FIRST
#define C05_FIRST 0
#define C05_LAST 8
#endif
// explicit instantiations: every start x every step form for the extent of this translation unit
template <size_t N, size_t... I0, size_t... IS>
void instantiate_all(std::index_sequence<I0...>, std::index_sequence<IS...>)
{
    auto per_start = [](auto i0){ ((void)&c05::ob_c05_slice<N, decltype(i0)::value, C05_FIRST + IS>, ...); };
    (per_start(std::integral_constant<size_t,I0>{}), ...);
}
// force emission (the address of each instantiation is taken in a used function)
__attribute__((used)) void c05_emit() { instantiate_all<C05_N>(std::make_index_sequence<c05::NV<C05_N>>{}, std::make_index_sequence<C05_LAST - C05_FIRST>{}); }

void ob_c05_negctl(const ARR<3,2>& a)
{
    PIN(a, 3, 2);
    auto v = view::slice(a, nmtools_tuple{1, nm::None}, nmtools_tuple{nm::None, nm::None});
    NEGCTL("C05.NEG.slice_from_1_reads_row_0", cv::elem(v, 0, 0) == (long)a(0, 0), 0);
}
