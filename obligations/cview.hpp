// Constant-shape view obligations: the view is built from arrays whose SHAPE is a compile-time constant and whose element VALUES are
// symbols; the front end specialises the whole pipeline and LLVM folds it, so "the element at every index is <definition>" is decided for
// all element values of the stated shapes. expect_view<E...>(ids, v, want, tag): shape(v) == (E...) and v(i...) == want(i...) at every index.
#pragma once
#include "common.hpp"
#include "nmtools/array/ndarray.hpp"
#include "nmtools/utility/unwrap.hpp"
using namespace ob;
namespace na = nmtools::array; namespace view = nmtools::view;
template <size_t... E> using cshape = nmtools_tuple<meta::ct<E>...>;
template <size_t... E> using carr = na::ndarray_t<std::array<long,(E * ... * 1)>, cshape<E...>>;

namespace cv {
// extent I of a shape value whose length may be a compile-time or a run-time quantity; (size_t)-1 when there is no such axis
template <size_t I, class S>
__attribute__((always_inline)) inline size_t ext_at(const S& s)
{
    constexpr auto L = meta::len_v<S>;
    if constexpr (L > 0) { if constexpr (I < (size_t)L) return (size_t)nm::at(s, meta::ct_v<I>); else return (size_t)-1; }
    else return I < (size_t)nm::len(s) ? (size_t)nm::at(s, I) : (size_t)-1;
}
template <size_t... E, class V>
__attribute__((always_inline)) inline bool shape_is(const V& v)
{
    constexpr size_t R = sizeof...(E); constexpr size_t ext[R ? R : 1] = {E...};
    auto shp = nm::shape(v);
    // a scalar (shape None) where an array is expected is a wrong shape, not a build failure of the driver
    if constexpr (nm::is_none_v<decltype(shp)>) return R == 0;
    else {
    bool ok = (size_t)nm::len(shp) == R;
    for_<R>([&](auto I){ ok = ok && ext_at<I.value>(shp) == ext[I.value]; });
    return ok;
    }
}
// element of a view at an index; a scalar result (a wrong rank) yields the scalar instead of failing to build
template <class V, class... I>
__attribute__((always_inline)) inline long elem(const V& v, I... i)
{
    if constexpr (meta::is_num_v<V>) return (long)v; else return (long)v(i...);
}
} // namespace cv

namespace cv {
// C11: whatever the view TYPE claims to know statically must agree with the object's (stated) shape: a fixed shape / dimension / size equals it,
// a bound is not below it. Traits that report "unknown" (a fail type) claim nothing.
template <size_t... E, class V>
__attribute__((always_inline)) inline bool static_knowledge_agrees(const V&)
{
    constexpr size_t R = sizeof...(E); constexpr size_t ext[R ? R : 1] = {E...};
    constexpr size_t N = (E * ... * 1);
    bool ok = true;
    constexpr auto fshape = meta::fixed_shape_v<V>;
    if constexpr (!meta::is_fail_v<decltype(fshape)>) {
        ok = ok && (size_t)nm::len(fshape) == R;
        if constexpr ((size_t)meta::len_v<decltype(fshape)> == R) for_<R>([&](auto I){ ok = ok && (size_t)nm::at(fshape, meta::ct_v<I.value>) == ext[I.value]; });
    }
    constexpr auto fdim = meta::fixed_dim_v<V>;
    if constexpr (!meta::is_fail_v<decltype(fdim)>) ok = ok && (size_t)fdim == R;
    constexpr auto fsize = meta::fixed_size_v<V>;
    if constexpr (!meta::is_fail_v<decltype(fsize)>) ok = ok && (size_t)fsize == N;
    constexpr auto bdim = meta::bounded_dim_v<V>;
    if constexpr (!meta::is_fail_v<decltype(bdim)>) ok = ok && (size_t)bdim >= R;
    constexpr auto bsize = meta::bounded_size_v<V>;
    if constexpr (!meta::is_fail_v<decltype(bsize)>) ok = ok && (size_t)bsize >= N;
    return ok;
}
} // namespace cv
#define STATIC_ID "C11.static_knowledge_of_the_view_type_agrees_with_the_object"
// ids are string literals (the helper is inlined, the id reaches the obligation call as a constant)
#define EXPECT_VIEW1(SID, EID, v, E0, WANT, TAG) do { \
    OBLIGE(SID, (cv::shape_is<E0>(v)), E0, TAG); \
    OBLIGE(STATIC_ID, (cv::static_knowledge_agrees<E0>(v)), E0, TAG, __LINE__); \
    for_<E0>([&](auto I){ constexpr size_t i = I.value; OBLIGE(EID, cv::elem(v, i) == (long)(WANT), E0, TAG, i); }); } while (0)
#define EXPECT_VIEW2(SID, EID, v, E0, E1, WANT, TAG) do { \
    OBLIGE(SID, (cv::shape_is<E0,E1>(v)), E0*10+E1, TAG); \
    OBLIGE(STATIC_ID, (cv::static_knowledge_agrees<E0,E1>(v)), E0*10+E1, TAG, __LINE__); \
    for_<E0>([&](auto I){ for_<E1>([&](auto J){ constexpr size_t i = I.value, j = J.value; (void)i; (void)j; OBLIGE(EID, cv::elem(v, i, j) == (long)(WANT), E0*10+E1, TAG, i, j); }); }); } while (0)
#define EXPECT_VIEW3(SID, EID, v, E0, E1, E2, WANT, TAG) do { \
    OBLIGE(SID, (cv::shape_is<E0,E1,E2>(v)), E0*100+E1*10+E2, TAG); \
    OBLIGE(STATIC_ID, (cv::static_knowledge_agrees<E0,E1,E2>(v)), E0*100+E1*10+E2, TAG, __LINE__); \
    for_<E0>([&](auto I){ for_<E1>([&](auto J){ for_<E2>([&](auto K){ constexpr size_t i = I.value, j = J.value, k = K.value; (void)i; (void)j; (void)k; OBLIGE(EID, cv::elem(v, i, j, k) == (long)(WANT), E0*100+E1*10+E2, TAG, i*10+j, k); }); }); }); } while (0)
#define EXPECT_VIEW4(SID, EID, v, E0, E1, E2, E3, WANT, TAG) do { \
    OBLIGE(SID, (cv::shape_is<E0,E1,E2,E3>(v)), E0*1000+E1*100+E2*10+E3, TAG); \
    OBLIGE(STATIC_ID, (cv::static_knowledge_agrees<E0,E1,E2,E3>(v)), E0*1000+E1*100+E2*10+E3, TAG, __LINE__); \
    for_<E0>([&](auto I){ for_<E1>([&](auto J){ for_<E2>([&](auto K){ for_<E3>([&](auto L){ constexpr size_t i = I.value, j = J.value, k = K.value, l = L.value; (void)i; (void)j; (void)k; (void)l; OBLIGE(EID, cv::elem(v, i, j, k, l) == (long)(WANT), E0*1000+E1*100+E2*10+E3, TAG, i*10+j, k*10+l); }); }); }); }); } while (0)

// ---- fixed-dimension arrays whose shape is a RUN-TIME value (std::array<size_t,R>): the library takes its run-time branches (loops over
// len(shape), maybe-typed results). The object is caller-owned and symbolic; ASSUME pins its shape / strides members to the stated extents
// (the class invariant of a row-major array of that shape), the element values stay symbolic.
template <size_t... E> using farr = na::ndarray_t<std::array<long,(E * ... * 1)>, std::array<size_t,sizeof...(E)>>;
namespace cv {
template <size_t... E, class A>
__attribute__((always_inline)) inline void assume_shape(const A& a)
{
    constexpr size_t R = sizeof...(E); constexpr size_t ext[R] = {E...};
    for_<R>([&](auto I){
        constexpr size_t i = I.value;
        size_t st = 1; for (size_t k = i + 1; k < R; k++) st *= ext[k];
        ASSUME(a.shape_[i] == ext[i]); ASSUME(a.strides_[i] == st);
        ASSUME(a.offset_.shape_[i] == ext[i]); ASSUME(a.offset_.strides_[i] == st);
    });
}
} // namespace cv

// ---- bounded-dimension arrays (shape is a utl::static_vector<size_t,4>: the dimension itself is a run-time value, pinned by ASSUME)
template <size_t... E> using barr = na::ndarray_t<std::array<long,(E * ... * 1)>, nmtools::utl::static_vector<size_t,4>>;
namespace cv {
template <size_t... E, class A>
__attribute__((always_inline)) inline void assume_bounded_shape(const A& a)
{
    constexpr size_t R = sizeof...(E); constexpr size_t ext[R] = {E...};
    ASSUME(a.shape_.size() == R); ASSUME(a.strides_.size() == R); ASSUME(a.offset_.shape_.size() == R); ASSUME(a.offset_.strides_.size() == R);
    for_<R>([&](auto I){
        constexpr size_t i = I.value;
        size_t st = 1; for (size_t k = i + 1; k < R; k++) st *= ext[k];
        ASSUME(a.shape_[i] == ext[i]); ASSUME(a.strides_[i] == st);
        ASSUME(a.offset_.shape_[i] == ext[i]); ASSUME(a.offset_.strides_[i] == st);
    });
}
} // namespace cv

// ---- one source, two array kinds: ARR is carr (shape = compile-time constant) unless VERIF_RT_KIND is defined, then farr (shape = run-time
// value pinned by ASSUME at PIN). VIEW(v, expr): the view expression must have a value (HV_ID names the obligation), v is the unwrapped view.
#ifdef VERIF_RT_KIND
template <size_t... E> using ARR = farr<E...>;
#define PIN(a, ...) cv::assume_shape<__VA_ARGS__>(a)
#else
template <size_t... E> using ARR = carr<E...>;
#define PIN(a, ...) (void)0
#endif
#define VIEW(v, ...) auto v##_maybe = (__VA_ARGS__); OBLIGE(HV_ID, nm::has_value(v##_maybe), __LINE__); auto v = nm::unwrap(v##_maybe)
