// Constant-shape view obligations: the view is built from arrays whose SHAPE is a compile-time constant and whose element VALUES are
// symbols; the front end specialises the whole pipeline and LLVM folds it, so "the element at every index is <definition>" is decided for
// all element values of the stated shapes. expect_view<E...>(ids, v, want, tag): shape(v) == (E...) and v(i...) == want(i...) at every index.
#pragma once
#include "common.hpp"
#include "nmtools/array/ndarray.hpp"
#include "nmtools/utility/unwrap.hpp"
using namespace ob;
namespace na = nmtools::array; namespace view = nmtools::view;
template <size_t... E> using cshape = nmtools_tuple<meta::ct<E>...>;
template <size_t... E> using carr = na::ndarray_t<std::array<long,(E * ... * 1)>, cshape<E...>>;

namespace cv {
// extent I of a shape value whose length may be a compile-time or a run-time quantity; (size_t)-1 when there is no such axis
template <size_t I, class S>
__attribute__((always_inline)) inline size_t ext_at(const S& s)
{
    constexpr auto L = meta::len_v<S>;
    if constexpr (L > 0) { if constexpr (I < (size_t)L) return (size_t)nm::at(s, meta::ct_v<I>); else return (size_t)-1; }
    else return I < (size_t)nm::len(s) ? (size_t)nm::at(s, I) : (size_t)-1;
}
template <size_t... E, class V>
__attribute__((always_inline)) inline bool shape_is(const V& v)
{
    constexpr size_t R = sizeof...(E); constexpr size_t ext[R ? R : 1] = {E...};
    auto shp = nm::shape(v);
    bool ok = (size_t)nm::len(shp) == R;
    for_<R>([&](auto I){ ok = ok && ext_at<I.value>(shp) == ext[I.value]; });
    return ok;
}
} // namespace cv

// ids are string literals (the helper is inlined, the id reaches the obligation call as a constant)
#define EXPECT_VIEW1(SID, EID, v, E0, WANT, TAG) do { \
    OBLIGE(SID, (cv::shape_is<E0>(v)), E0, TAG); \
    for_<E0>([&](auto I){ constexpr size_t i = I.value; OBLIGE(EID, (long)(v)(i) == (long)(WANT), E0, TAG, i); }); } while (0)
#define EXPECT_VIEW2(SID, EID, v, E0, E1, WANT, TAG) do { \
    OBLIGE(SID, (cv::shape_is<E0,E1>(v)), E0*10+E1, TAG); \
    for_<E0>([&](auto I){ for_<E1>([&](auto J){ constexpr size_t i = I.value, j = J.value; (void)i; (void)j; OBLIGE(EID, (long)(v)(i,j) == (long)(WANT), E0*10+E1, TAG, i, j); }); }); } while (0)
#define EXPECT_VIEW3(SID, EID, v, E0, E1, E2, WANT, TAG) do { \
    OBLIGE(SID, (cv::shape_is<E0,E1,E2>(v)), E0*100+E1*10+E2, TAG); \
    for_<E0>([&](auto I){ for_<E1>([&](auto J){ for_<E2>([&](auto K){ constexpr size_t i = I.value, j = J.value, k = K.value; (void)i; (void)j; (void)k; OBLIGE(EID, (long)(v)(i,j,k) == (long)(WANT), E0*100+E1*10+E2, TAG, i*10+j, k); }); }); }); } while (0)
#define EXPECT_VIEW4(SID, EID, v, E0, E1, E2, E3, WANT, TAG) do { \
    OBLIGE(SID, (cv::shape_is<E0,E1,E2,E3>(v)), E0*1000+E1*100+E2*10+E3, TAG); \
    for_<E0>([&](auto I){ for_<E1>([&](auto J){ for_<E2>([&](auto K){ for_<E3>([&](auto L){ constexpr size_t i = I.value, j = J.value, k = K.value, l = L.value; (void)i; (void)j; (void)k; (void)l; OBLIGE(EID, (long)(v)(i,j,k,l) == (long)(WANT), E0*1000+E1*100+E2*10+E3, TAG, i*10+j, k*10+l); }); }); }); }); } while (0)
