// C18 (small shapes, symbolic integer elements; constant-shape and run-time-shape kinds): isequal on whole arrays is exactly
// "same shape AND every pair of corresponding elements equal" - a different shape gives false whatever the (flattened) values are,
// views compare like the arrays they denote.
#include "cview.hpp"
#include "nmtools/utility/isequal.hpp"
#include "nmtools/array/view/transpose.hpp"
#include "nmtools/array/view/reshape.hpp"
namespace utils = nmtools::utils;
#define ALL6(EXPR) ([&]{ bool ok = true; for_<6>([&](auto T){ constexpr size_t t = T.value; ok = ok && (EXPR); }); return ok; }())

void ob_c18b_same_shape(const ARR<2,3>& a, const ARR<2,3>& b)
{ PIN(a, 2,3); PIN(b, 2,3);
    // "iff" as two implications (LLVM does not equate a loop with early exit and a conjunction)
    if ((bool)utils::isequal(a, b)) for_<6>([&](auto T){ constexpr size_t t = T.value; OBLIGE("C18.arrays.equal_implies_every_element_equal", a(t/3,t%3) == b(t/3,t%3), t); });
}
void ob_c18b_same_shape_conv(const ARR<2,3>& a, const ARR<2,3>& b)
{ PIN(a, 2,3); PIN(b, 2,3);
    for_<6>([&](auto T){ constexpr size_t t = T.value; ASSUME(a(t/3,t%3) == b(t/3,t%3)); });
    OBLIGE("C18.arrays.every_element_equal_implies_equal", (bool)utils::isequal(a, b), 0);
}
template <size_t K>
void ob_c18b_one_differs(const ARR<2,3>& a, const ARR<2,3>& b)
{ PIN(a, 2,3); PIN(b, 2,3);
    ASSUME(a(K/3,K%3) != b(K/3,K%3));
    OBLIGE("C18.arrays.one_differing_element_implies_not_equal", !(bool)utils::isequal(a, b), K);
}
template void ob_c18b_one_differs<0>(const ARR<2,3>&, const ARR<2,3>&); template void ob_c18b_one_differs<2>(const ARR<2,3>&, const ARR<2,3>&);
template void ob_c18b_one_differs<3>(const ARR<2,3>&, const ARR<2,3>&); template void ob_c18b_one_differs<5>(const ARR<2,3>&, const ARR<2,3>&);
void ob_c18b_other_shape(const ARR<2,3>& a, const ARR<3,2>& c, const ARR<6>& p, const ARR<1,2,3>& q)
{ PIN(a, 2,3); PIN(c, 3,2); PIN(p, 6); PIN(q, 1,2,3);
    OBLIGE("C18.arrays.different_shape_is_not_equal", !(bool)utils::isequal(a, c), 0);
    OBLIGE("C18.arrays.different_dimension_is_not_equal", !(bool)utils::isequal(a, p), 1);
    OBLIGE("C18.arrays.different_dimension_is_not_equal", !(bool)utils::isequal(q, a), 2);
}
void ob_c18b_views(const ARR<2,3>& a, const ARR<3,2>& c)
{ PIN(a, 2,3); PIN(c, 3,2);
    auto t = nm::unwrap(view::transpose(a));
    if ((bool)utils::isequal(t, c)) for_<6>([&](auto T){ constexpr size_t k = T.value; OBLIGE("C18.arrays.view_compares_like_the_array_it_denotes", a(k%2, k/2) == c(k/2, k%2), k); });
    OBLIGE("C18.arrays.view_of_other_shape_is_not_equal", !(bool)utils::isequal(t, a), 1);
}
void ob_c18b_negctl(const ARR<2,3>& a, const ARR<2,3>& b)
{ PIN(a, 2,3); PIN(b, 2,3);
    NEGCTL("C18.NEG.first_element_decides", (bool)utils::isequal(a, b) == (a((size_t)0,(size_t)0) == b((size_t)0,(size_t)0)), 0);
}
