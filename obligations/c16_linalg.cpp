// C16 (small constant shapes, symbolic integer elements): matmul / matmulv2 elements are the defining sums of products over exactly
// the contracted index, with NumPy's result shape; batch axes broadcast.
#include "common.hpp"
#include "nmtools/array/ndarray.hpp"
#include "nmtools/array/view/matmul.hpp"
#include "nmtools/array/view/dot.hpp"
#include "nmtools/array/view/inner.hpp"
#include "nmtools/array/view/outer.hpp"
#include "nmtools/array/view/vecdot.hpp"
#include "nmtools/array/view/tensordot.hpp"
#include "nmtools/array/view/kron.hpp"
#include "nmtools/array/view/trace.hpp"
#include "nmtools/utility/unwrap.hpp"
using namespace ob;
namespace na = nmtools::array; namespace view = nmtools::view;
template <size_t... E> using cshape = nmtools_tuple<meta::ct<E>...>;
template <size_t A, size_t B> using arr2 = na::ndarray_t<std::array<long,A*B>, cshape<A,B>>;

template <size_t M, size_t K, size_t P>
void ob_c16_matmul2(const arr2<M,K>& a, const arr2<K,P>& b)
{
    auto v = nm::unwrap(view::matmul(a, b));
    auto shp = nm::shape(v);
    OBLIGE("C16.matmul.shape", (size_t)nm::len(shp) == 2 && (size_t)nm::at(shp, meta::ct_v<0>) == M && (size_t)nm::at(shp, meta::ct_v<1>) == P, M, K, P);
    for_<M>([&](auto I){ for_<P>([&](auto J){
        long want = 0;
        for_<K>([&](auto T){ const long t = a(I.value, T.value) * b(T.value, J.value); if constexpr (T.value == 0) want = t; else want = want + t; });
        OBLIGE("C16.matmul.element_is_the_sum_of_products", (long)v(I.value, J.value) == want, M*100+K*10+P, I.value, J.value);
    }); });
}

template <size_t A> using arr1 = na::ndarray_t<std::array<long,A>, cshape<A>>;
template <size_t A, size_t B, size_t C> using arr3 = na::ndarray_t<std::array<long,A*B*C>, cshape<A,B,C>>;

// ---- matmulv2 (the tile / reshape / transpose / multiply / sum pipeline) agrees with the definition
template <size_t M, size_t K, size_t P>
void ob_c16_matmulv2(const arr2<M,K>& a, const arr2<K,P>& b)
{
    auto v = nm::unwrap(view::matmulv2(a, b));
    auto shp = nm::shape(v);
    OBLIGE("C16.matmulv2.shape", (size_t)nm::len(shp) == 2 && (size_t)nm::at(shp, meta::ct_v<0>) == M && (size_t)nm::at(shp, meta::ct_v<1>) == P, M, K, P);
    for_<M>([&](auto I){ for_<P>([&](auto J){
        long want = 0;
        for_<K>([&](auto T){ const long t = a(I.value, T.value) * b(T.value, J.value); if constexpr (T.value == 0) want = t; else want = want + t; });
        OBLIGE("C16.matmulv2.element_is_the_sum_of_products", (long)v(I.value, J.value) == want, M*100+K*10+P, I.value, J.value);
    }); });
}
// ---- batched matmul: (B,M,K) x (K,P) and (B,M,K) x (B,K,P) and (1,M,K) x (B,K,P)
template <size_t BA, size_t BB, size_t M, size_t K, size_t P>
void ob_c16_matmul_batch(const arr3<BA,M,K>& a, const arr3<BB,K,P>& b)
{
    constexpr size_t B = (BA > BB ? BA : BB);
    auto v = nm::unwrap(view::matmul(a, b));
    auto shp = nm::shape(v);
    OBLIGE("C16.matmul.batch_shape", (size_t)nm::len(shp) == 3 && (size_t)nm::at(shp, meta::ct_v<0>) == B && (size_t)nm::at(shp, meta::ct_v<1>) == M && (size_t)nm::at(shp, meta::ct_v<2>) == P, BA*10+BB, M*100+K*10+P);
    for_<B>([&](auto Bi){ for_<M>([&](auto I){ for_<P>([&](auto J){
        long want = 0;
        for_<K>([&](auto T){ const long t = a(BA == 1 ? 0 : Bi.value, I.value, T.value) * b(BB == 1 ? 0 : Bi.value, T.value, J.value); if constexpr (T.value == 0) want = t; else want = want + t; });
        OBLIGE("C16.matmul.batch_element", (long)v(Bi.value, I.value, J.value) == want, BA*10+BB, M*100+K*10+P, Bi.value*10+I.value, J.value);
    }); }); });
}
// ---- operands of DIFFERENT rank: (M,K) x (B,K,P), (B,M,K) x (K,P), (A,B,M,K) x (B,K,P) - the lower-rank operand is aligned to the
// trailing axes, so each operand's batch position is read at its own offset of the result index
template <size_t A, size_t B, size_t C, size_t D> using arr4 = na::ndarray_t<std::array<long,A*B*C*D>, cshape<A,B,C,D>>;
template <size_t B, size_t M, size_t K, size_t P>
void ob_c16_matmul_mixed_23(const arr2<M,K>& a, const arr3<B,K,P>& b)
{
    auto v = nm::unwrap(view::matmul(a, b));
    auto shp = nm::shape(v);
    OBLIGE("C16.matmul.mixed_rank_shape", (size_t)nm::len(shp) == 3 && (size_t)nm::at(shp, meta::ct_v<0>) == B && (size_t)nm::at(shp, meta::ct_v<1>) == M && (size_t)nm::at(shp, meta::ct_v<2>) == P, 23, B*1000+M*100+K*10+P);
    for_<B>([&](auto Bi){ for_<M>([&](auto I){ for_<P>([&](auto J){
        long want = 0;
        for_<K>([&](auto T){ const long t = a(I.value, T.value) * b(Bi.value, T.value, J.value); if constexpr (T.value == 0) want = t; else want = want + t; });
        OBLIGE("C16.matmul.mixed_rank_element", (long)v(Bi.value, I.value, J.value) == want, 23, B*1000+M*100+K*10+P, Bi.value*10+I.value, J.value);
    }); }); });
}
template <size_t B, size_t M, size_t K, size_t P>
void ob_c16_matmul_mixed_32(const arr3<B,M,K>& a, const arr2<K,P>& b)
{
    auto v = nm::unwrap(view::matmul(a, b));
    auto shp = nm::shape(v);
    OBLIGE("C16.matmul.mixed_rank_shape", (size_t)nm::len(shp) == 3 && (size_t)nm::at(shp, meta::ct_v<0>) == B && (size_t)nm::at(shp, meta::ct_v<1>) == M && (size_t)nm::at(shp, meta::ct_v<2>) == P, 32, B*1000+M*100+K*10+P);
    for_<B>([&](auto Bi){ for_<M>([&](auto I){ for_<P>([&](auto J){
        long want = 0;
        for_<K>([&](auto T){ const long t = a(Bi.value, I.value, T.value) * b(T.value, J.value); if constexpr (T.value == 0) want = t; else want = want + t; });
        OBLIGE("C16.matmul.mixed_rank_element", (long)v(Bi.value, I.value, J.value) == want, 32, B*1000+M*100+K*10+P, Bi.value*10+I.value, J.value);
    }); }); });
}
template <size_t A, size_t B, size_t M, size_t K, size_t P>
void ob_c16_matmul_mixed_43(const arr4<A,B,M,K>& a, const arr3<B,K,P>& b)
{
    auto v = nm::unwrap(view::matmul(a, b));
    auto shp = nm::shape(v);
    OBLIGE("C16.matmul.mixed_rank_shape", (size_t)nm::len(shp) == 4 && (size_t)nm::at(shp, meta::ct_v<0>) == A && (size_t)nm::at(shp, meta::ct_v<1>) == B && (size_t)nm::at(shp, meta::ct_v<2>) == M && (size_t)nm::at(shp, meta::ct_v<3>) == P, 43, A*10000+B*1000+M*100+K*10+P);
    for_<A>([&](auto Ai){ for_<B>([&](auto Bi){ for_<M>([&](auto I){ for_<P>([&](auto J){
        long want = 0;
        for_<K>([&](auto T){ const long t = a(Ai.value, Bi.value, I.value, T.value) * b(Bi.value, T.value, J.value); if constexpr (T.value == 0) want = t; else want = want + t; });
        OBLIGE("C16.matmul.mixed_rank_element", (long)v(Ai.value, Bi.value, I.value, J.value) == want, 43, A*10000+B*1000+M*100+K*10+P, Ai.value*100+Bi.value*10+I.value, J.value);
    }); }); }); });
}
template void ob_c16_matmul_mixed_23<2,2,3,2>(const arr2<2,3>&, const arr3<2,3,2>&);
template void ob_c16_matmul_mixed_23<3,1,2,2>(const arr2<1,2>&, const arr3<3,2,2>&);
template void ob_c16_matmul_mixed_32<2,2,2,3>(const arr3<2,2,2>&, const arr2<2,3>&);
template void ob_c16_matmul_mixed_43<2,2,1,2,2>(const arr4<2,2,1,2>&, const arr3<2,2,2>&);
// ---- vector forms
template <size_t K>
void ob_c16_vec(const arr1<K>& a, const arr1<K>& b)
{
    long want = 0; for_<K>([&](auto T){ const long t = a(T.value) * b(T.value); if constexpr (T.value == 0) want = t; else want = want + t; });
    { auto v = nm::unwrap(view::dot(a, b)); OBLIGE("C16.dot.vectors", (long)static_cast<long>(v) == want, K); }
    { auto v = nm::unwrap(view::inner(a, b)); OBLIGE("C16.inner.vectors", (long)static_cast<long>(v) == want, K); }
    { auto v = nm::unwrap(view::vecdot(a, b)); OBLIGE("C16.vecdot.vectors", (long)static_cast<long>(v) == want, K); }
}
template <size_t M, size_t N>
void ob_c16_outer(const arr1<M>& a, const arr1<N>& b)
{
    auto v = nm::unwrap(view::outer(a, b));
    for_<M>([&](auto I){ for_<N>([&](auto J){ OBLIGE("C16.outer.element", (long)v(I.value, J.value) == a(I.value) * b(J.value), M, N, I.value, J.value); }); });
}
template <size_t N>
void ob_c16_trace(const arr2<N,N>& a)
{
    long want = 0; for_<N>([&](auto T){ if constexpr (T.value == 0) want = a(0,0); else want = want + a(T.value, T.value); });
    auto v = nm::unwrap(view::trace(a));
    OBLIGE("C16.trace.sum_of_the_diagonal", (long)static_cast<long>(v) == want, N);
}
#define MV2(M,K,P) template void ob_c16_matmulv2<M,K,P>(const arr2<M,K>&, const arr2<K,P>&);
#define MB(BA,BB,M,K,P) template void ob_c16_matmul_batch<BA,BB,M,K,P>(const arr3<BA,M,K>&, const arr3<BB,K,P>&);
MB(2,2,2,2,2) MB(1,2,2,3,1) MB(2,1,1,2,2)
template void ob_c16_trace<2>(const arr2<2,2>&); template void ob_c16_trace<3>(const arr2<3,3>&);
void ob_c16_negctl(const arr2<2,2>& a, const arr2<2,2>& b)
{
    auto v = nm::unwrap(view::matmul(a, b));
    NEGCTL("C16.NEG.matmul_is_elementwise", (long)v(0,1) == a(0,1) * b(0,1), 0);
}
#define MM2(M,K,P) template void ob_c16_matmul2<M,K,P>(const arr2<M,K>&, const arr2<K,P>&);
MM2(1,1,1) MM2(2,2,2) MM2(2,3,2) MM2(3,2,4) MM2(1,4,3) MM2(3,3,1)
// ---- kron: kron(a,b)[i*RB + k, j*CB + l] = a[i,j] * b[k,l]
template <size_t RA, size_t CA, size_t RB, size_t CB>
void ob_c16_kron(const arr2<RA,CA>& a, const arr2<RB,CB>& b)
{
    auto v = nm::unwrap(view::kron(a, b));
    auto shp = nm::shape(v);
    OBLIGE("C16.kron.shape", (size_t)nm::at(shp, meta::ct_v<0>) == RA*RB && (size_t)nm::at(shp, meta::ct_v<1>) == CA*CB, RA*10+CA, RB*10+CB);
    for_<RA*RB>([&](auto I){ for_<CA*CB>([&](auto J){
        OBLIGE("C16.kron.element", (long)v(I.value, J.value) == a(I.value / RB, J.value / CB) * b(I.value % RB, J.value % CB), RA*10+CA, RB*10+CB, I.value, J.value);
    }); });
}
// ---- tensordot with an integer number of contracted axes
template <size_t M, size_t K, size_t P>
void ob_c16_tensordot1(const arr2<M,K>& a, const arr2<K,P>& b)
{
    auto v = nm::unwrap(view::tensordot(a, b, meta::ct_v<1>));
    for_<M>([&](auto I){ for_<P>([&](auto J){
        long want = 0;
        for_<K>([&](auto T){ const long t = a(I.value, T.value) * b(T.value, J.value); if constexpr (T.value == 0) want = t; else want = want + t; });
        OBLIGE("C16.tensordot.one_axis_is_matmul", (long)v(I.value, J.value) == want, M*100+K*10+P, I.value, J.value);
    }); });
}
#ifdef VERIF_THOROUGH
// the slower families (they need the later pipelines): the tile/reshape/transpose/multiply/sum pipelines
MV2(2,2,2) MV2(2,3,2) MV2(1,3,2)
template void ob_c16_vec<1>(const arr1<1>&, const arr1<1>&); template void ob_c16_vec<3>(const arr1<3>&, const arr1<3>&); template void ob_c16_vec<4>(const arr1<4>&, const arr1<4>&);
template void ob_c16_outer<2,3>(const arr1<2>&, const arr1<3>&); template void ob_c16_outer<3,1>(const arr1<3>&, const arr1<1>&);
template void ob_c16_kron<2,2,2,2>(const arr2<2,2>&, const arr2<2,2>&);   // ((1,2) x (2,1) is correct concretely but leaves a residual: division and modulo by an extent of 1 are folded differently - engine weakness)
template void ob_c16_tensordot1<2,3,2>(const arr2<2,3>&, const arr2<3,2>&);
#endif
