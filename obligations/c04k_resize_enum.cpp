// C04 (index level, exhaustive over small extents): nearest-neighbour resize reads, for destination position p of an axis resized from extent S
// to extent D, the source position floor(p * S / D) - for EVERY S and D in 1..24 and every p < D (the function depends on these three
// integers per axis only; with constants the float conversion inside it is folded). Both axes of a 2-d index are stated, the other axis fixed.
#include "common.hpp"
#include "nmtools/array/index/resize.hpp"
using namespace ob;
template <size_t S, size_t D>
__attribute__((always_inline)) inline void one()
{
    for_<D>([&](auto P){
        constexpr size_t p = P.value, want = (p * S) / D;
        { auto r = ix::resize(std::array<size_t,2>{p, 1}, std::array<size_t,2>{S, 3}, std::array<size_t,2>{D, 6});
          OBLIGE("C04.resize.source_position_is_floor_p_S_over_D", (size_t)nm::at(r,0) == want && (size_t)nm::at(r,1) == 0, S, D, p, 0); }
        { auto r = ix::resize(std::array<size_t,2>{2, p}, std::array<size_t,2>{4, S}, std::array<size_t,2>{3, D});
          OBLIGE("C04.resize.source_position_is_floor_p_S_over_D", (size_t)nm::at(r,1) == want && (size_t)nm::at(r,0) == 2, S, D, p, 1); }
    });
}
template <size_t S>
__attribute__((used)) void ob_c04k_resize()
{ for_<24>([&](auto D){ one<S, D.value + 1>(); }); }
template <size_t... S> void emit(std::index_sequence<S...>) { ((void)&ob_c04k_resize<S + 1>, ...); }
__attribute__((used)) void c04k_emit() { emit(std::make_index_sequence<24>{}); }
void ob_c04k_negctl()
{ auto r = ix::resize(std::array<size_t,1>{1}, std::array<size_t,1>{14}, std::array<size_t,1>{2}); NEGCTL("C04.NEG.resize_reads_the_destination_position", (size_t)nm::at(r,0) == 1, 0); }
