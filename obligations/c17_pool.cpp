// C17 (index level, exhaustive over small parameters): the output shape of 2-d pooling is the standard formula
//   out = floor((H - k) / s) + 1   (ceil instead of floor in ceil mode; a last window that would start beyond the input is dropped, as
//   PyTorch specifies),  batch / channel extents unchanged,
// and the window of output position (i, j) is rows [i*s, i*s + k) x columns [j*s', j*s' + k'), batch / channel position kept.
// shape_pool2d / slice_pool2d depend on (extent, kernel, stride, ceil mode) only; every H in 1..7, k in 1..min(H,3), s in 1..3 and both
// modes are stated on each spatial axis (the other axis fixed), with run-time containers holding constants.
#include "common.hpp"
#include "nmtools/array/index/pooling.hpp"
using namespace ob;
constexpr long std_out(long H, long k, long s, bool ceil_mode)
{
    long q = (H - k) / s, r = (H - k) % s; long out = q + 1 + ((ceil_mode && r != 0) ? 1 : 0);
    if (ceil_mode && (out - 1) * s >= H) out -= 1;   // the last window must start inside the input
    return out;
}

template <size_t H, size_t K, size_t S, bool CEIL, int AXIS>
__attribute__((always_inline)) inline void one()
{
    if constexpr (K <= H) {
        constexpr size_t OH = 5, OK = 2, OS = 2;   // the other spatial axis: extent 5, kernel 2, stride 2 -> 2 (floor) / 3 (ceil)
        std::array<size_t,4> shape = AXIS == 2 ? std::array<size_t,4>{2,3,H,OH} : std::array<size_t,4>{2,3,OH,H};
        std::array<size_t,2> kernel = AXIS == 2 ? std::array<size_t,2>{K,OK} : std::array<size_t,2>{OK,K};
        std::array<size_t,2> stride = AXIS == 2 ? std::array<size_t,2>{S,OS} : std::array<size_t,2>{OS,S};
        constexpr long want = std_out(H,K,S,CEIL), other = std_out(OH,OK,OS,CEIL);
        constexpr long cd = ((H * 10 + K) * 10 + S) * 10 + (CEIL ? 1 : 0);
        auto r = [&](){ if constexpr (CEIL) return ix::shape_pool2d(shape, kernel, stride, nm::True); else return ix::shape_pool2d(shape, kernel, stride, nm::False); }();
        OBLIGE("C17.pool2d.shape.batch_and_channel_kept", (size_t)nm::len(r) == 4 && (size_t)nm::at(r,0) == 2 && (size_t)nm::at(r,1) == 3, cd, AXIS);
        OBLIGE("C17.pool2d.shape.standard_formula", (long)nm::at(r,AXIS) == want && (long)nm::at(r,5-AXIS) == other, cd, AXIS);
        // windows of the first, second and last output position along the axis
        for_<3>([&](auto P){
            constexpr long p = P.value == 0 ? 0 : (P.value == 1 ? (want > 1 ? 1 : 0) : want - 1);
            std::array<size_t,4> idx = AXIS == 2 ? std::array<size_t,4>{1,2,(size_t)p,1} : std::array<size_t,4>{1,2,1,(size_t)p};
            auto w = [&](){ if constexpr (CEIL) return ix::slice_pool2d(idx, shape, kernel, stride, nm::True); else return ix::slice_pool2d(idx, shape, kernel, stride, nm::False); }();
            auto part = [&](size_t a, size_t q){ return (long)nm::at(nm::at(w,a),q); };
            OBLIGE("C17.pool2d.window.rows_and_columns", part(AXIS,0) == p * (long)S && part(AXIS,1) == p * (long)S + (long)K && part(AXIS,2) == 1
                                                       && part(5-AXIS,0) == (long)OS && part(5-AXIS,1) == (long)OS + (long)OK && part(5-AXIS,2) == 1, cd, AXIS, p);
            OBLIGE("C17.pool2d.window.batch_and_channel_position_kept", part(0,0) == 1 && part(0,1) == 2 && part(1,0) == 2 && part(1,1) == 3, cd, AXIS, p);
            // in floor mode every window lies inside the input; in ceil mode only its start does
            if constexpr (!CEIL) OBLIGE("C17.pool2d.window.inside_the_input", part(AXIS,1) <= (long)H, cd, AXIS, p);
            else                 OBLIGE("C17.pool2d.window.starts_inside_the_input", part(AXIS,0) < (long)H, cd, AXIS, p);
        });
    }
}
template <size_t H, int AXIS>
__attribute__((used)) void ob_c17_pool2d()
{
    for_<3>([&](auto K){ for_<3>([&](auto S){ one<H, K.value + 1, S.value + 1, false, AXIS>(); one<H, K.value + 1, S.value + 1, true, AXIS>(); }); });
}
template <size_t... H> void emit(std::index_sequence<H...>) { ((void)&ob_c17_pool2d<H + 1, 2>, ...); ((void)&ob_c17_pool2d<H + 1, 3>, ...); }
__attribute__((used)) void c17_emit() { emit(std::make_index_sequence<7>{}); }
void ob_c17_negctl()
{
    std::array<size_t,4> shape{2,3,5,5}; std::array<size_t,2> kernel{2,2}, stride{2,2};
    auto r = ix::shape_pool2d(shape, kernel, stride, nm::False);
    NEGCTL("C17.NEG.floor_mode_rounds_up", (long)nm::at(r,2) == 3, 0);
}
