// C20 (view level, small shapes, symbolic element values): writing through a mutable view changes exactly the addressed source element and
// nothing else. The array is a caller-owned symbolic object; its elements are read before the write, one element is written through the
// view, and every element is read again: the addressed one holds the written value, all others hold what they held.
#include "cview.hpp"
#define HV_ID "C20.mutable.view_has_value"
#include "nmtools/array/view/mutable_slice.hpp"
#include "nmtools/array/view/mutable_reshape.hpp"
#include "nmtools/array/view/mutable_flatten.hpp"
#include "nmtools/array/view/mutable_ref.hpp"
using nm::None;

// after `WRITE` exactly a(SI,SJ) holds x, all other elements of the (E0,E1) array are unchanged
#define WRITE2(EID, a, E0, E1, SI, SJ, TAG, ...) do { \
    long before[E0][E1]; for_<E0>([&](auto I){ for_<E1>([&](auto J){ before[I.value][J.value] = a(I.value, J.value); }); }); \
    __VA_ARGS__; \
    for_<E0>([&](auto I){ for_<E1>([&](auto J){ constexpr size_t i = I.value, j = J.value; \
        if constexpr (i == (SI) && j == (SJ)) OBLIGE(EID ".addressed_element_holds_the_written_value", a(i, j) == x, TAG, i, j); \
        else OBLIGE(EID ".every_other_element_unchanged", a(i, j) == before[i][j], TAG, i, j); }); }); } while (0)

void ob_c20b_mutable_slice(ARR<3,4>& a, long x)
{ PIN(a, 3,4);
    { VIEW(v, view::mutable_slice(a, nmtools_tuple{1,None}, nmtools_tuple{None,None,2})); WRITE2("C20.mutable_slice", a, 3,4, 2,2, 0, v(1,1) = x); }
}
void ob_c20b_mutable_slice_rev(ARR<3,4>& a, long x)
{ PIN(a, 3,4);
    { VIEW(v, view::mutable_slice(a, nmtools_tuple{None,None,-1}, nmtools_tuple{-3,-1})); WRITE2("C20.mutable_slice", a, 3,4, 0,2, 1, v(2,1) = x); }
}
void ob_c20b_mutable_slice_int(ARR<3,4>& a, long x)
{ PIN(a, 3,4);
    { VIEW(v, view::mutable_slice(a, -1, nmtools_tuple{None,None})); WRITE2("C20.mutable_slice", a, 3,4, 2,3, 2, v(3) = x); }
}
void ob_c20b_mutable_reshape(ARR<3,4>& a, long x)
{ PIN(a, 3,4);
    { VIEW(v, view::mutable_reshape(a, std::array<size_t,2>{2,6})); WRITE2("C20.mutable_reshape", a, 3,4, 2,1, 3, v(1,3) = x); }
}
void ob_c20b_mutable_reshape3(ARR<3,4>& a, long x)
{ PIN(a, 3,4);
    { VIEW(v, view::mutable_reshape(a, std::array<size_t,3>{2,3,2})); WRITE2("C20.mutable_reshape", a, 3,4, 1,3, 4, v(1,0,1) = x); }
}
void ob_c20b_mutable_flatten(ARR<3,4>& a, long x)
{ PIN(a, 3,4);
    { VIEW(v, view::mutable_flatten(a)); WRITE2("C20.mutable_flatten", a, 3,4, 1,2, 5, v(6) = x); }
}
void ob_c20b_mutable_ref(ARR<3,4>& a, long x)
{ PIN(a, 3,4);
    { VIEW(v, view::mutable_ref(a)); WRITE2("C20.mutable_ref", a, 3,4, 2,0, 6, v(2,0) = x); }
}
void ob_c20b_direct(ARR<3,4>& a, long x)
{ PIN(a, 3,4);
    WRITE2("C20.element_write", a, 3,4, 1,1, 7, a(1,1) = x);
    NEGCTL("C20.NEG.write_lands_in_the_neighbour", a(1,2) == x, 0);
}
