// C18: isequal / isclose on index arrays, maybe, either, scalars, tuples, ndarrays of different shape (DESIGN §3 C18)
#include "common.hpp"
#include "nmtools/array/ndarray.hpp"
#include "nmtools/utility/isequal.hpp"
#include "nmtools/utility/isclose.hpp"
#include <optional>
#include <variant>
#include <vector>
using namespace ob;
namespace utils = nmtools::utils;
namespace na = nmtools::array;

// index arrays of equal fixed length: true <=> all elements equal (nested case split, call inside each case)
template <class KA, class KB, size_t R, size_t I>
__attribute__((always_inline)) inline void eq_chain(const mk_t<KA,size_t,R>& a, const mk_t<KB,size_t,R>& b)
{
    if constexpr (I == R) {
        OBLIGE("C18.isequal.index_array.true_when_all_equal", utils::isequal(a,b), kid<KA>, kid<KB>, R);
        OBLIGE("C18.isequal.index_array.symmetric_true", utils::isequal(b,a), kid<KA>, kid<KB>, R);
    } else {
        if ((size_t)rd<I>(a) != (size_t)rd<I>(b)) {
            OBLIGE("C18.isequal.index_array.false_when_differs", !utils::isequal(a,b), kid<KA>, kid<KB>, R, I);
            OBLIGE("C18.isequal.index_array.symmetric_false", !utils::isequal(b,a), kid<KA>, kid<KB>, R, I);
        } else eq_chain<KA,KB,R,I+1>(a,b);
    }
}
template <class KA, class KB, size_t R>
void ob_c18_index_array(const mk_t<KA,size_t,R>& a, const mk_t<KB,size_t,R>& b) { eq_chain<KA,KB,R,0>(a,b); }

// index arrays of different length are different
// (fixed-length arrays of different length are rejected by a static_assert: E3 witness)
template <class A, class B, long TAG>
void ob_c18_index_array_len(const A& a, const B& b)
{
    if ((size_t)nm::len(a) != (size_t)nm::len(b)) OBLIGE("C18.isequal.index_array.false_when_length_differs", !utils::isequal(a,b), TAG);
}
// optional x optional
template <class T>
void ob_c18_maybe(const std::optional<T>& t, const std::optional<T>& u)
{
    if (!t && !u) OBLIGE("C18.isequal.maybe.both_empty_true", utils::isequal(t,u), sizeof(T));
    if (t && !u)  OBLIGE("C18.isequal.maybe.one_empty_false_l", !utils::isequal(t,u), sizeof(T));
    if (!t && u)  OBLIGE("C18.isequal.maybe.one_empty_false_r", !utils::isequal(t,u), sizeof(T));
    if (t && u) {
        if (*t == *u) OBLIGE("C18.isequal.maybe.payload_equal_true", utils::isequal(t,u), sizeof(T));
        else          OBLIGE("C18.isequal.maybe.payload_differs_false", !utils::isequal(t,u), sizeof(T));
    }
}
template <class T>
void ob_c18_maybe_vs_value(const std::optional<T>& t, const T& u)
{
    if (!t) { OBLIGE("C18.isequal.maybe_value.empty_false", !utils::isequal(t,u), sizeof(T)); OBLIGE("C18.isequal.value_maybe.empty_false", !utils::isequal(u,t), sizeof(T)); }
    else if (*t == u) { OBLIGE("C18.isequal.maybe_value.equal_true", utils::isequal(t,u), sizeof(T)); OBLIGE("C18.isequal.value_maybe.equal_true", utils::isequal(u,t), sizeof(T)); }
    else { OBLIGE("C18.isequal.maybe_value.differs_false", !utils::isequal(t,u), sizeof(T)); OBLIGE("C18.isequal.value_maybe.differs_false", !utils::isequal(u,t), sizeof(T)); }
}
// utl::maybe as well
template <class T>
void ob_c18_utl_maybe(const nmtools::utl::maybe<T>& t, const nmtools::utl::maybe<T>& u)
{
    if (!t && !u) OBLIGE("C18.isequal.utl_maybe.both_empty_true", utils::isequal(t,u), sizeof(T));
    if (t && !u)  OBLIGE("C18.isequal.utl_maybe.one_empty_false_l", !utils::isequal(t,u), sizeof(T));
    if (!t && u)  OBLIGE("C18.isequal.utl_maybe.one_empty_false_r", !utils::isequal(t,u), sizeof(T));
    if (t && u) {
        if (*t == *u) OBLIGE("C18.isequal.utl_maybe.payload_equal_true", utils::isequal(t,u), sizeof(T));
        else          OBLIGE("C18.isequal.utl_maybe.payload_differs_false", !utils::isequal(t,u), sizeof(T));
    }
}
// either x either with scalar alternatives (utl::either: plain tag)
void ob_c18_either(const nmtools::utl::either<int,nmtools::none_t>& t, const nmtools::utl::either<int,nmtools::none_t>& u)
{
    using nmtools::get_if;
    // representation invariant of either: the tag names one of the two alternatives
    ASSUME(get_if<int>(&t) || get_if<nmtools::none_t>(&t));
    ASSUME(get_if<int>(&u) || get_if<nmtools::none_t>(&u));
    auto tl = get_if<int>(&t); auto ul = get_if<int>(&u);
    if (tl && ul) {
        if (*tl == *ul) OBLIGE("C18.isequal.either.left_left_equal_true", utils::isequal(t,u), 0);
        else            OBLIGE("C18.isequal.either.left_left_differs_false", !utils::isequal(t,u), 0);
    }
    if (tl && !ul)  OBLIGE("C18.isequal.either.left_right_false", !utils::isequal(t,u), 0);
    if (!tl && ul)  OBLIGE("C18.isequal.either.right_left_false", !utils::isequal(t,u), 0);
    if (!tl && !ul) OBLIGE("C18.isequal.either.none_none_true", utils::isequal(t,u), 0);
}
// scalars and tuples
void ob_c18_scalar(int a, int b, long c, unsigned char d)
{
    if (a == b) OBLIGE("C18.isequal.scalar.equal_true", utils::isequal(a,b), 0); else OBLIGE("C18.isequal.scalar.differs_false", !utils::isequal(a,b), 0);
    if ((long)a == c) OBLIGE("C18.isequal.scalar.mixed_equal_true", utils::isequal(a,c), 1); else OBLIGE("C18.isequal.scalar.mixed_differs_false", !utils::isequal(a,c), 1);
    OBLIGE("C18.isequal.scalar.reflexive", utils::isequal(d,d), 2);
}
void ob_c18_tuple(const std::tuple<int,std::array<size_t,2>>& t, const std::tuple<int,std::array<size_t,2>>& u)
{
    bool e0 = std::get<0>(t)==std::get<0>(u);
    bool e1 = std::get<1>(t)[0]==std::get<1>(u)[0];
    bool e2 = std::get<1>(t)[1]==std::get<1>(u)[1];
    if (e0) { if (e1) { if (e2) OBLIGE("C18.isequal.tuple.all_equal_true", utils::isequal(t,u), 0); else OBLIGE("C18.isequal.tuple.differs_false", !utils::isequal(t,u), 2); }
              else OBLIGE("C18.isequal.tuple.differs_false", !utils::isequal(t,u), 1); }
    else OBLIGE("C18.isequal.tuple.differs_false", !utils::isequal(t,u), 0);
}
// ndarrays: different dimension / different shape -> false (no element is compared); fixed-rank shapes
template <class T, size_t N, size_t RA, size_t RB>
void ob_c18_ndarray_dim(const na::ndarray_t<std::array<T,N>,std::array<size_t,RA>>& a, const na::ndarray_t<std::array<T,N>,std::array<size_t,RB>>& b)
{
    OBLIGE("C18.isequal.ndarray.false_when_dim_differs", !utils::isequal(a,b), RA, RB);
}
template <size_t N, size_t RA, size_t RB>
void ob_c18_isclose_dim(const na::ndarray_t<std::array<float,N>,std::array<size_t,RA>>& a, const na::ndarray_t<std::array<float,N>,std::array<size_t,RB>>& b)
{
    OBLIGE("C18.isclose.ndarray.false_when_dim_differs", !utils::isclose(a,b), RA, RB);
}
template <class T, size_t N, size_t R, size_t AX>
void ob_c18_ndarray_shape(const na::ndarray_t<std::array<T,N>,std::array<size_t,R>>& a, const na::ndarray_t<std::array<T,N>,std::array<size_t,R>>& b)
{
    if (a.shape_[AX] != b.shape_[AX]) OBLIGE("C18.isequal.ndarray.false_when_shape_differs", !utils::isequal(a,b), R, AX);
}
template <size_t N, size_t R, size_t AX>
void ob_c18_isclose_shape(const na::ndarray_t<std::array<float,N>,std::array<size_t,R>>& a, const na::ndarray_t<std::array<float,N>,std::array<size_t,R>>& b)
{
    if (a.shape_[AX] != b.shape_[AX]) OBLIGE("C18.isclose.ndarray.false_when_shape_differs", !utils::isclose(a,b), R, AX);
}
// ndarrays whose shape has a run-time length (std::vector / static_vector): same dimension, one extent differs -> false
template <class A, size_t AX, long TAG>
void ob_c18_ndarray_dynshape(const A& a, const A& b)
{
    ASSUME(nm::len(a.shape_) == 2 && nm::len(b.shape_) == 2);
    if (a.shape_[AX] != b.shape_[AX]) OBLIGE("C18.isequal.ndarray.dynamic_shape.false_when_shape_differs", !utils::isequal(a,b), TAG, AX);
}
template <class A, long TAG>
void ob_c18_ndarray_dyndim(const A& a, const A& b)
{
    if (nm::len(a.shape_) != nm::len(b.shape_)) OBLIGE("C18.isequal.ndarray.dynamic_shape.false_when_dim_differs", !utils::isequal(a,b), TAG);
}
template <class A, size_t AX, long TAG>
void ob_c18_isclose_dynshape(const A& a, const A& b)
{
    ASSUME(nm::len(a.shape_) == 2 && nm::len(b.shape_) == 2);
    if (a.shape_[AX] != b.shape_[AX]) OBLIGE("C18.isclose.ndarray.dynamic_shape.false_when_shape_differs", !utils::isclose(a,b), TAG, AX);
}
// isclose on scalars: |a-b| < eps, the difference taken in the common type of operands and tolerance as "larger minus smaller"
// (LLVM does not relate fabs(a-b) to that form, so the oracle is written the way the mathematical definition is evaluated without a
// wrap-around for unsigned operands); every pair of operand types, either operand order
template <class T, class U, class E, long tag>
void ob_c18_isclose_scalar(T a, U b, E eps)
{
    using C = std::common_type_t<T,U,E>;
    ASSUME(a==a && b==b && eps==eps);
    C ca = (C)a, cb = (C)b; C ad = ca > cb ? ca - cb : cb - ca;
    if (ad < (C)eps) OBLIGE("C18.isclose.scalar.true_when_below_eps", utils::isclose(a,b,eps), tag);
    else             OBLIGE("C18.isclose.scalar.false_when_not_below_eps", !utils::isclose(a,b,eps), tag);
    // the other operand order: the same magnitude (|x| = |-x|), written as that call evaluates it
    C da = cb > ca ? cb - ca : ca - cb;
    if (da < (C)eps) OBLIGE("C18.isclose.scalar.symmetric", utils::isclose(b,a,eps), tag);
    else             OBLIGE("C18.isclose.scalar.symmetric", !utils::isclose(b,a,eps), tag);
}
template void ob_c18_isclose_scalar<float,float,float,1>(float,float,float);
template void ob_c18_isclose_scalar<double,double,double,2>(double,double,double);
template void ob_c18_isclose_scalar<float,float,double,3>(float,float,double);
template void ob_c18_isclose_scalar<int,double,double,4>(int,double,double);
template void ob_c18_isclose_scalar<double,int,double,5>(double,int,double);
template void ob_c18_isclose_scalar<int,float,double,6>(int,float,double);
template void ob_c18_isclose_scalar<long,float,float,7>(long,float,float);
template void ob_c18_isclose_scalar<int,int,double,8>(int,int,double);
template void ob_c18_isclose_scalar<unsigned,unsigned,double,9>(unsigned,unsigned,double);
template void ob_c18_isclose_scalar<unsigned char,int,double,10>(unsigned char,int,double);
template void ob_c18_isclose_scalar<bool,double,double,11>(bool,double,double);
// the tolerance reaches the comparison when one operand is wrapped in an either / optional
void ob_c18_isclose_wrapped(const std::variant<nm::none_t,float>& e, const std::optional<float>& m, float b, double eps)
{
    ASSUME(b==b && eps==eps);
    if (auto p = std::get_if<float>(&e)) {
        float a = *p; ASSUME(a==a);
        double ca = a, cb = b; double ad = ca > cb ? ca - cb : cb - ca;
        double da = cb > ca ? cb - ca : ca - cb;
        if (ad < eps) OBLIGE("C18.isclose.either_vs_scalar.uses_the_given_tolerance", utils::isclose(e,b,eps), 0); else OBLIGE("C18.isclose.either_vs_scalar.uses_the_given_tolerance", !utils::isclose(e,b,eps), 2);
        if (da < eps) OBLIGE("C18.isclose.either_vs_scalar.uses_the_given_tolerance", utils::isclose(b,e,eps), 1); else OBLIGE("C18.isclose.either_vs_scalar.uses_the_given_tolerance", !utils::isclose(b,e,eps), 3);
    }
    if (m) {
        float a = *m; ASSUME(a==a);
        double ca = a, cb = b; double ad = ca > cb ? ca - cb : cb - ca;
        double da = cb > ca ? cb - ca : ca - cb;
        if (ad < eps) OBLIGE("C18.isclose.maybe_vs_scalar.uses_the_given_tolerance", utils::isclose(m,b,eps), 0); else OBLIGE("C18.isclose.maybe_vs_scalar.uses_the_given_tolerance", !utils::isclose(m,b,eps), 2);
        if (da < eps) OBLIGE("C18.isclose.maybe_vs_scalar.uses_the_given_tolerance", utils::isclose(b,m,eps), 1); else OBLIGE("C18.isclose.maybe_vs_scalar.uses_the_given_tolerance", !utils::isclose(b,m,eps), 3);
    }
}
void ob_c18_negctl(const std::array<size_t,2>& a, const std::array<size_t,2>& b)
{
    NEGCTL("C18.NEG.first_equal_implies_equal", a[0]!=b[0] || utils::isequal(a,b), 0);
}
#define IA(KA,KB,R) template void ob_c18_index_array<KA,KB,R>(const mk_t<KA,size_t,R>&, const mk_t<KB,size_t,R>&);
IA(k_std,k_std,1) IA(k_std,k_std,2) IA(k_std,k_std,3) IA(k_std,k_std,4) IA(k_std,k_utl,3) IA(k_utl,k_utl,2) IA(k_tup,k_std,3) IA(k_std,k_tup,2) IA(k_tup,k_tup,3)
template void ob_c18_index_array_len<std::vector<size_t>,std::vector<size_t>,0>(const std::vector<size_t>&, const std::vector<size_t>&);
template void ob_c18_index_array_len<nmtools::utl::static_vector<size_t,4>,nmtools::utl::static_vector<size_t,4>,1>(const nmtools::utl::static_vector<size_t,4>&, const nmtools::utl::static_vector<size_t,4>&);
template void ob_c18_index_array_len<std::vector<size_t>,std::array<size_t,3>,2>(const std::vector<size_t>&, const std::array<size_t,3>&);
template void ob_c18_index_array_len<std::array<size_t,2>,std::vector<size_t>,3>(const std::array<size_t,2>&, const std::vector<size_t>&);
template void ob_c18_index_array_len<nmtools::utl::vector<size_t>,nmtools::utl::vector<size_t>,4>(const nmtools::utl::vector<size_t>&, const nmtools::utl::vector<size_t>&);
template void ob_c18_maybe<int>(const std::optional<int>&, const std::optional<int>&);
template void ob_c18_maybe<unsigned long>(const std::optional<unsigned long>&, const std::optional<unsigned long>&);
template void ob_c18_maybe_vs_value<int>(const std::optional<int>&, const int&);
template void ob_c18_utl_maybe<int>(const nmtools::utl::maybe<int>&, const nmtools::utl::maybe<int>&);
template void ob_c18_ndarray_dim<int,24,2,3>(const na::ndarray_t<std::array<int,24>,std::array<size_t,2>>&, const na::ndarray_t<std::array<int,24>,std::array<size_t,3>>&);
template void ob_c18_ndarray_dim<int,24,3,1>(const na::ndarray_t<std::array<int,24>,std::array<size_t,3>>&, const na::ndarray_t<std::array<int,24>,std::array<size_t,1>>&);
template void ob_c18_isclose_dim<24,2,3>(const na::ndarray_t<std::array<float,24>,std::array<size_t,2>>&, const na::ndarray_t<std::array<float,24>,std::array<size_t,3>>&);
template void ob_c18_ndarray_shape<int,24,2,0>(const na::ndarray_t<std::array<int,24>,std::array<size_t,2>>&, const na::ndarray_t<std::array<int,24>,std::array<size_t,2>>&);
template void ob_c18_ndarray_shape<int,24,2,1>(const na::ndarray_t<std::array<int,24>,std::array<size_t,2>>&, const na::ndarray_t<std::array<int,24>,std::array<size_t,2>>&);
template void ob_c18_ndarray_shape<int,24,3,1>(const na::ndarray_t<std::array<int,24>,std::array<size_t,3>>&, const na::ndarray_t<std::array<int,24>,std::array<size_t,3>>&);
template void ob_c18_isclose_shape<24,2,0>(const na::ndarray_t<std::array<float,24>,std::array<size_t,2>>&, const na::ndarray_t<std::array<float,24>,std::array<size_t,2>>&);
template void ob_c18_isclose_shape<24,2,1>(const na::ndarray_t<std::array<float,24>,std::array<size_t,2>>&, const na::ndarray_t<std::array<float,24>,std::array<size_t,2>>&);

using dyn_i  = na::ndarray_t<std::vector<int>, std::vector<size_t>>;
using dyn_f  = na::ndarray_t<std::vector<float>, std::vector<size_t>>;
using hyb_i  = na::ndarray_t<std::array<int,24>, nmtools::utl::static_vector<size_t,4>>;
// (extent mismatch with run-time-length shapes is not dischargeable - loops over len(shape); decided by rule R-EQSHAPE on the CFG instead)
template void ob_c18_ndarray_dyndim<dyn_i,0>(const dyn_i&, const dyn_i&);
template void ob_c18_ndarray_dyndim<hyb_i,1>(const hyb_i&, const hyb_i&);
