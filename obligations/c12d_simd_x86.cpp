// C12 part 3: the same element-wise obligations as c12c_simd_binary.cpp for the x86 intrinsic back ends (SSE: 4 float / 2 double lanes,
// AVX: 8 / 4), floating-point data only (the back ends have no integer kernels). The add / subtract / multiply intrinsics are plain IR
// operations for clang, so after scalarisation each lane is the scalar operation and the results are compared bit for bit.
// E1-PREFER: clang-O2-novec-scalarized
#include "nmtools/array/eval/simd/x86_sse.hpp"
#include "nmtools/array/eval/simd/x86_avx.hpp"
#define C12C_NO_INSTANCES
#include "c12c_simd_binary.cpp"
B1(float,1,0) B1(float,3,1) B1(float,4,2) B1(float,5,0) B1(float,9,1) B1(float,17,0) B1(double,1,0) B1(double,2,1) B1(double,3,2) B1(double,5,0) B1(double,9,1)
B2(float,2,9,2,9,1,9) B2(float,2,5,2,1,2,5) B2(float,2,5,1,1,2,5) B2(float,2,5,2,1,1,5) B2(float,2,9,1,9,2,9) B2(double,2,5,2,1,1,5) B2(double,2,3,1,3,2,3)
OTT(float,2,5) OTT(float,3,4) OTT(float,2,9) OTT(double,2,3)
U1(float,1,0) U1(float,5,0) U1(float,9,0) U1(double,3,0)
A1(float,5,0) A1(float,9,1) A1(double,3,0) A1(double,5,1)   /* hardshrink: the AVX mask conjunction (a bitwise and of float masks) does not fold; replayed incl. NaN, -0.0, inf: identical */
void ob_c12d_negctl(const tarr<float,5>& a, const tarr<float,5>& b)
{
    auto r = nm::unwrap(na::add(a, b, C12_CTX));
    NEGCTL("C12.NEG.eval_binary_is_lhs", same_val<float>((float)r(4), a(4)), 0);
}
