// C04 (+C02): take along an axis - shape law and source-index law at index level.
//   shape_take(shape, indices, axis)[i] = len(indices) on the (normalised) axis, shape[i] elsewhere
//   take(dst, shape, indices, axis)[i]  = indices[dst[axis]] (a negative entry counts from the end) on the axis, dst[i] elsewhere
// and the source coordinate on the axis is inside the source extent for every valid entry (-n <= v < n).
#include "common.hpp"
#include "nmtools/array/index/take.hpp"
using namespace ob;

// NEG: the entry that is read is negative, written as t - n with 0 <= t < n (otherwise it is t itself)
template <class K, size_t R, size_t M, int AXIS, bool NEG>
void ob_c04_take(const mk_t<K,size_t,R>& shape_, const std::array<int,M>& indices_, const mk_t<K,size_t,R>& dst_, int axis, int t)
{
    assume_len<R>(shape_); assume_len<R>(dst_);
    const auto shape = shape_; auto indices = indices_; const auto dst = dst_;
    constexpr size_t ax = (size_t)(AXIS < 0 ? AXIS + (int)R : AXIS);
    ASSUME(axis == AXIS);
    for_<R>([&](auto I){ ASSUME((size_t)rd<I.value>(shape) >= 1); ASSUME((size_t)rd<I.value>(shape) < (1ul<<30)); });
    const long n = (long)rd<ax>(shape);
    {
        auto s = ix::shape_take(shape, indices, axis);
        OBLIGE("C04.take.shape.dim", (size_t)nm::len(s) == R, kid<K>, R, AXIS+10);
        for_<R>([&](auto I){
            if constexpr (I.value == ax) OBLIGE("C04.take.shape.axis_extent_is_number_of_indices", (size_t)nm::at(s,I.value) == M, kid<K>, R, AXIS+10, I.value);
            else OBLIGE("C04.take.shape.other_extents_kept", (size_t)nm::at(s,I.value) == (size_t)rd<I.value>(shape), kid<K>, R, AXIS+10, I.value);
        });
    }
    for_<R>([&](auto I){ if constexpr (I.value == ax) ASSUME((size_t)rd<I.value>(dst) < M); else ASSUME((size_t)rd<I.value>(dst) < (size_t)rd<I.value>(shape)); });
    ASSUME(t >= 0); ASSUME(t < (1<<30)); ASSUME((long)t < n);
    ASSUME(t - (int)n < 0); // implied by 0 <= t < n < 2^30; stated in the 32-bit form the library computes in
    indices[(size_t)rd<ax>(dst)] = NEG ? t - (int)n : t;
    auto r = ix::take(dst, shape, indices, axis);
    OBLIGE("C04.take.index.dim", (size_t)nm::len(r) == R, kid<K>, R, AXIS+10);
    for_<R>([&](auto I){
        if constexpr (I.value == ax) {
            OBLIGE("C02.take.src_in_shape|C04.take.index.source_inside_extent", (size_t)nm::at(r,I.value) < (size_t)rd<ax>(shape), kid<K>, R, AXIS+10, M*2+NEG);
            if constexpr (!NEG) OBLIGE("C04.take.index.axis_reads_listed_index", (size_t)nm::at(r,I.value) == (size_t)t, kid<K>, R, AXIS+10, M);
            else OBLIGE("C04.take.index.negative_entry_counts_from_end", (size_t)nm::at(r,I.value) == (size_t)t, kid<K>, R, AXIS+10, M);
        } else OBLIGE("C04.take.index.other_coordinates_kept", (size_t)nm::at(r,I.value) == (size_t)rd<I.value>(dst), kid<K>, R, AXIS+10, I.value);
    });
}
void ob_c04_take_negctl(const std::array<size_t,2>& shape_, const std::array<int,3>& indices_, const std::array<size_t,2>& dst_)
{
    const auto shape = shape_; const auto indices = indices_; const auto dst = dst_;
    ASSUME(dst[1] < 3);
    auto r = ix::take(dst, shape, indices, 1);
    NEGCTL("C04.NEG.take_ignores_indices|C02.NEG.take_ignores_indices", (size_t)nm::at(r,1) == dst[1], 0);
}
#define TK(K,R,M,A) template void ob_c04_take<K,R,M,A,false>(const mk_t<K,size_t,R>&, const std::array<int,M>&, const mk_t<K,size_t,R>&, int, int); \
                    template void ob_c04_take<K,R,M,A,true>(const mk_t<K,size_t,R>&, const std::array<int,M>&, const mk_t<K,size_t,R>&, int, int);
#define TKK(R,M,A) TK(k_std,R,M,A) TK(k_utl,R,M,A)
TK(k_sv,2,3,0) TK(k_sv,2,2,-1) TK(k_sv,3,3,1)   // bounded run-time-length shapes
TKK(1,3,0) TKK(1,2,-1) TKK(2,3,0) TKK(2,3,1) TKK(2,2,-1) TKK(2,2,-2) TKK(3,2,0) TKK(3,4,1) TKK(3,3,2) TKK(3,3,-1) TKK(3,2,-3)
#ifdef VERIF_THOROUGH
TKK(4,3,0) TKK(4,2,1) TKK(4,5,2) TKK(4,3,3) TKK(4,3,-1) TKK(4,2,-4) TKK(3,5,-2) TKK(2,4,0)
#endif
