// Generic obligations on an indexing view: shape law, source-index law / in-shape, element law.
#pragma once
#include "common.hpp"
#include "nmtools/array/ndarray.hpp"
#include "nmtools/utility/unwrap.hpp"

namespace ob {
namespace na = nmtools::array;
template <class T, size_t N, size_t R> using arr_fs = na::ndarray_t<std::array<T,N>, std::array<size_t,R>>;

// element I of any index-array-like value (array, tuple, tuple of ct) as size_t
template <size_t I, class X>
__attribute__((always_inline)) inline size_t gx(const X& x) { return (size_t)nm::at(x, meta::ct_v<I>); }

template <class T>
__attribute__((always_inline)) inline bool same_bits(const T& a, const T& b) { return __builtin_memcmp(&a,&b,sizeof(T))==0; }

// ASSUME the source array is well formed w.r.t. nothing: its shape/strides are arbitrary symbols.
// v     : the view (already unwrapped)
// a     : the source array
// dst   : symbolic destination index (array<size_t,RV>)
// eshape: expected shape  (array<size_t,RV>)
// esrc  : expected source index (array<size_t,RA>) for `dst`
#define VIEW_OBLIGATIONS(P, NAME, v, a, RV, RA, dst, eshape, esrc, TAG) VIEW_OBLIGATIONS_X(P, NAME, v, a, RV, RA, dst, eshape, esrc, TAG, (size_t)-1)
// SKIP: source axis whose in-shape clause is non-linear (x < s*r => x/r < s) and therefore not stated
#define VIEW_OBLIGATIONS_X(P, NAME, v, a, RV, RA, dst, eshape, esrc, TAG, SKIP) do {                                          \
    auto _shp = nm::shape(v);                                                                                         \
    OBLIGE(P "." NAME ".dim", (size_t)nm::len(_shp)==RV, RV, RA, TAG);                                                \
    for_<RV>([&](auto I){ OBLIGE(P "." NAME ".shape", gx<I.value>(_shp)==eshape[I.value], RV, RA, TAG, I.value); }); \
    for_<RV>([&](auto I){ ASSUME(dst[I.value] < eshape[I.value]); });                                                 \
    auto _src = (v).indexer.indices(dst);                                                                             \
    OBLIGE(P "." NAME ".srcdim", (size_t)nm::len(_src)==RA, RV, RA, TAG);                                             \
    for_<RA>([&](auto J){ if constexpr (J.value != SKIP) OBLIGE("C02." NAME ".src_in_shape", gx<J.value>(_src) < (size_t)rd<J.value>((a).shape_), RV, RA, TAG, J.value); }); \
    for_<RA>([&](auto J){ OBLIGE(P "." NAME ".srcidx", gx<J.value>(_src)==esrc[J.value], RV, RA, TAG, J.value); });   \
    auto _e1 = std::apply([&](auto... i){ return (v)(i...); }, dst);                                                  \
    auto _e2 = std::apply([&](auto... i){ return (a)(i...); }, esrc);                                                 \
    OBLIGE(P "." NAME ".element", same_bits(_e1,_e2), RV, RA, TAG);                                                   \
} while(0)
} // namespace ob
