// C04 (per-element repeats): index::cumsum - the helper that turns a repeats list into the boundaries of the repeated blocks -
// is the running sum: cumsum(r)[i] = r[0] + ... + r[i], for every fixed-length container kind.
#include "common.hpp"
#include "nmtools/array/index/cumsum.hpp"
using namespace ob;

template <class K, size_t M>
void ob_c04_cumsum(const mk_t<K,size_t,M>& r_)
{
    const auto r = r_;
    assume_len<M>(r);
    auto c = ix::cumsum(r);
    OBLIGE("C04.cumsum.len", (size_t)nm::len(c) == M, kid<K>, M);
    size_t run = 0;
    for_<M>([&](auto I){ run += (size_t)rd<I.value>(r); OBLIGE("C04.cumsum.running_sum", (size_t)rd<I.value>(c) == run, kid<K>, M, I.value); });
}
void ob_c04_cumsum_negctl(const std::array<size_t,3>& r_)
{
    const auto r = r_; auto c = ix::cumsum(r);
    NEGCTL("C04.NEG.cumsum_is_pairwise_sum", (size_t)nm::at(c,2) == r[1] + r[2], 0);
}
#define CS(K,M) template void ob_c04_cumsum<K,M>(const mk_t<K,size_t,M>&);
// (bounded run-time-length static_vector: the result's length is re-read through a copy and does not discharge beyond length 1 - engine limit)
#define CSK(M) CS(k_std,M) CS(k_utl,M) CS(k_tup,M)
CSK(1) CSK(2) CSK(3) CSK(4) CSK(5) CS(k_sv,1)
