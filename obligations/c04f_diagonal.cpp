// C04 (+C02): diagonal at index level (axes already normalised by the view), offset of either sign.
//   shape: the extents of the other axes in order, then the diagonal length min(s1 + min(off,0), s2 - max(off,0))
//   index: coordinate on axis1 = i + max(-off,0), on axis2 = i + max(off,0) (NumPy: a[i, i+off] for off >= 0, a[i-off, i] for off < 0);
//          the other coordinates are the leading destination coordinates in order; both diagonal coordinates are inside their extents.
#include "common.hpp"
#include "nmtools/array/view/diagonal.hpp"
using namespace ob;

template <size_t R, size_t A1, size_t A2> constexpr size_t other_pos(size_t j) { size_t n=0; for (size_t i=0;i<R;i++) { if (i==A1||i==A2) continue; if (n==j) return i; n++; } return R; }

// SIGN: -1 offset < 0, 0 offset == 0, +1 offset > 0
template <class K, size_t R, size_t A1, size_t A2, int SIGN>
void ob_c04_diagonal(const mk_t<K,size_t,R>& shape_, const mk_t<K,size_t,R-1>& idx_, int offset)
{
    assume_len<R>(shape_); assume_len<R-1>(idx_);
    const auto shape = shape_; const auto idx = idx_;
    for_<R>([&](auto I){ ASSUME((size_t)rd<I.value>(shape) >= 1); ASSUME((size_t)rd<I.value>(shape) < (1ul<<20)); });
    const int s1 = (int)rd<A1>(shape), s2 = (int)rd<A2>(shape);
    if constexpr (SIGN < 0) { ASSUME(offset < 0); ASSUME(offset > -(1<<21)); ASSUME(s1 + offset > 0); /* i.e. -offset < s1, in the form the library computes */ }
    else if constexpr (SIGN == 0) ASSUME(offset == 0);
    else { ASSUME(offset > 0); ASSUME(offset < (1<<21)); ASSUME(s2 - offset > 0); }
    const int l1 = SIGN < 0 ? s1 + offset : s1, l2 = SIGN > 0 ? s2 - offset : s2;
    const int dlen = l1 < l2 ? l1 : l2;
    auto s = ix::shape_diagonal(shape, offset, (size_t)A1, (size_t)A2);
    OBLIGE("C04.diagonal.shape.dim", (size_t)nm::len(s) == R-1, kid<K>, R, A1*4+A2, SIGN);
    for_<R-2>([&](auto J){ constexpr size_t P = other_pos<R,A1,A2>(J.value);
        OBLIGE("C04.diagonal.shape.other_extents_in_order", (size_t)nm::at(s,J.value) == (size_t)rd<P>(shape), kid<K>, R, A1*4+A2, J.value); });
    OBLIGE("C04.diagonal.shape.length|C02.diagonal.reported_length_fits_source", (int)nm::at(s,R-2) == dlen, kid<K>, R, A1*4+A2, SIGN);
    for_<R-1>([&](auto J){ ASSUME((size_t)rd<J.value>(idx) < (1ul<<20)); });
    // i < diagonal length, stated per axis in the form "coordinate < extent" (equivalent: i < s1 + min(off,0) and i < s2 - max(off,0))
    const size_t i = rd<R-2>(idx);
    const size_t e1 = SIGN < 0 ? i + (size_t)(-(long)offset) : i;
    const size_t e2 = SIGN > 0 ? i + (size_t)offset : i;
    ASSUME(e1 < (size_t)rd<A1>(shape)); ASSUME(e2 < (size_t)rd<A2>(shape));
    auto r = ix::diagonal(shape, idx, offset, (size_t)A1, (size_t)A2);
    OBLIGE("C04.diagonal.index.dim", (size_t)nm::len(r) == R, kid<K>, R, A1*4+A2, SIGN);
    for_<R-2>([&](auto J){ constexpr size_t P = other_pos<R,A1,A2>(J.value);
        OBLIGE("C04.diagonal.index.other_coordinates_in_order", (size_t)nm::at(r,P) == (size_t)rd<J.value>(idx), kid<K>, R, A1*4+A2, J.value); });
    OBLIGE("C04.diagonal.index.axis1_coordinate", (size_t)nm::at(r,A1) == e1, kid<K>, R, A1*4+A2, SIGN);
    OBLIGE("C04.diagonal.index.axis2_coordinate", (size_t)nm::at(r,A2) == e2, kid<K>, R, A1*4+A2, SIGN);
    OBLIGE("C02.diagonal.axis1_in_shape|C04.diagonal.index.axis1_in_shape", (size_t)nm::at(r,A1) < (size_t)rd<A1>(shape), kid<K>, R, A1*4+A2, SIGN);
    OBLIGE("C02.diagonal.axis2_in_shape|C04.diagonal.index.axis2_in_shape", (size_t)nm::at(r,A2) < (size_t)rd<A2>(shape), kid<K>, R, A1*4+A2, SIGN);
}
void ob_c04_diagonal_negctl(const std::array<size_t,2>& shape_, const std::array<size_t,1>& idx_, int offset)
{
    const auto shape = shape_; const auto idx = idx_;
    ASSUME(offset > 0); ASSUME(offset < 1024); ASSUME(idx[0] < 1024);
    auto r = ix::diagonal(shape, idx, offset, (size_t)0, (size_t)1);
    NEGCTL("C04.NEG.diagonal_ignores_offset|C02.NEG.diagonal_ignores_offset", (size_t)nm::at(r,1) == idx[0], 0);
}
#define DG(K,R,A1,A2) template void ob_c04_diagonal<K,R,A1,A2,-1>(const mk_t<K,size_t,R>&, const mk_t<K,size_t,R-1>&, int); \
                      template void ob_c04_diagonal<K,R,A1,A2,0>(const mk_t<K,size_t,R>&, const mk_t<K,size_t,R-1>&, int); \
                      template void ob_c04_diagonal<K,R,A1,A2,1>(const mk_t<K,size_t,R>&, const mk_t<K,size_t,R-1>&, int);
#define DGK(R,A1,A2) DG(k_std,R,A1,A2) DG(k_utl,R,A1,A2)
DG(k_sv,2,0,1) DG(k_sv,2,1,0) DG(k_sv,3,0,2) DG(k_sv,3,2,0)   // bounded run-time-length shapes: the run-time-loop branches
DGK(2,0,1) DGK(2,1,0) DGK(3,0,1) DGK(3,1,2) DGK(3,0,2) DGK(3,2,0) DGK(4,1,3) DGK(4,2,1)
#ifdef VERIF_THOROUGH
DGK(3,1,0) DGK(3,2,1) DGK(4,0,1) DGK(4,0,2) DGK(4,0,3) DGK(4,1,2) DGK(4,3,0) DGK(4,3,2)
#endif

// an offset at or beyond the extent selects nothing: the diagonal has length 0 (NumPy), the other extents are unchanged
template <class K, size_t R, size_t A1, size_t A2, int SIGN>
void ob_c04_diagonal_beyond(const mk_t<K,size_t,R>& shape_, int offset)
{
    const auto shape = shape_;
    for_<R>([&](auto I){ ASSUME((size_t)rd<I.value>(shape) >= 1); ASSUME((size_t)rd<I.value>(shape) < (1ul<<20)); });
    const int s1 = (int)rd<A1>(shape), s2 = (int)rd<A2>(shape);
    ASSUME(offset > -(1<<21)); ASSUME(offset < (1<<21));
    if constexpr (SIGN < 0) { ASSUME(offset < 0); ASSUME(s1 + offset <= 0); } else { ASSUME(offset > 0); ASSUME(s2 - offset <= 0); }
    auto s = ix::shape_diagonal(shape, offset, (size_t)A1, (size_t)A2);
    OBLIGE("C04.diagonal.shape.empty_beyond_the_extent|C02.diagonal.reported_length_fits_source", (size_t)nm::at(s,R-2) == 0, kid<K>, R, A1*4+A2, SIGN);
}
#define DGB(K,R,A1,A2) template void ob_c04_diagonal_beyond<K,R,A1,A2,-1>(const mk_t<K,size_t,R>&, int); template void ob_c04_diagonal_beyond<K,R,A1,A2,1>(const mk_t<K,size_t,R>&, int);
DGB(k_std,2,0,1) DGB(k_std,2,1,0) DGB(k_std,3,0,2) DGB(k_utl,2,0,1) DGB(k_utl,3,1,2)
