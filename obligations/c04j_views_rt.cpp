// the obligations of c04j_views.cpp on arrays whose shape is a run-time value (the library's run-time branches)
#define VERIF_RT_KIND 1
#include "c04j_views.cpp"
