// the obligations of c08c_reduce_views.cpp on arrays whose shape is a run-time value
#define VERIF_RT_KIND 1
#include "c08c_reduce_views.cpp"
