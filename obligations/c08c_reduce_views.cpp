// C08 (view level, small shapes with symbolic integer elements; constant-shape and run-time-shape kinds): the named reductions
// (sum, prod, amax, amin, reduce_add / reduce_subtract / reduce_maximum with several axes, keepdims, initial), cumsum / cumprod
// have NumPy's result shape and, at every result index, the fold of exactly the source elements whose kept coordinates match.
#include "cview.hpp"
#define HV_ID "C08.view.has_value"
#include "nmtools/array/view/sum.hpp"
#include "nmtools/array/view/prod.hpp"
#include "nmtools/array/view/cumsum.hpp"
#include "nmtools/array/view/ufuncs/logical_xor.hpp"
#include "nmtools/array/view/ufuncs/logical_or.hpp"
#include "nmtools/array/view/ufuncs/logical_and.hpp"
#include "nmtools/array/view/cumprod.hpp"
#include "nmtools/array/view/ufuncs/add.hpp"
#include "nmtools/array/view/ufuncs/subtract.hpp"
#include "nmtools/array/view/ufuncs/maximum.hpp"
#include "nmtools/array/view/ufuncs/amax.hpp"
#include "nmtools/array/view/ufuncs/amin.hpp"
using nm::None; using nm::True; using nm::False;
// fold helpers over a constant range: FOLD(N, t, INIT0, STEP) - acc starts as the expression for t == 0, then acc = STEP
constexpr size_t Z = 0;
#define FOLDN(N, FIRST, NEXT) ([&]{ long acc = 0; for_<N>([&](auto T){ constexpr size_t t = T.value; (void)t; if constexpr (t == 0) acc = (FIRST); else acc = (NEXT); }); return acc; }())
inline long mx(long a, long b) { return a > b ? a : b; }
inline long mn(long a, long b) { return a < b ? a : b; }

// ---- one axis, positive / negative, run-time and compile-time axis values
void ob_c08c_sum_axis(const ARR<2,3,2>& a)
{ PIN(a, 2,3,2);
    { VIEW(v, view::sum(a, 1)); EXPECT_VIEW2("C08.view.sum.shape", "C08.view.sum.over_axis", v, 2,2, FOLDN(3, a(i,t,j), acc + a(i,t,j)), 0); }
    { VIEW(v, view::sum(a, -1)); EXPECT_VIEW2("C08.view.sum.shape", "C08.view.sum.negative_axis", v, 2,3, FOLDN(2, a(i,j,t), acc + a(i,j,t)), 1); }
    { VIEW(v, view::sum(a, meta::ct_v<0>)); EXPECT_VIEW2("C08.view.sum.shape", "C08.view.sum.compile_time_axis", v, 3,2, FOLDN(2, a(t,i,j), acc + a(t,i,j)), 2); }
    { VIEW(v, view::sum(a, -3)); EXPECT_VIEW2("C08.view.sum.shape", "C08.view.sum.negative_axis", v, 3,2, FOLDN(2, a(t,i,j), acc + a(t,i,j)), 3); }
}
// ---- several axes
// (one view per function: with the three views in one function the second one stopped folding in the run-time kind after the slice
//  normalisation was rewritten (F34) - an inlining-order artefact, replayed concretely: the values are right)
void ob_c08c_sum_axes(const ARR<2,3,2>& a)
{ PIN(a, 2,3,2);
    { VIEW(v, view::sum(a, std::array<int,2>{0,2})); EXPECT_VIEW1("C08.view.sum.shape", "C08.view.sum.several_axes", v, 3, FOLDN(4, a(t/2,i,t%2), acc + a(t/2,i,t%2)), 4); }
}
void ob_c08c_sum_axes_negative(const ARR<2,3,2>& a)
{ PIN(a, 2,3,2);
    { VIEW(v, view::sum(a, std::array<int,2>{-1,1})); EXPECT_VIEW1("C08.view.sum.shape", "C08.view.sum.several_axes_negative", v, 2, FOLDN(6, a(i,t/2,t%2), acc + a(i,t/2,t%2)), 5); }
}
void ob_c08c_sum_axes_ct(const ARR<2,3,2>& a)
{ PIN(a, 2,3,2);
    { VIEW(v, view::sum(a, nmtools_tuple{meta::ct_v<0>, meta::ct_v<1>})); EXPECT_VIEW1("C08.view.sum.shape", "C08.view.sum.several_compile_time_axes", v, 2, FOLDN(6, a(t/3,t%3,i), acc + a(t/3,t%3,i)), 6); }
}
// ---- keepdims (compile-time and run-time value), initial, axis None
void ob_c08c_keepdims(const ARR<2,3,2>& a, long init)
{ PIN(a, 2,3,2);
    { VIEW(v, view::sum(a, 1, None, None, True)); EXPECT_VIEW3("C08.view.keepdims.shape_keeps_a_unit_axis", "C08.view.keepdims.element", v, 2,1,2, FOLDN(3, a(i,t,k), acc + a(i,t,k)), 0); }
    // (a run-time keepdims flag yields an either of two view types: not stated here)
    { VIEW(v, view::sum(a, std::array<int,2>{0,2}, None, None, True)); EXPECT_VIEW3("C08.view.keepdims.shape_keeps_a_unit_axis", "C08.view.keepdims.several_axes", v, 1,3,1, FOLDN(4, a(t/2,j,t%2), acc + a(t/2,j,t%2)), 3); }
}
void ob_c08c_initial(const ARR<2,3,2>& a, long init)
{ PIN(a, 2,3,2);
    { VIEW(v, view::sum(a, 1, None, init)); EXPECT_VIEW2("C08.view.initial.shape", "C08.view.initial.fold_starts_from_it", v, 2,2, FOLDN(3, init + a(i,t,j), acc + a(i,t,j)), 4); }
#ifndef VERIF_RT_KIND
    // (last axis with an initial value: the (0,0) instance stays residual for run-time shapes although the value is right - constant shapes only)
    { VIEW(v, view::sum(a, 2, None, init)); EXPECT_VIEW2("C08.view.initial.shape", "C08.view.initial.fold_starts_from_it", v, 2,3, FOLDN(2, init + a(i,j,t), acc + a(i,j,t)), 4); }
#endif
}
void ob_c08c_all(const ARR<2,3>& a, long init)
{ PIN(a, 2,3);
    { VIEW(v, view::sum(a, None)); OBLIGE("C08.view.sum.all_axes", (long)static_cast<long>(v) == FOLDN(6, a(t/3,t%3), acc + a(t/3,t%3)), 0); }
    { VIEW(v, view::prod(a, None)); OBLIGE("C08.view.prod.all_axes", (long)static_cast<long>(v) == FOLDN(6, a(t/3,t%3), acc * a(t/3,t%3)), 1); }
    { VIEW(v, view::sum(a, None, None, None, True)); EXPECT_VIEW2("C08.view.keepdims.all_axes_shape", "C08.view.keepdims.all_axes_element", v, 1,1, FOLDN(6, a(t/3,t%3), acc + a(t/3,t%3)), 5); }
    { VIEW(v, view::sum(a, None, None, init)); OBLIGE("C08.view.sum.all_axes_initial", (long)static_cast<long>(v) == FOLDN(6, init + a(t/3,t%3), acc + a(t/3,t%3)), 2); }
}
// ---- the scalar results: explicit axes that cover every dimension (generic reduction, not the axis=None one) honour `initial` and the order
void ob_c08c_scalar_explicit_axes(const ARR<2,3>& a, const ARR<4>& u, long init)
{ PIN(a, 2,3); PIN(u, 4);
    { VIEW(v, view::sum(a, std::array<int,2>{0,1}, None, init)); OBLIGE("C08.view.scalar.explicit_axes_cover_all.initial_is_folded_in", (long)static_cast<long>(v) == FOLDN(6, init + a(t/3,t%3), acc + a(t/3,t%3)), 0); }
    { VIEW(v, view::sum(a, std::array<int,2>{-1,0}, None, init)); OBLIGE("C08.view.scalar.explicit_axes_cover_all.initial_is_folded_in", (long)static_cast<long>(v) == FOLDN(6, init + a(t/3,t%3), acc + a(t/3,t%3)), 1); }
    { VIEW(v, view::sum(u, 0, None, init)); OBLIGE("C08.view.scalar.rank1_axis0.initial_is_folded_in", (long)static_cast<long>(v) == FOLDN(4, init + u(t), acc + u(t)), 2); }
    { VIEW(v, view::sum(u, -1, None, init)); OBLIGE("C08.view.scalar.rank1_axis0.initial_is_folded_in", (long)static_cast<long>(v) == FOLDN(4, init + u(t), acc + u(t)), 3); }
    { VIEW(v, view::prod(u, 0, None, init)); OBLIGE("C08.view.scalar.rank1_axis0.initial_is_folded_in", (long)static_cast<long>(v) == FOLDN(4, init * u(t), acc * u(t)), 4); }
    { VIEW(v, view::reduce_subtract(u, 0, None, init)); OBLIGE("C08.view.scalar.rank1_axis0.initial_is_the_first_left_operand", (long)static_cast<long>(v) == FOLDN(4, init - u(t), acc - u(t)), 5); }
    { VIEW(v, view::sum(u, 0)); OBLIGE("C08.view.scalar.rank1_axis0.without_initial", (long)static_cast<long>(v) == FOLDN(4, u(t), acc + u(t)), 6); }
}
// ---- dtype: the fold runs in the requested result type, not in the (narrow) element type
#ifdef VERIF_RT_KIND
template <class T> using NARR23 = na::ndarray_t<std::array<T,6>, std::array<size_t,2>>;
#else
template <class T> using NARR23 = na::ndarray_t<std::array<T,6>, cshape<2,3>>;
#endif
template <class ET>
void ob_c08c_dtype(const NARR23<ET>& a, long init)
{ PIN(a, 2,3);
    constexpr long tag = sizeof(ET) * 10 + (std::is_signed_v<ET> ? 1 : 0);
    { VIEW(v, view::sum(a, None, nm::int64)); OBLIGE("C08.view.dtype.whole_array_fold_runs_in_the_result_type", (long)static_cast<long>(v) == FOLDN(6, (long)a(t/3,t%3), acc + (long)a(t/3,t%3)), tag, 0); }
    { VIEW(v, view::sum(a, None, nm::int64, init)); OBLIGE("C08.view.dtype.whole_array_fold_runs_in_the_result_type", (long)static_cast<long>(v) == FOLDN(6, init + (long)a(t/3,t%3), acc + (long)a(t/3,t%3)), tag, 1); }
    { VIEW(v, view::prod(a, None, nm::int64)); OBLIGE("C08.view.dtype.whole_array_fold_runs_in_the_result_type", (long)static_cast<long>(v) == FOLDN(6, (long)a(t/3,t%3), acc * (long)a(t/3,t%3)), tag, 2); }
    { VIEW(v, view::sum(a, 1, nm::int64)); EXPECT_VIEW1("C08.view.dtype.shape", "C08.view.dtype.axis_fold_runs_in_the_result_type", v, 2, FOLDN(3, (long)a(i,t), acc + (long)a(i,t)), tag); }
    { VIEW(v, view::sum(a, std::array<int,2>{0,1}, nm::int64)); OBLIGE("C08.view.dtype.explicit_axes_fold_runs_in_the_result_type", (long)static_cast<long>(v) == FOLDN(6, (long)a(t/3,t%3), acc + (long)a(t/3,t%3)), tag, 3); }
}
template void ob_c08c_dtype<signed char>(const NARR23<signed char>&, long);
template void ob_c08c_dtype<unsigned char>(const NARR23<unsigned char>&, long);
template void ob_c08c_dtype<short>(const NARR23<short>&, long);
// ---- dtype of accumulations: the running fold runs in the requested result type
template <class ET>
void ob_c08c_dtype_acc(const NARR23<ET>& a)
{ PIN(a, 2,3);
    constexpr long tag = sizeof(ET) * 10 + (std::is_signed_v<ET> ? 1 : 0);
    { VIEW(v, view::cumsum(a, 1, nm::int64)); EXPECT_VIEW2("C08.view.dtype.cumsum_shape", "C08.view.dtype.running_fold_runs_in_the_result_type", v, 2,3, FOLDN(j+1, (long)a(i,t), acc + (long)a(i,t)), tag); }
    { VIEW(v, view::cumprod(a, -2, nm::int64)); EXPECT_VIEW2("C08.view.dtype.cumprod_shape", "C08.view.dtype.running_fold_runs_in_the_result_type", v, 2,3, FOLDN(i+1, (long)a(t,j), acc * (long)a(t,j)), tag+100); }
    { VIEW(v, view::accumulate_subtract(a, -1, nm::int64)); EXPECT_VIEW2("C08.view.dtype.accumulate_shape", "C08.view.dtype.running_fold_runs_in_the_result_type", v, 2,3, FOLDN(j+1, (long)a(i,t), acc - (long)a(i,t)), tag+200); }
}
template void ob_c08c_dtype_acc<signed char>(const NARR23<signed char>&);
template void ob_c08c_dtype_acc<unsigned char>(const NARR23<unsigned char>&);
template void ob_c08c_dtype_acc<short>(const NARR23<short>&);
// ---- logical reductions: the fold of the truth values, starting from the identity of the operation (so an axis of extent 1 yields the
// truth value of its element, not the element)
void ob_c08c_logical(const ARR<1,3>& b, const ARR<2,3>& c)
{ PIN(b, 1,3); PIN(c, 2,3);
    { VIEW(v, view::reduce_logical_and(b, 0)); EXPECT_VIEW1("C08.view.logical.shape", "C08.view.logical.and_over_a_unit_axis_is_the_truth_value", v, 3, (long)(b(Z,i) != 0), 0); }
    { VIEW(v, view::reduce_logical_or(b, 0));  EXPECT_VIEW1("C08.view.logical.shape", "C08.view.logical.or_over_a_unit_axis_is_the_truth_value", v, 3, (long)(b(Z,i) != 0), 1); }
    { VIEW(v, view::reduce_logical_xor(b, 0)); EXPECT_VIEW1("C08.view.logical.shape", "C08.view.logical.xor_over_a_unit_axis_is_the_truth_value", v, 3, (long)(b(Z,i) != 0), 2); }
    { VIEW(v, view::reduce_logical_and(c, 0)); EXPECT_VIEW1("C08.view.logical.shape", "C08.view.logical.and_is_the_conjunction", v, 3, (long)((c(Z,i) != 0) && (c(Z+1,i) != 0)), 3); }
    { VIEW(v, view::reduce_logical_or(c, 1));  EXPECT_VIEW1("C08.view.logical.shape", "C08.view.logical.or_is_the_disjunction", v, 2, (long)((c(i,Z) != 0) || (c(i,Z+1) != 0) || (c(i,Z+2) != 0)), 4); }
    { VIEW(v, view::reduce_logical_xor(c, -1)); EXPECT_VIEW1("C08.view.logical.shape", "C08.view.logical.xor_is_the_parity", v, 2, (long)((c(i,Z) != 0) ^ (c(i,Z+1) != 0) ^ (c(i,Z+2) != 0)), 5); }
}
// ---- other operations: the non-commutative one (order), product, maximum / minimum
void ob_c08c_ops(const ARR<2,3>& a, long init)
{ PIN(a, 2,3);
    { VIEW(v, view::reduce_subtract(a, 1)); EXPECT_VIEW1("C08.view.reduce.shape", "C08.view.reduce.left_fold_in_index_order", v, 2, FOLDN(3, a(i,t), acc - a(i,t)), 0); }
    { VIEW(v, view::reduce_subtract(a, 0, None, init)); EXPECT_VIEW1("C08.view.reduce.shape", "C08.view.reduce.initial_is_the_first_left_operand", v, 3, FOLDN(2, init - a(t,i), acc - a(t,i)), 1); }
    { VIEW(v, view::reduce_subtract(a, -1, None, None, True)); EXPECT_VIEW2("C08.view.reduce.keepdims_shape", "C08.view.reduce.left_fold_in_index_order", v, 2,1, FOLDN(3, a(i,t), acc - a(i,t)), 2); }
    { VIEW(v, view::prod(a, 0)); EXPECT_VIEW1("C08.view.prod.shape", "C08.view.prod.over_axis", v, 3, FOLDN(2, a(t,i), acc * a(t,i)), 3); }
    { VIEW(v, view::amax(a, 1)); EXPECT_VIEW1("C08.view.amax.shape", "C08.view.amax.over_axis", v, 2, FOLDN(3, a(i,t), mx(acc, a(i,t))), 4); }
    { VIEW(v, view::amin(a, 0)); EXPECT_VIEW1("C08.view.amin.shape", "C08.view.amin.over_axis", v, 3, FOLDN(2, a(t,i), mn(acc, a(t,i))), 5); }
    { VIEW(v, view::amax(a, None)); OBLIGE("C08.view.amax.all_axes", (long)static_cast<long>(v) == FOLDN(6, a(t/3,t%3), mx(acc, a(t/3,t%3))), 6); }
    { VIEW(v, view::amax(a, 1, None, init)); EXPECT_VIEW1("C08.view.amax.shape", "C08.view.amax.initial_takes_part", v, 2, FOLDN(3, mx(init, a(i,t)), mx(acc, a(i,t))), 7); }
    { VIEW(v, view::reduce_maximum(a, std::array<int,2>{0,1})); OBLIGE("C08.view.reduce_maximum.several_axes", (long)static_cast<long>(v) == FOLDN(6, a(t/3,t%3), mx(acc, a(t/3,t%3))), 8); }
}
// ---- running folds keep the source shape
void ob_c08c_cum(const ARR<2,3>& a)
{ PIN(a, 2,3);
    { VIEW(v, view::cumsum(a, 1)); EXPECT_VIEW2("C08.view.cumsum.shape", "C08.view.cumsum.prefix_sums", v, 2,3, FOLDN(j+1, a(i,t), acc + a(i,t)), 0); }
    { VIEW(v, view::cumsum(a, -2)); EXPECT_VIEW2("C08.view.cumsum.shape", "C08.view.cumsum.negative_axis", v, 2,3, FOLDN(i+1, a(t,j), acc + a(t,j)), 1); }
    { VIEW(v, view::cumprod(a, 0)); EXPECT_VIEW2("C08.view.cumprod.shape", "C08.view.cumprod.prefix_products", v, 2,3, FOLDN(i+1, a(t,j), acc * a(t,j)), 2); }
    { VIEW(v, view::accumulate_subtract(a, 1)); EXPECT_VIEW2("C08.view.accumulate.shape", "C08.view.accumulate.prefix_left_folds", v, 2,3, FOLDN(j+1, a(i,t), acc - a(i,t)), 3); }
}
void ob_c08c_negctl(const ARR<2,3>& a)
{ PIN(a, 2,3);
    auto v = nm::unwrap(view::reduce_subtract(a, 1));
    NEGCTL("C08.NEG.fold_from_the_right", (long)v(0) == a(0,0) - (a(0,1) - a(0,2)), 0);
}
