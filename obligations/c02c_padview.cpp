// C02 (+C17 mechanism "pad"): element law of view::pad - a coordinate inside the source reads the source element at (idx - before),
// a coordinate in the padding reads the pad value and never touches the source.
#include "viewob.hpp"
#include "nmtools/array/view/pad.hpp"
using namespace ob;
namespace view = nmtools::view;

template <size_t N, size_t R, size_t FIRST, int ZONE>
void ob_c02_pad_view(const arr_fs<float,N,R>& a, const std::array<size_t,2*R>& p_, const std::array<size_t,R>& t_, float value)
{
    const auto t = t_; const auto p = p_;
    std::array<size_t,R> idx{}, eshape{};
    for_<R>([&](auto I){
        constexpr size_t i = I.value;
        const size_t n = rd<i>(a.shape_), bf = p[i], af = p[R+i], ti = t[i];
        ASSUME(n >= 1); ASSUME(n < (1ul<<20)); ASSUME(bf < (1ul<<20)); ASSUME(af < (1ul<<20)); ASSUME(ti < (1ul<<22));
        eshape[i] = n + bf + af;
        if constexpr (i < FIRST) { ASSUME(ti < n); idx[i] = bf + ti; }
        else if constexpr (i == FIRST && ZONE == 0) { ASSUME(ti < bf); idx[i] = ti; }
        else if constexpr (i == FIRST && ZONE == 1) { ASSUME(ti < af); idx[i] = bf + n + ti; }
        else { ASSUME(ti < n + bf + af); idx[i] = ti; }
    });
    auto mv = view::pad(a, p, value);
    if constexpr (meta::is_maybe_v<decltype(mv)>) OBLIGE("C02.padview.valid|C04.padview.valid", static_cast<bool>(mv), R, FIRST, ZONE);
    if (nm::has_value(mv)) {
        const auto& v = nm::unwrap(mv);
        auto shp = nm::shape(v);
        OBLIGE("C02.padview.dim|C04.padview.dim", (size_t)nm::len(shp) == R, R, FIRST, ZONE);
        for_<R>([&](auto I){ OBLIGE("C02.padview.shape|C04.padview.shape", gx<I.value>(shp) == eshape[I.value], R, FIRST, ZONE, I.value); });
        auto e1 = std::apply([&](auto... i){ return v(i...); }, idx);
        if constexpr (FIRST == R) {
            auto e2 = std::apply([&](auto... i){ return a(i...); }, t);
            OBLIGE("C02.padview.element_inside_is_source_element|C04.padview.element_inside_is_source_element", same_bits(e1,e2), R, FIRST, ZONE);
        } else {
            OBLIGE("C02.padview.element_in_padding_is_pad_value|C04.padview.element_in_padding_is_pad_value", same_bits(e1,value), R, FIRST, ZONE);
        }
    }
}
void ob_c02_padview_negctl(const arr_fs<float,4,1>& a, const std::array<size_t,2>& p_, size_t t, float value)
{
    const auto p = p_;
    ASSUME(rd<0>(a.shape_) >= 1); ASSUME(rd<0>(a.shape_) < 1024); ASSUME(p[0] < 1024); ASSUME(p[1] < 1024); ASSUME(t < p[0]);
    auto mv = view::pad(a, p, value);
    if (nm::has_value(mv)) { const auto& v = nm::unwrap(mv); auto e1 = v(t); auto e2 = a(t); NEGCTL("C02.NEG.padview_padding_reads_source|C04.NEG.padview_padding_reads_source", same_bits(e1,e2), 0); }
}
#define PV(N,R,F,Z) template void ob_c02_pad_view<N,R,F,Z>(const arr_fs<float,N,R>&, const std::array<size_t,2*R>&, const std::array<size_t,R>&, float);
PV(4,1,1,0) PV(4,1,0,1)
// (the leading-padding zone is not instantiated at view level: whether LLVM relates `t <u before` to the library's signed `t - before < 0`
//  depends on inlining order - engine weakness;
//  the index-level obligations of c15b_pad_matmul.cpp cover that zone for every axis)
PV(6,2,2,0) PV(6,2,0,1) PV(6,2,1,1)
PV(8,3,3,0) PV(8,3,0,1) PV(8,3,1,1) PV(8,3,2,1)
