// C15 / C02: argument checks and index law of pad; shape check of matmul.
//   shape_pad : value exactly when len(pad_width) == 2*dim; extent i = s_i + before_i + after_i
//   pad       : a destination index inside the padded shape maps to Nothing exactly when some coordinate lies in the padding,
//               otherwise to (idx_i - before_i), which is inside the source shape (C02)
//   shape_matmul : Nothing whenever the contraction lengths differ (every rank pair); for operands of rank <= 2 a value with
//               NumPy's shape otherwise (batch axes go through a run-time-length split and are out of E1's reach)
#include "common.hpp"
#include "nmtools/array/index/pad.hpp"
#include "nmtools/array/view/matmul.hpp"
#include "nmtools/array/index/resize.hpp"
#include "nmtools/array/index/roll.hpp"
using namespace ob;
template <class T, size_t C> using svc = nmtools::utl::static_vector<T,C>;

template <class K, size_t R>
void ob_c15_shape_pad(const mk_t<K,size_t,R>& s_, const mk_t<K,size_t,2*R>& p_)
{
    assume_len<R>(s_); assume_len<2*R>(p_);
    const auto s = s_; const auto p = p_;
    for_<R>([&](auto I){ ASSUME((size_t)rd<I.value>(s) < (1ul<<40)); ASSUME((size_t)rd<I.value>(p) < (1ul<<40)); ASSUME((size_t)rd<R+I.value>(p) < (1ul<<40)); });
    auto r = ix::shape_pad(s,p);
    OBLIGE("C15.pad.shape.value_when_width_has_two_entries_per_axis", static_cast<bool>(r), kid<K>, R);
    if (r) {
        OBLIGE("C02.pad.shape.dim|C04.pad.shape.dim", (size_t)nm::len(*r) == R, kid<K>, R);
        for_<R>([&](auto I){ OBLIGE("C02.pad.shape.extent_is_source_plus_both_pads|C04.pad.shape.extent_is_source_plus_both_pads", (size_t)nm::at(*r,I.value) == (size_t)rd<I.value>(s) + (size_t)rd<I.value>(p) + (size_t)rd<R+I.value>(p), kid<K>, R, I.value); });
    }
}
// run-time-length pad width: the length check is a run-time decision
template <size_t R, size_t NP>
void ob_c15_shape_pad_len(const std::array<size_t,R>& s_, const svc<size_t,8>& p_)
{
    const auto s = s_; const auto p = p_;
    ASSUME(p.size() == NP);
    auto r = ix::shape_pad(s,p);
    if constexpr (NP == 2*R) OBLIGE("C15.pad.shape.value_when_width_has_two_entries_per_axis", static_cast<bool>(r), 4, R, NP);
    else OBLIGE("C15.pad.shape.nothing_when_width_length_mismatches", !static_cast<bool>(r), 4, R, NP);
}
// index law. The destination index is built from an offset t so that the zone of every coordinate is explicit:
//   axes < FIRST : inside the source       idx = before + t, t < s
//   axis  FIRST  : ZONE 0 leading padding  idx = t, t < before      ZONE 1 trailing padding  idx = before + s + t, t < after
//   axes > FIRST : anywhere in the padded extent
// FIRST == R: every coordinate is inside the source.
template <class K, size_t R, size_t FIRST, int ZONE>
void ob_c02_pad_index(const mk_t<K,size_t,R>& t_, const mk_t<K,size_t,R>& s_, const mk_t<K,size_t,2*R>& p_)
{
    assume_len<R>(t_); assume_len<R>(s_); assume_len<2*R>(p_);
    const auto t = t_; const auto s = s_; const auto p = p_;
    mk_t<K,size_t,R> idx{}, d{};
    for_<R>([&](auto I){
        constexpr size_t i = I.value;
        const size_t n = rd<i>(s), bf = rd<i>(p), af = rd<R+i>(p), ti = rd<i>(t);
        ASSUME(n >= 1); ASSUME(n < (1ul<<40)); ASSUME(bf < (1ul<<40)); ASSUME(af < (1ul<<40)); ASSUME(ti < (1ul<<42));
        nm::at(d,i) = n + bf + af;
        if constexpr (i < FIRST) { ASSUME(ti < n); nm::at(idx,i) = bf + ti; }
        else if constexpr (i == FIRST && ZONE == 0) { ASSUME(ti < bf); nm::at(idx,i) = ti; }
        else if constexpr (i == FIRST && ZONE == 1) { ASSUME(ti < af); nm::at(idx,i) = bf + n + ti; }
        else { ASSUME(ti < n + bf + af); nm::at(idx,i) = ti; }
    });
    auto r = ix::pad(idx,s,d,p);
    if constexpr (FIRST == R) {
        OBLIGE("C02.pad.index.value_when_inside_source|C04.pad.index.value_when_inside_source|C15.pad.index.value_when_inside_source", static_cast<bool>(r), kid<K>, R);
        if (r) {
            OBLIGE("C02.pad.index.dim|C04.pad.index.dim", (size_t)nm::len(*r) == R, kid<K>, R);
            for_<R>([&](auto J){
                OBLIGE("C02.pad.index.src_in_shape|C04.pad.index.src_in_shape", (size_t)nm::at(*r,J.value) < (size_t)rd<J.value>(s), kid<K>, R, J.value);
                OBLIGE("C02.pad.index.src_is_dst_minus_pad_before|C04.pad.index.src_is_dst_minus_pad_before", (size_t)nm::at(*r,J.value) == (size_t)rd<J.value>(t), kid<K>, R, J.value);
            });
        }
    } else if constexpr (ZONE == 0) OBLIGE("C02.pad.index.nothing_in_leading_padding|C04.pad.index.nothing_in_leading_padding", !static_cast<bool>(r), kid<K>, R, FIRST);
    else OBLIGE("C02.pad.index.nothing_in_trailing_padding|C04.pad.index.nothing_in_trailing_padding", !static_cast<bool>(r), kid<K>, R, FIRST);
}
// matmul
template <class K, size_t RA, size_t RB>
void ob_c15_shape_matmul(const mk_t<K,size_t,RA>& a_, const mk_t<K,size_t,RB>& b_)
{
    const auto a = a_; const auto b = b_;
    for_<RA>([&](auto I){ ASSUME((size_t)rd<I.value>(a) >= 1); ASSUME((size_t)rd<I.value>(a) < 65536); });
    for_<RB>([&](auto I){ ASSUME((size_t)rd<I.value>(b) >= 1); ASSUME((size_t)rd<I.value>(b) < 65536); });
    size_t ka = rd<RA-1>(a);
    size_t kb = rd<(RB >= 2 ? RB-2 : 0)>(b);
    if (ka != kb) {
        auto r = ix::shape_matmul(a,b);
        OBLIGE("C15.matmul.shape.nothing_when_contraction_lengths_differ", !static_cast<bool>(r), kid<K>, RA, RB);
    } else if constexpr (RA <= 2 && RB <= 2) {
        constexpr size_t RD = (RA >= 2 ? 1 : 0) + (RB >= 2 ? 1 : 0);
        auto r = ix::shape_matmul(a,b);
        OBLIGE("C15.matmul.shape.value_when_contraction_lengths_agree", static_cast<bool>(r), kid<K>, RA, RB);
        if (r) {
            OBLIGE("C15.matmul.shape.dim", (size_t)nm::len(*r) == RD, kid<K>, RA, RB);
            if constexpr (RA >= 2) OBLIGE("C15.matmul.shape.rows_from_lhs", (size_t)nm::at(*r, 0) == (size_t)rd<RA-2>(a), kid<K>, RA, RB);
            if constexpr (RB >= 2) OBLIGE("C15.matmul.shape.cols_from_rhs", (size_t)nm::at(*r, RD-1) == (size_t)rd<RB-1>(b), kid<K>, RA, RB);
        }
    }
}
void ob_c15b_negctl(const std::array<size_t,2>& a_, const std::array<size_t,2>& b_, const std::array<size_t,4>& p_)
{
    const auto a = a_; const auto b = b_; const auto p = p_;
    ASSUME(a[1] == b[0]);
    auto r = ix::shape_matmul(a,b);
    if (r) NEGCTL("C15.NEG.matmul_rows_from_rhs", (size_t)nm::at(*r,0) == b[1], 0);
    auto q = ix::shape_pad(a,p);
    if (q) NEGCTL("C02.NEG.pad_ignores_trailing_pad|C04.NEG.pad_ignores_trailing_pad|C15.NEG.pad_ignores_trailing_pad", (size_t)nm::at(*q,0) == a[0] + p[0], 1);
}
#define SP(K,R) template void ob_c15_shape_pad<K,R>(const mk_t<K,size_t,R>&, const mk_t<K,size_t,2*R>&); \
                PI(K,R,R,0)
#define PI(K,R,F,Z) template void ob_c02_pad_index<K,R,F,Z>(const mk_t<K,size_t,R>&, const mk_t<K,size_t,R>&, const mk_t<K,size_t,2*R>&);
#define PIZ(K,R,F) PI(K,R,F,0) PI(K,R,F,1)
SP(k_std,1) SP(k_std,2) SP(k_std,3) SP(k_std,4) SP(k_utl,1) SP(k_utl,2) SP(k_utl,3) SP(k_utl,4)
PIZ(k_std,1,0) PIZ(k_std,2,0) PIZ(k_std,2,1) PIZ(k_std,3,0) PIZ(k_std,3,1) PIZ(k_std,3,2) PIZ(k_std,4,0) PIZ(k_std,4,3)
PIZ(k_utl,1,0) PIZ(k_utl,2,0) PIZ(k_utl,2,1) PIZ(k_utl,3,0) PIZ(k_utl,3,1) PIZ(k_utl,3,2) PIZ(k_utl,4,1) PIZ(k_utl,4,2)
#define SPL(R,NP) template void ob_c15_shape_pad_len<R,NP>(const std::array<size_t,R>&, const svc<size_t,8>&);
SPL(1,2) SPL(1,1) SPL(1,3) SPL(2,4) SPL(2,2) SPL(2,3) SPL(2,5) SPL(3,6) SPL(3,5) SPL(3,7) SPL(3,3)
#define MM(K,RA,RB) template void ob_c15_shape_matmul<K,RA,RB>(const mk_t<K,size_t,RA>&, const mk_t<K,size_t,RB>&);
#define MMK(RA,RB) MM(k_std,RA,RB) MM(k_utl,RA,RB)
MMK(2,2) MMK(1,2) MMK(2,1) MMK(3,2) MMK(2,3) MMK(3,3) MMK(3,1) MMK(1,3) MMK(4,2) MMK(4,3) MMK(3,4) MMK(4,4)

// resize: the target shape is accepted exactly when it has the source's dimension and every extent is positive; the result is that shape
template <class K, size_t R, size_t I>
__attribute__((always_inline)) inline void resize_chain(const mk_t<K,size_t,R>& src, const mk_t<K,size_t,R>& dst)
{
    if constexpr (I == R) {
        auto r = ix::shape_resize(src, dst);
        OBLIGE("C15.resize.shape.value_when_every_extent_positive", static_cast<bool>(r), kid<K>, R);
        if (r) for_<R>([&](auto J){ OBLIGE("C15.resize.shape.is_the_requested_shape", (size_t)nm::at(*r,J.value) == (size_t)rd<J.value>(dst), kid<K>, R, J.value); });
    } else {
        if ((size_t)rd<I>(dst) == 0) {
            auto r = ix::shape_resize(src, dst);
            OBLIGE("C15.resize.shape.nothing_when_an_extent_is_zero", !static_cast<bool>(r), kid<K>, R, I);
        } else resize_chain<K,R,I+1>(src, dst);
    }
}
template <class K, size_t R>
void ob_c15_shape_resize(const mk_t<K,size_t,R>& src_, const mk_t<K,size_t,R>& dst_)
{
    const auto src = src_; const auto dst = dst_;
    resize_chain<K,R,0>(src, dst);
}
#define RS(K,R) template void ob_c15_shape_resize<K,R>(const mk_t<K,size_t,R>&, const mk_t<K,size_t,R>&);
RS(k_std,1) RS(k_std,2) RS(k_std,3) RS(k_std,4) RS(k_utl,2) RS(k_utl,3)

// roll: an axis outside [-dim, dim) is reported as Nothing, an axis inside it yields the unchanged shape (scalar run-time axis)
template <class K, size_t R>
void ob_c15_shape_roll(const mk_t<K,size_t,R>& shape_, int shift, int axis)
{
    const auto shape = shape_;
    ASSUME(axis > -64); ASSUME(axis < 64);
    if (axis >= -(int)R && axis < (int)R) {
        auto r = ix::shape_roll(shape, shift, axis);
        OBLIGE("C15.roll.shape.value_when_axis_in_range", static_cast<bool>(r), kid<K>, R);
        if (r) for_<R>([&](auto J){ OBLIGE("C15.roll.shape.unchanged", (size_t)nm::at(*r,J.value) == (size_t)rd<J.value>(shape), kid<K>, R, J.value); });
    } else {
        auto r = ix::shape_roll(shape, shift, axis);
        OBLIGE("C15.roll.shape.nothing_when_axis_out_of_range", !static_cast<bool>(r), kid<K>, R);
    }
}
#define RL(K,R) template void ob_c15_shape_roll<K,R>(const mk_t<K,size_t,R>&, int, int);
RL(k_std,1) RL(k_std,2) RL(k_std,3) RL(k_std,4) RL(k_utl,2) RL(k_utl,3)
