// C16 / C02 (index level, bounded-dimension shapes that FILL their capacity): the result container of the linear-algebra index helpers has
// room for every extent the run-time function produces - its reported length is the required one - and holds the defined extents.
#include "common.hpp"
#include "nmtools/array/view/tensordot.hpp"
#include "nmtools/array/view/dot.hpp"
#include "nmtools/array/view/inner.hpp"
using namespace ob;
template <size_t C> using svf = nmtools::utl::static_vector<size_t,C>;

// tensordot_lhs_reshape(lhs_shape, rhs_shape, n contracted axes): lhs_dim + rhs_dim - n extents: the non-contracted lhs extents, ones, the contracted lhs extents
template <size_t RL, size_t RR, size_t CL, size_t CR>
void ob_c16c_tensordot_lhs_reshape(const svf<CL>& lhs, const svf<CR>& rhs)
{
    ASSUME(lhs.size() == RL); ASSUME(rhs.size() == RR);
    auto r = ix::tensordot_lhs_reshape(lhs, rhs, meta::ct_v<1>);
    constexpr size_t D = RL + RR - 1;
    OBLIGE("C16.tensordot.lhs_reshape.result_holds_all_extents|C02.tensordot.lhs_reshape.result_holds_all_extents", (size_t)nm::len(r) == D, RL, RR, CL, CR);
    for_<D>([&](auto I){
        if constexpr (I.value < RL-1) OBLIGE("C16.tensordot.lhs_reshape.non_contracted_extents", (size_t)nm::at(r, I.value) == (size_t)rd<I.value>(lhs), RL, RR, CL*10+CR, I.value);
        else if constexpr (I.value == D-1) OBLIGE("C16.tensordot.lhs_reshape.contracted_extent_last", (size_t)nm::at(r, I.value) == (size_t)rd<RL-1>(lhs), RL, RR, CL*10+CR, I.value);
        else OBLIGE("C16.tensordot.lhs_reshape.ones_between", (size_t)nm::at(r, I.value) == 1, RL, RR, CL*10+CR, I.value);
    });
}
#define TL(RL,RR,CL,CR) template void ob_c16c_tensordot_lhs_reshape<RL,RR,CL,CR>(const svf<CL>&, const svf<CR>&);
TL(2,2,2,2) TL(2,2,4,4) TL(3,2,3,2) TL(2,3,2,3) TL(4,4,4,4) TL(1,2,1,2)
// dot_lhs_reshape: max(L+R-2, L) extents, one more when the right operand has more than one axis; inner_lhs_reshape: max(L+R-1, L); dot_lhs_tile: L
template <size_t RL, size_t RR, size_t CL, size_t CR>
void ob_c16c_dot_inner(const svf<CL>& lhs, const svf<CR>& rhs)
{
    ASSUME(lhs.size() == RL); ASSUME(rhs.size() == RR);
    constexpr size_t D0 = (RL + RR - 2 < RL ? RL : RL + RR - 2), DD = (RR > 1 ? D0 + 1 : D0);
    constexpr size_t DI = (RL + RR - 1 > RL ? RL + RR - 1 : RL);
    { auto r = ix::dot_lhs_reshape(lhs, rhs); OBLIGE("C16.dot.lhs_reshape.result_holds_all_extents|C02.dot.lhs_reshape.result_holds_all_extents", (size_t)nm::len(r) == DD, RL, RR, CL, CR); }
    { auto r = ix::dot_lhs_tile(lhs, rhs); OBLIGE("C16.dot.lhs_tile.result_holds_all_extents|C02.dot.lhs_tile.result_holds_all_extents", (size_t)nm::len(r) == RL, RL, RR, CL, CR); }
    { auto r = ix::inner_lhs_reshape(lhs, rhs); OBLIGE("C16.inner.lhs_reshape.result_holds_all_extents|C02.inner.lhs_reshape.result_holds_all_extents", (size_t)nm::len(r) == DI, RL, RR, CL, CR); }
}
#define DI(RL,RR,CL,CR) template void ob_c16c_dot_inner<RL,RR,CL,CR>(const svf<CL>&, const svf<CR>&);
DI(2,2,2,2) DI(1,2,1,2) DI(2,1,2,1) DI(3,3,3,3) DI(2,3,4,4) DI(4,4,4,4)
// kron_dst_reshape(lhs_shape, rhs_shape): max(L, R) extents - aligned at the trailing axis the product of the two extents, the leading extents of
// the longer shape copied. Bounded x bounded, fixed x bounded and bounded x fixed operand kinds (the capacity of the result must come from BOTH).
#include "nmtools/array/view/kron.hpp"
template <size_t RL, size_t RR, class LHS, class RHS>
__attribute__((always_inline)) inline void kron_dst(const LHS& lhs, const RHS& rhs, long kind)
{
    constexpr size_t D = RL > RR ? RL : RR;
    auto r = ix::kron_dst_reshape(lhs, rhs);
    OBLIGE("C16.kron.dst_reshape.result_holds_all_extents|C02.kron.dst_reshape.result_holds_all_extents", (size_t)nm::len(r) == D, RL, RR, kind);
    if ((size_t)nm::len(r) == D) for_<D>([&](auto I){
        constexpr size_t i = I.value;                       // axis of the result; the operands are right-aligned
        constexpr bool has_l = i + RL >= D, has_r = i + RR >= D;
        size_t want = (has_l ? (size_t)nm::at(lhs, i + RL - D) : 1) * (has_r ? (size_t)nm::at(rhs, i + RR - D) : 1);
        OBLIGE("C16.kron.dst_reshape.extent_is_the_product_of_the_aligned_extents", (size_t)nm::at(r, i) == want, RL, RR, kind, i);
    });
}
template <size_t RL, size_t RR, size_t CL, size_t CR>
void ob_c16c_kron_bounded(const svf<CL>& lhs, const svf<CR>& rhs)
{ ASSUME(lhs.size() == RL); ASSUME(rhs.size() == RR); kron_dst<RL,RR>(lhs, rhs, 0); }
template <size_t RL, size_t RR, size_t CR>
void ob_c16c_kron_fixed_bounded(const std::array<size_t,RL>& lhs, const svf<CR>& rhs)
{ ASSUME(rhs.size() == RR); kron_dst<RL,RR>(lhs, rhs, 1); }
template <size_t RL, size_t RR, size_t CL>
void ob_c16c_kron_bounded_fixed(const svf<CL>& lhs, const std::array<size_t,RR>& rhs)
{ ASSUME(lhs.size() == RL); kron_dst<RL,RR>(lhs, rhs, 2); }
#define KB(RL,RR,CL,CR) template void ob_c16c_kron_bounded<RL,RR,CL,CR>(const svf<CL>&, const svf<CR>&);
KB(2,2,2,2) KB(2,3,2,3) KB(3,2,3,2) KB(1,3,2,3) KB(2,3,4,4)
template void ob_c16c_kron_fixed_bounded<1,2,3>(const std::array<size_t,1>&, const svf<3>&);
template void ob_c16c_kron_fixed_bounded<1,3,3>(const std::array<size_t,1>&, const svf<3>&);
template void ob_c16c_kron_fixed_bounded<2,3,3>(const std::array<size_t,2>&, const svf<3>&);
template void ob_c16c_kron_fixed_bounded<3,2,3>(const std::array<size_t,3>&, const svf<3>&);
template void ob_c16c_kron_bounded_fixed<2,1,3>(const svf<3>&, const std::array<size_t,1>&);
template void ob_c16c_kron_bounded_fixed<3,1,3>(const svf<3>&, const std::array<size_t,1>&);
template void ob_c16c_kron_bounded_fixed<3,2,3>(const svf<3>&, const std::array<size_t,2>&);
template void ob_c16c_kron_bounded_fixed<2,3,3>(const svf<3>&, const std::array<size_t,3>&);
void ob_c16c_negctl(const svf<2>& lhs, const svf<2>& rhs)
{
    ASSUME(lhs.size() == 2); ASSUME(rhs.size() == 2);
    auto r = ix::tensordot_lhs_reshape(lhs, rhs, meta::ct_v<1>);
    NEGCTL("C16.NEG.lhs_reshape_keeps_dim|C02.NEG.lhs_reshape_keeps_dim", (size_t)nm::len(r) == 2, 0);
}
