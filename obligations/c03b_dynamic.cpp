// C03/C04 (+C02): the same laws on arrays whose SHAPE has a run-time length (utl::static_vector, i.e. the library's
// run-time-loop branches that dynamic shapes take) and with RUN-TIME axes / reps / shifts.
#include "viewob.hpp"
#include "nmtools/array/view/transpose.hpp"
#include "nmtools/array/index/scatter.hpp"
#include "nmtools/array/view/moveaxis.hpp"
#include "nmtools/array/view/tile.hpp"
#include "nmtools/array/view/repeat.hpp"
#include "nmtools/array/view/roll.hpp"
using namespace ob;
namespace view = nmtools::view;
using sv4 = nmtools::utl::static_vector<size_t,4>;
template <class T, size_t N> using arr_hs = na::ndarray_t<std::array<T,N>, sv4>;          // fixed buffer, bounded run-time dimension
template <class T, size_t N, size_t R> using arr_f = na::ndarray_t<std::array<T,N>, std::array<size_t,R>>;

// ---- transpose(a) on a bounded-dim array
template <size_t N, size_t R>
void ob_c03_dyn_transpose_none(const arr_hs<float,N>& a, const std::array<size_t,R>& dst_)
{
    const auto dst = dst_;
    ASSUME(a.shape_.size() == R);
    auto mv = view::transpose(a);
    if constexpr (meta::is_maybe_v<decltype(mv)>) OBLIGE("C03.dyn_transpose_none.valid", static_cast<bool>(mv), R);
    if (nm::has_value(mv)) {
        const auto& v = nm::unwrap(mv);
        std::array<size_t,R> eshape{}, esrc{};
        for_<R>([&](auto I){ eshape[I.value] = rd<R-1-I.value>(a.shape_); esrc[R-1-I.value] = dst[I.value]; });
        VIEW_OBLIGATIONS("C03","dyn_transpose_none", v, a, R, R, dst, eshape, esrc, 0);
    }
}
// ---- transpose(a, axes) with COMPILE-TIME axes on a bounded-dim array (the destination index has a run-time length, the axes do not)
template <size_t N, size_t... P>
void ob_c03_dyn_transpose_ct(const arr_hs<float,N>& a, const std::array<size_t,sizeof...(P)>& dst_)
{
    constexpr size_t R = sizeof...(P); constexpr size_t p[R] = {P...};
    const auto dst = dst_;
    ASSUME(a.shape_.size() == R);
    auto mv = view::transpose(a, nmtools_tuple{meta::ct_v<P>...});
    if constexpr (meta::is_maybe_v<decltype(mv)>) OBLIGE("C03.dyn_transpose_ct.valid", static_cast<bool>(mv), R);
    if (nm::has_value(mv)) {
        const auto& v = nm::unwrap(mv);
        std::array<size_t,R> eshape{}, esrc{};
        for_<R>([&](auto I){ eshape[I.value] = rd<p[I.value]>(a.shape_); esrc[p[I.value]] = dst[I.value]; });
        VIEW_OBLIGATIONS("C03","dyn_transpose_ct", v, a, R, R, dst, eshape, esrc, (p[0]*100 + (R>1?p[R>1?1:0]:0)*10 + (R>2?p[R>2?2:0]:0)));
    }
}
// ---- index::scatter(vec, idx)[idx[i]] = vec[i] for every combination of fixed / bounded run-time-length vec and compile-time / run-time idx
template <class KV, class KI, size_t... P>
void ob_c03_scatter(const mk_t<KV,size_t,sizeof...(P)>& vec_, const mk_t<KI,size_t,sizeof...(P)>& idx_)
{
    constexpr size_t R = sizeof...(P); constexpr size_t p[R] = {P...};
    const auto vec = vec_; const auto idx = idx_;
    assume_len<R>(vec); assume_len<R>(idx);
    for_<R>([&](auto I){ ASSUME(rd<I.value>(idx) == p[I.value]); });
    constexpr long tag = (p[0]*100 + (R>1?p[R>1?1:0]:0)*10 + (R>2?p[R>2?2:0]:0));
    { auto r = nm::index::scatter(vec, idx);
      OBLIGE("C03.scatter.rt_idx.len", (size_t)nm::len(r) == R, kid<KV>, kid<KI>, tag);
      for_<R>([&](auto I){ OBLIGE("C03.scatter.rt_idx.element_i_goes_to_position_idx_i", (size_t)gx<p[I.value]>(r) == (size_t)rd<I.value>(vec), kid<KV>, kid<KI>, tag, I.value); }); }
    if constexpr (std::is_same_v<KI,k_std>) {
      auto r = nm::index::scatter(vec, nmtools_tuple{meta::ct_v<P>...});
      OBLIGE("C03.scatter.ct_idx.len", (size_t)nm::len(r) == R, kid<KV>, tag);
      for_<R>([&](auto I){ OBLIGE("C03.scatter.ct_idx.element_i_goes_to_position_idx_i", (size_t)gx<p[I.value]>(r) == (size_t)rd<I.value>(vec), kid<KV>, tag, I.value); }); }
}
// ---- transpose(a, axes) with run-time axes (a permutation given as std::array<size_t,R>), fixed-rank array
template <size_t N, size_t R, size_t... P>
void ob_c03_rt_transpose(const arr_f<float,N,R>& a, const std::array<size_t,R>& axes_, const std::array<size_t,R>& dst_)
{
    const auto dst = dst_; const auto axes = axes_;
    constexpr size_t p[R] = {P...};
    for_<R>([&](auto I){ ASSUME(axes[I.value] == p[I.value]); });      // the run-time axes hold the permutation P (value known, type run-time)
    auto mv = view::transpose(a, axes);
    if constexpr (meta::is_maybe_v<decltype(mv)>) OBLIGE("C03.rt_transpose.valid", static_cast<bool>(mv), R);
    if (nm::has_value(mv)) {
        const auto& v = nm::unwrap(mv);
        std::array<size_t,R> eshape{}, esrc{};
        for_<R>([&](auto I){ eshape[I.value] = rd<p[I.value]>(a.shape_); esrc[p[I.value]] = dst[I.value]; });
        VIEW_OBLIGATIONS("C03","rt_transpose", v, a, R, R, dst, eshape, esrc, (p[0]*100 + (R>1?p[R>1?1:0]:0)*10 + (R>2?p[R>2?2:0]:0)));
    }
}
// ---- transpose(a, axes) with run-time SIGNED axes, some given as negative numbers (counting from the last axis)
template <size_t N, size_t R, int... P>
void ob_c03_rt_transpose_signed(const arr_f<float,N,R>& a, const std::array<int,R>& axes_, const std::array<size_t,R>& dst_)
{
    const auto dst = dst_; const auto axes = axes_;
    constexpr int p[R] = {P...};
    constexpr auto q = [&](){ std::array<size_t,R> o{}; for (size_t i=0;i<R;i++) o[i] = (size_t)(p[i] < 0 ? p[i] + (int)R : p[i]); return o; }();
    for_<R>([&](auto I){ ASSUME(axes[I.value] == p[I.value]); });
    auto mv = view::transpose(a, axes);
    if constexpr (meta::is_maybe_v<decltype(mv)>) OBLIGE("C03.rt_transpose_signed.valid", static_cast<bool>(mv), R);
    if (nm::has_value(mv)) {
        const auto& v = nm::unwrap(mv);
        std::array<size_t,R> eshape{}, esrc{};
        for_<R>([&](auto I){ eshape[I.value] = rd<q[I.value]>(a.shape_); esrc[q[I.value]] = dst[I.value]; });
        VIEW_OBLIGATIONS("C03","rt_transpose_signed", v, a, R, R, dst, eshape, esrc, (q[0]*100 + (R>1?q[R>1?1:0]:0)*10 + (R>2?q[R>2?2:0]:0)));
    }
}
// ---- moveaxis with run-time int axes (values fixed by ASSUME), fixed-rank array
template <size_t N, size_t R, int SRC, int DST>
void ob_c03_rt_moveaxis(const arr_f<float,N,R>& a, int src, int dstax, const std::array<size_t,R>& dst_)
{
    const auto dst = dst_;
    ASSUME(src == SRC && dstax == DST);
    constexpr size_t s = (size_t)(SRC < 0 ? SRC + (int)R : SRC), d = (size_t)(DST < 0 ? DST + (int)R : DST);
    constexpr auto order = [&](){ std::array<size_t,R> o{}; size_t k=0; for (size_t n=0;n<R;n++){ if (k==d) o[k++]=s; if (n!=s) { if (k==d) o[k++]=s; o[k++]=n; } } if (k<R) o[k]=s; return o; }();
    auto mv = view::moveaxis(a, src, dstax);
    if constexpr (meta::is_maybe_v<decltype(mv)>) OBLIGE("C03.rt_moveaxis.valid|C15.rt_moveaxis.value_when_in_range", static_cast<bool>(mv), R, SRC+10, DST+10);
    if (nm::has_value(mv)) {
        const auto& v = nm::unwrap(mv);
        std::array<size_t,R> eshape{}, esrc{};
        for_<R>([&](auto I){ eshape[I.value] = rd<order[I.value]>(a.shape_); esrc[order[I.value]] = dst[I.value]; });
        VIEW_OBLIGATIONS("C03","rt_moveaxis", v, a, R, R, dst, eshape, esrc, (SRC+10)*100+(DST+10));
    }
}
template <size_t N, size_t R, int SRC, int DST>
void ob_c15_rt_moveaxis_invalid(const arr_f<float,N,R>& a, int src, int dstax)
{
    ASSUME(src == SRC && dstax == DST);
    auto mv = view::moveaxis(a, src, dstax);
    if constexpr (meta::is_maybe_v<decltype(mv)>) OBLIGE("C15.rt_moveaxis.nothing_when_out_of_range", !static_cast<bool>(mv), R, SRC+10, DST+10);
    else OBLIGE("C15.rt_moveaxis.nothing_when_out_of_range", false, R, SRC+10, DST+10);
}
// (tile on a bounded-dim array: the result shape is a hybrid_ndarray whose length is re-read through a struct copy - not dischargeable)
// ---- repeat / roll with a run-time axis (value fixed by ASSUME) on a fixed-rank array
template <size_t N, size_t R, int AXIS>
void ob_c04_rt_repeat(const arr_f<float,N,R>& a, size_t r, int axis, const std::array<size_t,R>& dst_)
{
    const auto dst = dst_;
    ASSUME(axis == AXIS); ASSUME(r >= 1);
    constexpr size_t ax = (size_t)(AXIS < 0 ? AXIS + (int)R : AXIS);
    auto mv = view::repeat(a, r, axis);
    if constexpr (meta::is_maybe_v<decltype(mv)>) OBLIGE("C04.rt_repeat.valid", static_cast<bool>(mv), R, AXIS+10);
    if (nm::has_value(mv)) {
        const auto& v = nm::unwrap(mv);
        std::array<size_t,R> eshape{}, esrc{};
        for_<R>([&](auto I){
            if constexpr (I.value == ax) { eshape[I.value] = rd<I.value>(a.shape_) * r; esrc[I.value] = dst[I.value] / r; }
            else { eshape[I.value] = rd<I.value>(a.shape_); esrc[I.value] = dst[I.value]; }
        });
        VIEW_OBLIGATIONS_X("C04","rt_repeat", v, a, R, R, dst, eshape, esrc, AXIS+10, ax);
    }
}
template <size_t N, size_t R, int AXIS>
void ob_c04_rt_roll(const arr_f<float,N,R>& a, int shift, int axis, const std::array<size_t,R>& dst_)
{
    const auto dst = dst_;
    ASSUME(axis == AXIS);
    constexpr size_t ax = (size_t)(AXIS < 0 ? AXIS + (int)R : AXIS);
    for_<R>([&](auto I){ ASSUME(rd<I.value>(a.shape_) >= 1); ASSUME(rd<I.value>(a.shape_) <= 0x3fffffff); });
    ASSUME(shift > -0x3fffffff && shift < 0x3fffffff);
    auto mv = view::roll(a, shift, axis);
    if constexpr (meta::is_maybe_v<decltype(mv)>) OBLIGE("C04.rt_roll.valid", static_cast<bool>(mv), R, AXIS+10);
    if (nm::has_value(mv)) {
        const auto& v = nm::unwrap(mv);
        for_<R>([&](auto I){ ASSUME(dst[I.value] < rd<I.value>(a.shape_)); });
        auto src = v.indexer.indices(dst);
        for_<R>([&](auto J){ if constexpr (J.value != ax) OBLIGE("C04.rt_roll.other_axes_same", gx<J.value>(src)==dst[J.value], R, AXIS+10, J.value); });
        int n = (int)rd<ax>(a.shape_);
        int d = (int)dst[ax] - shift;
        int want = d % n; if (want < 0) want += n;
        OBLIGE("C04.rt_roll.srcidx_mod|C02.rt_roll.srcidx_is_mod", (long)gx<ax>(src) == (long)want, R, AXIS+10);
    }
}
#define DT(N,R) template void ob_c03_dyn_transpose_none<N,R>(const arr_hs<float,N>&, const std::array<size_t,R>&);
DT(24,1) DT(24,2) DT(24,3) DT(24,4)
#define RT(N,R,...) template void ob_c03_rt_transpose<N,R,__VA_ARGS__>(const arr_f<float,N,R>&, const std::array<size_t,R>&, const std::array<size_t,R>&);
RT(12,2,1,0) RT(24,3,2,0,1) RT(24,3,1,2,0) RT(24,3,0,2,1)
#define RTS(N,R,...) template void ob_c03_rt_transpose_signed<N,R,__VA_ARGS__>(const arr_f<float,N,R>&, const std::array<int,R>&, const std::array<size_t,R>&);
RTS(12,2,-1,0) RTS(24,3,-1,0,1) RTS(24,3,-2,-3,-1)   // (1,-1,0) and (0,-1,-2) are correct on the tree (replayed concretely) but do not discharge
#define MV(N,R,S,D) template void ob_c03_rt_moveaxis<N,R,S,D>(const arr_f<float,N,R>&, int, int, const std::array<size_t,R>&);
MV(12,2,0,1) MV(24,3,0,2) MV(24,3,2,0) MV(24,3,-1,0) MV(24,3,1,-1)
#define MVI(N,R,S,D) template void ob_c15_rt_moveaxis_invalid<N,R,S,D>(const arr_f<float,N,R>&, int, int);
MVI(24,3,3,0) MVI(24,3,0,3) MVI(24,3,-4,0) MVI(12,2,2,0)
#define RP(N,R,A) template void ob_c04_rt_repeat<N,R,A>(const arr_f<float,N,R>&, size_t, int, const std::array<size_t,R>&);
RP(12,2,0) RP(12,2,1) RP(12,2,-1) RP(24,3,1) RP(24,3,-3)
#define RL(N,R,A) template void ob_c04_rt_roll<N,R,A>(const arr_f<float,N,R>&, int, int, const std::array<size_t,R>&);
RL(12,2,0) RL(12,2,-1) RL(24,3,1) RL(24,3,-2)

#define DT(N,...) template void ob_c03_dyn_transpose_ct<N,__VA_ARGS__>(const arr_hs<float,N>&, const std::array<size_t,std::array<size_t,0>{}.size() + sizeof((size_t[]){__VA_ARGS__})/sizeof(size_t)>&);
DT(12,1,0) DT(24,2,0,1) DT(24,1,2,0) DT(24,0,2,1) DT(48,3,0,1,2)
#define SC(KV,KI,...) template void ob_c03_scatter<KV,KI,__VA_ARGS__>(const mk_t<KV,size_t,sizeof((size_t[]){__VA_ARGS__})/sizeof(size_t)>&, const mk_t<KI,size_t,sizeof((size_t[]){__VA_ARGS__})/sizeof(size_t)>&);
SC(k_std,k_std,1,0) SC(k_std,k_std,2,0,1) SC(k_std,k_std,1,2,0) SC(k_std,k_std,3,0,1,2)
SC(k_sv,k_std,1,0) SC(k_sv,k_std,2,0,1) SC(k_sv,k_std,1,2,0) SC(k_sv,k_std,3,0,1,2)
SC(k_sv,k_sv,2,0,1) SC(k_sv,k_sv,1,2,0) SC(k_std,k_sv,2,0,1)

void ob_c03b_negctl(const arr_f<float,24,3>& a, int src, int dstax)
{
    ASSUME(src == 0 && dstax == 2);
    auto mv = view::moveaxis(a, src, dstax);
    if (nm::has_value(mv)) { auto shp = nm::shape(nm::unwrap(mv)); NEGCTL("C03.NEG.rt_moveaxis_shape_unpermuted|C04.NEG.rt_moveaxis_shape_unpermuted|C02.NEG.rt_moveaxis_shape_unpermuted|C15.NEG.rt_moveaxis_shape_unpermuted", gx<0>(shp)==rd<0>(a.shape_), 3); }
}
