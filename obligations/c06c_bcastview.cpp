// C06 (constant small shapes, symbolic integer elements): broadcast_to / broadcast_arrays views have the requested / common shape and,
// at index i, the source element at i with stretched axes read at 0 and prepended axes dropped.
#include "bcastob.hpp"
// ---- broadcast_to / broadcast_arrays at the view level
template <size_t R0, size_t R1, size_t R2, class A>
void ob_c06_broadcast_to(const A& a, int tag)
{
    auto v = nm::unwrap(view::broadcast_to(raw(a), cshape<R0,R1,R2>{}));
    auto shp = nm::shape(v);
    OBLIGE("C06.broadcast_to.view_shape", (size_t)nm::len(shp) == 3 && (size_t)nm::at(shp, meta::ct_v<0>) == R0 && (size_t)nm::at(shp, meta::ct_v<1>) == R1 && (size_t)nm::at(shp, meta::ct_v<2>) == R2, R0*100+R1*10+R2, tag);
    for_<R0>([&](auto I){ for_<R1>([&](auto J){ for_<R2>([&](auto K){
        OBLIGE("C06.broadcast_to.view_element", (long)v(I.value, J.value, K.value) == rd3(a, I.value, J.value, K.value), R0*100+R1*10+R2, tag, I.value*10+J.value, K.value);
    }); }); });
}
template <size_t R0, size_t R1, class A, class B>
void ob_c06_broadcast_arrays(const A& a, const B& b, int tag)
{
    auto r = nm::unwrap(view::broadcast_arrays(raw(a), raw(b)));
    const auto& va = nm::get<0>(r); const auto& vb = nm::get<1>(r);
    auto sa = nm::shape(va); auto sb = nm::shape(vb);
    OBLIGE("C06.broadcast_arrays.both_have_the_broadcast_shape", (size_t)nm::len(sa) == 2 && (size_t)nm::len(sb) == 2 && (size_t)nm::at(sa, meta::ct_v<0>) == R0 && (size_t)nm::at(sa, meta::ct_v<1>) == R1 && (size_t)nm::at(sb, meta::ct_v<0>) == R0 && (size_t)nm::at(sb, meta::ct_v<1>) == R1, R0, R1, tag);
    for_<R0>([&](auto I){ for_<R1>([&](auto J){
        OBLIGE("C06.broadcast_arrays.element", (long)va(I.value, J.value) == rd2(a, I.value, J.value) && (long)vb(I.value, J.value) == rd2(b, I.value, J.value), R0*10+R1, tag, I.value, J.value);
    }); });
}

void ob_c06_bt_1(const ARR<3,1>& a) { PIN(a, 3,1); ob_c06_broadcast_to<2,3,2>(OP<3,1>(a), 1); }
void ob_c06_bt_2(const ARR<2>& a) { PIN(a, 2); ob_c06_broadcast_to<2,3,2>(OP<2>(a), 2); }
void ob_c06_bt_3(const ARR<2,1,2>& a) { PIN(a, 2,1,2); ob_c06_broadcast_to<2,3,2>(OP<2,1,2>(a), 3); }
void ob_c06_bt_4(const ARR<1,1,1>& a) { PIN(a, 1,1,1); ob_c06_broadcast_to<2,2,2>(OP<1,1,1>(a), 4); }
void ob_c06_ba_1(const ARR<2,1>& a, const ARR<3>& b) { PIN(a, 2,1); PIN(b, 3); ob_c06_broadcast_arrays<2,3>(OP<2,1>(a), OP<3>(b), 1); }
void ob_c06_ba_2(const ARR<3>& a, const ARR<2,3>& b) { PIN(a, 3); PIN(b, 2,3); ob_c06_broadcast_arrays<2,3>(OP<3>(a), OP<2,3>(b), 2); }
void ob_c06_ba_3(const ARR<1,3>& a, const ARR<2,1>& b) { PIN(a, 1,3); PIN(b, 2,1); ob_c06_broadcast_arrays<2,3>(OP<1,3>(a), OP<2,1>(b), 3); }

void ob_c06c_negctl(const ARR<3,1>& a)
{ PIN(a, 3,1);
    auto v = nm::unwrap(view::broadcast_to(a, cshape<2,3,2>{}));
    NEGCTL("C06.NEG.stretched_axis_follows_the_index", (long)v(1, 2, 1) == a(1, 0), 0);
}
