// C06 (constant small shapes, symbolic integer elements): broadcast_to / broadcast_arrays views have the requested / common shape and,
// at index i, the source element at i with stretched axes read at 0 and prepended axes dropped.
#include "bcastob.hpp"
// ---- broadcast_to / broadcast_arrays at the view level
template <size_t R0, size_t R1, size_t R2, class A>
void ob_c06_broadcast_to(const A& a, int tag)
{
    auto v = nm::unwrap(view::broadcast_to(a, cshape<R0,R1,R2>{}));
    auto shp = nm::shape(v);
    OBLIGE("C06.broadcast_to.view_shape", (size_t)nm::len(shp) == 3 && (size_t)nm::at(shp, meta::ct_v<0>) == R0 && (size_t)nm::at(shp, meta::ct_v<1>) == R1 && (size_t)nm::at(shp, meta::ct_v<2>) == R2, R0*100+R1*10+R2, tag);
    for_<R0>([&](auto I){ for_<R1>([&](auto J){ for_<R2>([&](auto K){
        OBLIGE("C06.broadcast_to.view_element", (long)v(I.value, J.value, K.value) == rd3(a, I.value, J.value, K.value), R0*100+R1*10+R2, tag, I.value*10+J.value, K.value);
    }); }); });
}
template <size_t R0, size_t R1, class A, class B>
void ob_c06_broadcast_arrays(const A& a, const B& b, int tag)
{
    auto r = nm::unwrap(view::broadcast_arrays(a, b));
    const auto& va = nm::get<0>(r); const auto& vb = nm::get<1>(r);
    auto sa = nm::shape(va); auto sb = nm::shape(vb);
    OBLIGE("C06.broadcast_arrays.both_have_the_broadcast_shape", (size_t)nm::len(sa) == 2 && (size_t)nm::len(sb) == 2 && (size_t)nm::at(sa, meta::ct_v<0>) == R0 && (size_t)nm::at(sa, meta::ct_v<1>) == R1 && (size_t)nm::at(sb, meta::ct_v<0>) == R0 && (size_t)nm::at(sb, meta::ct_v<1>) == R1, R0, R1, tag);
    for_<R0>([&](auto I){ for_<R1>([&](auto J){
        OBLIGE("C06.broadcast_arrays.element", (long)va(I.value, J.value) == rd2(a, I.value, J.value) && (long)vb(I.value, J.value) == rd2(b, I.value, J.value), R0*10+R1, tag, I.value, J.value);
    }); });
}

void ob_c06_bt_1(const carr<3,1>& a)   { ob_c06_broadcast_to<2,3,2>(a, 1); }
void ob_c06_bt_2(const carr<2>& a)     { ob_c06_broadcast_to<2,3,2>(a, 2); }
void ob_c06_bt_3(const carr<2,1,2>& a) { ob_c06_broadcast_to<2,3,2>(a, 3); }
void ob_c06_bt_4(const carr<1,1,1>& a) { ob_c06_broadcast_to<2,2,2>(a, 4); }
void ob_c06_ba_1(const carr<2,1>& a, const carr<3>& b)   { ob_c06_broadcast_arrays<2,3>(a, b, 1); }
void ob_c06_ba_2(const carr<3>& a, const carr<2,3>& b)   { ob_c06_broadcast_arrays<2,3>(a, b, 2); }
void ob_c06_ba_3(const carr<1,3>& a, const carr<2,1>& b) { ob_c06_broadcast_arrays<2,3>(a, b, 3); }

void ob_c06c_negctl(const carr<3,1>& a)
{
    auto v = nm::unwrap(view::broadcast_to(a, cshape<2,3,2>{}));
    NEGCTL("C06.NEG.stretched_axis_follows_the_index", (long)v(1, 2, 1) == a(1, 0), 0);
}
