// C17 (view level, small shapes, symbolic INTEGER element values): every element of max_pool2d is the maximum of exactly its window - the
// nested-loop definition written against the input's own operator() - for kernel / stride combinations incl. overlapping windows, a non-square
// kernel and ceil mode with a clipped last window; values of either sign (the maximum does not start from 0).
#include "cview.hpp"
#define HV_ID "C17.pool.has_value"
#include "nmtools/array/view/pooling.hpp"
constexpr size_t Z = 0;
__attribute__((always_inline)) inline long mx(long a, long b) { return a > b ? a : b; }
#define K2 nmtools_tuple{meta::ct_v<2>,meta::ct_v<2>}
void ob_c17c_max_pool_2x2_s2(const ARR<1,2,4,4>& x)
{ PIN(x, 1,2,4,4);
    VIEW(v, view::max_pool2d(x, K2, K2, nm::False));
    EXPECT_VIEW4("C17.max_pool2d.shape", "C17.max_pool2d.element_is_the_maximum_of_its_window", v, 1,2,2,2, mx(mx(mx(x(Z,j,2*k,2*l), x(Z,j,2*k,2*l+1)), x(Z,j,2*k+1,2*l)), x(Z,j,2*k+1,2*l+1)), 0);
}
void ob_c17c_max_pool_overlap(const ARR<1,1,3,4>& x)
{ PIN(x, 1,1,3,4);
    VIEW(v, view::max_pool2d(x, K2, nmtools_tuple{meta::ct_v<1>,meta::ct_v<2>}, nm::False));   // stride (1,2): rows overlap
    EXPECT_VIEW4("C17.max_pool2d.shape", "C17.max_pool2d.element_is_the_maximum_of_its_window", v, 1,1,2,2, mx(mx(mx(x(Z,Z,k,2*l), x(Z,Z,k,2*l+1)), x(Z,Z,k+1,2*l)), x(Z,Z,k+1,2*l+1)), 1);
}
void ob_c17c_max_pool_nonsquare(const ARR<1,1,2,6>& x)
{ PIN(x, 1,1,2,6);
    VIEW(v, view::max_pool2d(x, nmtools_tuple{meta::ct_v<1>,meta::ct_v<3>}, nmtools_tuple{meta::ct_v<1>,meta::ct_v<3>}, nm::False));
    EXPECT_VIEW4("C17.max_pool2d.shape", "C17.max_pool2d.element_is_the_maximum_of_its_window", v, 1,1,2,2, mx(mx(x(Z,Z,k,3*l), x(Z,Z,k,3*l+1)), x(Z,Z,k,3*l+2)), 2);
}
void ob_c17c_max_pool_ceil(const ARR<1,1,3,3>& x)
{ PIN(x, 1,1,3,3);
    VIEW(v, view::max_pool2d(x, K2, K2, nm::True));   // ceil mode: the second window of each axis is clipped to one row / column
    EXPECT_VIEW4("C17.max_pool2d.shape", "C17.max_pool2d.ceil_mode_clips_the_last_window", v, 1,1,2,2,
        (k == 0 && l == 0 ? mx(mx(mx(x(Z,Z,Z,Z), x(Z,Z,Z,Z+1)), x(Z,Z,Z+1,Z)), x(Z,Z,Z+1,Z+1))
       : k == 0 ? mx(x(Z,Z,Z,Z+2), x(Z,Z,Z+1,Z+2)) : l == 0 ? mx(x(Z,Z,Z+2,Z), x(Z,Z,Z+2,Z+1)) : x(Z,Z,Z+2,Z+2)), 3);
    NEGCTL("C17.NEG.max_pool_reads_the_window_corner", cv::elem(v,0,0,0,0) == x(0,0,0,0), 0);
}
