// C04 (view level, constant shapes, symbolic element values), part 2: split, sliding_window, diagonal, diagflat, tril/triu, the generators
// (eye / identity / tri / full / zeros / ones (_like) / arange on an integer grid), pad, resize, expand.
#include "cview.hpp"
#define HV_ID "C04.view.has_value"
#include "nmtools/array/view/split.hpp"
#include "nmtools/array/view/sliding_window.hpp"
#include "nmtools/array/view/diagonal.hpp"
#include "nmtools/array/view/diagflat.hpp"
#include "nmtools/array/view/tril.hpp"
#include "nmtools/array/view/triu.hpp"
#include "nmtools/array/view/eye.hpp"
#include "nmtools/array/view/identity.hpp"
#include "nmtools/array/view/tri.hpp"
#include "nmtools/array/view/full.hpp"
#include "nmtools/array/view/zeros.hpp"
#include "nmtools/array/view/ones.hpp"
#include "nmtools/array/view/full_like.hpp"
#include "nmtools/array/view/zeros_like.hpp"
#include "nmtools/array/view/ones_like.hpp"
#include "nmtools/array/view/arange.hpp"
#include "nmtools/array/view/linspace.hpp"
#include "nmtools/array/view/pad.hpp"
#include "nmtools/array/view/resize.hpp"
#include "nmtools/array/view/expand.hpp"
constexpr size_t Z = 0;
constexpr nm::dtype_t<long> i64{};
// ---- split
void ob_c04j_split_sections(const ARR<4,3>& a)
{ PIN(a, 4,3);
    auto r = view::split(a, meta::ct_v<2>, meta::ct_v<0>);
    { const auto& v = nm::get<0>(r); EXPECT_VIEW2("C04.view.split.shape", "C04.view.split.equal_sections", v, 2,3, a(i, j), 0); }
    { const auto& v = nm::get<1>(r); EXPECT_VIEW2("C04.view.split.shape", "C04.view.split.equal_sections", v, 2,3, a(i+2, j), 1); }
}
void ob_c04j_split_indices(const ARR<2,4>& a)
{ PIN(a, 2,4);
    auto r = view::split(a, nmtools_tuple{meta::ct_v<1>, meta::ct_v<3>}, meta::ct_v<-1>);
    { const auto& v = nm::get<0>(r); EXPECT_VIEW2("C04.view.split.shape", "C04.view.split.at_indices", v, 2,1, a(i, j), 2); }
    { const auto& v = nm::get<1>(r); EXPECT_VIEW2("C04.view.split.shape", "C04.view.split.at_indices", v, 2,2, a(i, j+1), 3); }
    { const auto& v = nm::get<2>(r); EXPECT_VIEW2("C04.view.split.shape", "C04.view.split.at_indices", v, 2,1, a(i, j+3), 4); }
}
// ---- sliding_window
void ob_c04j_window(const ARR<4>& p, const ARR<3,4>& a)
{ PIN(p, 4); PIN(a, 3,4);
    { VIEW(v, view::sliding_window(p, 2)); EXPECT_VIEW2("C04.view.sliding_window.shape", "C04.view.sliding_window.element", v, 3,2, p(i+j), 0); }
    { VIEW(v, view::sliding_window(a, std::array<int,2>{2,2})); EXPECT_VIEW4("C04.view.sliding_window.shape", "C04.view.sliding_window.element", v, 2,3,2,2, a(i+k, j+l), 1); }
    { VIEW(v, view::sliding_window(a, 3, 1)); EXPECT_VIEW3("C04.view.sliding_window.shape", "C04.view.sliding_window.along_one_axis", v, 3,2,3, a(i, j+k), 2); }
    { VIEW(v, view::sliding_window(a, 2, -2)); EXPECT_VIEW3("C04.view.sliding_window.shape", "C04.view.sliding_window.along_one_axis", v, 2,4,2, a(i+k, j), 3); }
}
// ---- diagonal / diagflat
void ob_c04j_diagonal(const ARR<3,4>& a, const ARR<2,3,4>& b)
{ PIN(a, 3,4); PIN(b, 2,3,4);
    { VIEW(v, view::diagonal(a)); EXPECT_VIEW1("C04.view.diagonal.shape", "C04.view.diagonal.element", v, 3, a(i, i), 0); }
    { VIEW(v, view::diagonal(a, 1)); EXPECT_VIEW1("C04.view.diagonal.shape", "C04.view.diagonal.positive_offset", v, 3, a(i, i+1), 1); }
    { VIEW(v, view::diagonal(a, 2)); EXPECT_VIEW1("C04.view.diagonal.shape", "C04.view.diagonal.positive_offset", v, 2, a(i, i+2), 2); }
    { VIEW(v, view::diagonal(a, -1)); EXPECT_VIEW1("C04.view.diagonal.shape", "C04.view.diagonal.negative_offset", v, 2, a(i+1, i), 3); }
    { VIEW(v, view::diagonal(b, 0, 0, 2)); EXPECT_VIEW2("C04.view.diagonal.shape", "C04.view.diagonal.chosen_axes_diagonal_axis_is_appended", v, 3,2, b(j, i, j), 4); }
    { VIEW(v, view::diagonal(b, 1, -2, -1)); EXPECT_VIEW2("C04.view.diagonal.shape", "C04.view.diagonal.negative_axes", v, 2,3, b(i, j, j+1), 5); }
}
void ob_c04j_diagflat(const ARR<3>& p, const ARR<2,2>& a)
{ PIN(p, 3); PIN(a, 2,2);
    { VIEW(v, view::diagflat(p)); EXPECT_VIEW2("C04.view.diagflat.shape", "C04.view.diagflat.element", v, 3,3, (i == j ? p(i) : 0L), 0); }
    { VIEW(v, view::diagflat(p, 1)); EXPECT_VIEW2("C04.view.diagflat.shape", "C04.view.diagflat.offset", v, 4,4, (j == i+1 ? p(i < 3 ? i : Z) : 0L), 1); }
    { VIEW(v, view::diagflat(p, -1)); EXPECT_VIEW2("C04.view.diagflat.shape", "C04.view.diagflat.offset", v, 4,4, (i == j+1 ? p(j < 3 ? j : Z) : 0L), 2); }
    { VIEW(v, view::diagflat(a)); EXPECT_VIEW2("C04.view.diagflat.shape", "C04.view.diagflat.flattens_its_operand", v, 4,4, (i == j ? a(i/2, i%2) : 0L), 3); }
}
// ---- tril / triu
void ob_c04j_tri_views(const ARR<3,3>& a, const ARR<2,2,3>& b)
{ PIN(a, 3,3); PIN(b, 2,2,3);
    { VIEW(v, view::tril(a)); EXPECT_VIEW2("C04.view.tril.shape", "C04.view.tril.element", v, 3,3, (j <= i ? a(i,j) : 0L), 0); }
    { VIEW(v, view::tril(a, 1)); EXPECT_VIEW2("C04.view.tril.shape", "C04.view.tril.element", v, 3,3, (j <= i+1 ? a(i,j) : 0L), 1); }
    { VIEW(v, view::tril(a, -1)); EXPECT_VIEW2("C04.view.tril.shape", "C04.view.tril.element", v, 3,3, (j+1 <= i ? a(i,j) : 0L), 2); }
    { VIEW(v, view::triu(a)); EXPECT_VIEW2("C04.view.triu.shape", "C04.view.triu.element", v, 3,3, (j >= i ? a(i,j) : 0L), 3); }
    { VIEW(v, view::triu(a, 1)); EXPECT_VIEW2("C04.view.triu.shape", "C04.view.triu.element", v, 3,3, (j >= i+1 ? a(i,j) : 0L), 4); }
    { VIEW(v, view::triu(a, -1)); EXPECT_VIEW2("C04.view.triu.shape", "C04.view.triu.element", v, 3,3, (j+1 >= i ? a(i,j) : 0L), 5); }
    { VIEW(v, view::tril(b)); EXPECT_VIEW3("C04.view.tril.shape", "C04.view.tril.last_two_axes_of_a_batch", v, 2,2,3, (k <= j ? b(i,j,k) : 0L), 6); }
    { VIEW(v, view::triu(b, 1)); EXPECT_VIEW3("C04.view.triu.shape", "C04.view.triu.last_two_axes_of_a_batch", v, 2,2,3, (k >= j+1 ? b(i,j,k) : 0L), 7); }
}
// ---- generators
void ob_c04j_generators()
{ 
    { VIEW(v, view::eye(3, nm::None, 0, i64)); EXPECT_VIEW2("C04.view.eye.shape", "C04.view.eye.element", v, 3,3, (i == j ? 1L : 0L), 0); }
    { VIEW(v, view::eye(2, 4, 1, i64)); EXPECT_VIEW2("C04.view.eye.shape", "C04.view.eye.element", v, 2,4, (j == i+1 ? 1L : 0L), 1); }
    { VIEW(v, view::eye(4, 3, -2, i64)); EXPECT_VIEW2("C04.view.eye.shape", "C04.view.eye.element", v, 4,3, (i == j+2 ? 1L : 0L), 2); }
    { VIEW(v, view::identity(3, i64)); EXPECT_VIEW2("C04.view.identity.shape", "C04.view.identity.element", v, 3,3, (i == j ? 1L : 0L), 3); }
    { VIEW(v, view::tri(3, nm::None, 0, i64)); EXPECT_VIEW2("C04.view.tri.shape", "C04.view.tri.element", v, 3,3, (j <= i ? 1L : 0L), 4); }
    { VIEW(v, view::tri(2, 4, 1, i64)); EXPECT_VIEW2("C04.view.tri.shape", "C04.view.tri.element", v, 2,4, (j <= i+1 ? 1L : 0L), 5); }
    { VIEW(v, view::tri(3, 3, -1, i64)); EXPECT_VIEW2("C04.view.tri.shape", "C04.view.tri.element", v, 3,3, (j+1 <= i ? 1L : 0L), 6); }
}
void ob_c04j_fill(const ARR<2,3>& a, long val)
{ PIN(a, 2,3);
    { VIEW(v, view::full(std::array<size_t,2>{2,3}, val)); EXPECT_VIEW2("C04.view.full.shape", "C04.view.full.element", v, 2,3, val, 0); }
    { VIEW(v, view::zeros(std::array<size_t,2>{3,2}, i64)); EXPECT_VIEW2("C04.view.zeros.shape", "C04.view.zeros.element", v, 3,2, 0L, 1); }
    { VIEW(v, view::ones(cshape<2,2>{}, i64)); EXPECT_VIEW2("C04.view.ones.shape", "C04.view.ones.element", v, 2,2, 1L, 2); }
    { VIEW(v, view::full_like(a, val)); EXPECT_VIEW2("C04.view.full_like.shape", "C04.view.full_like.element", v, 2,3, val, 3); }
    { VIEW(v, view::zeros_like(a)); EXPECT_VIEW2("C04.view.zeros_like.shape", "C04.view.zeros_like.element", v, 2,3, 0L, 4); }
    { VIEW(v, view::ones_like(a)); EXPECT_VIEW2("C04.view.ones_like.shape", "C04.view.ones_like.element", v, 2,3, 1L, 5); }
}
void ob_c04j_arange()
{ 
    { VIEW(v, view::arange(5, i64)); EXPECT_VIEW1("C04.view.arange.shape", "C04.view.arange.element", v, 5, (long)i, 0); }
    { VIEW(v, view::arange(2, 8, 2, i64)); EXPECT_VIEW1("C04.view.arange.shape", "C04.view.arange.element", v, 3, 2 + 2*(long)i, 1); }
    { VIEW(v, view::arange(2, 9, 3, i64)); EXPECT_VIEW1("C04.view.arange.stop_not_on_the_grid", "C04.view.arange.element", v, 3, 2 + 3*(long)i, 2); }
    { VIEW(v, view::arange(-3, 1, i64)); EXPECT_VIEW1("C04.view.arange.shape", "C04.view.arange.element", v, 4, -3 + (long)i, 3); }
    { VIEW(v, view::arange(5, 1, -1, i64)); EXPECT_VIEW1("C04.view.arange.shape", "C04.view.arange.negative_step", v, 4, 5 - (long)i, 4); }
    { VIEW(v, view::arange(5, 0, -2, i64)); EXPECT_VIEW1("C04.view.arange.stop_not_on_the_grid", "C04.view.arange.negative_step", v, 3, 5 - 2*(long)i, 5); }
    // default (float) element type: the values of this grid are small integers, exactly representable
    { VIEW(v, view::arange(5, 1, -1)); EXPECT_VIEW1("C04.view.arange.shape", "C04.view.arange.negative_step_default_dtype", v, 4, 5 - (long)i, 6); }
    { VIEW(v, view::arange(1, 7, 2)); EXPECT_VIEW1("C04.view.arange.shape", "C04.view.arange.default_dtype", v, 3, 1 + 2*(long)i, 7); }
}
// ---- arange over an integer grid with SYMBOLIC bounds: len = ceil((stop - start) / step) for every extent below 2^40 (exact integer
// arithmetic; before F50 the length went through a float quotient), 0 for an empty range
void ob_c04j_arange_length(long n, long a)
{
    ASSUME(n >= 0 && n < (1l << 40)); ASSUME(a >= 0 && a < (1l << 40));
    { auto v = view::arange(n, i64); OBLIGE("C04.view.arange.length_for_every_stop", (size_t)nm::at(nm::shape(v), 0) == (size_t)n, 0); }
    { auto v = view::arange(a, a + n, i64); OBLIGE("C04.view.arange.length_for_every_start_and_stop", (size_t)nm::at(nm::shape(v), 0) == (size_t)n, 1); }
    { auto v = view::arange(a + n, a, 1l, i64); OBLIGE("C04.view.arange.empty_range_has_length_zero", (size_t)nm::at(nm::shape(v), 0) == (n == 0 ? 0 : 0), 4); }
}
// element i of arange(start, stop, step) is start + i*step, for symbolic bounds and a symbolic index
void ob_c04j_arange_element(long a, long n, size_t i)
{
    ASSUME(n >= 1 && n < (1l << 30)); ASSUME(a > -(1l << 30) && a < (1l << 30)); ASSUME(i < (size_t)n);
    { auto v = view::arange(a, a + n, i64); OBLIGE("C04.view.arange.element_for_every_index", (long)v(i) == a + (long)i, 0); }
    { auto v = view::arange(a, a + 2 * n, 2l, i64); OBLIGE("C04.view.arange.element_with_a_step_for_every_index", (long)v(i) == a + 2 * (long)i, 1); }
    { auto v = view::arange(a + 3 * n, a, -3l, i64); OBLIGE("C04.view.arange.element_with_a_negative_step_for_every_index", (long)v(i) == a + 3 * n - 3 * (long)i, 2); }
}
// eye(N, M, k) for symbolic extents and diagonal offset: the shape is (N, M)
void ob_c04j_eye_symbolic(size_t n, size_t m, int k, size_t i, size_t j)
{
    ASSUME(n >= 1 && n < (1ul << 20)); ASSUME(m >= 1 && m < (1ul << 20)); ASSUME(k > -(1 << 20) && k < (1 << 20)); ASSUME(i < n && j < m);
    auto mv = view::eye(n, m, k, i64);
    OBLIGE("C04.view.eye.symbolic.has_value", nm::has_value(mv), 0);
    auto v = nm::unwrap(mv); auto shp = nm::shape(v);
    OBLIGE("C04.view.eye.symbolic.shape", (size_t)nm::len(shp) == 2 && (size_t)nm::at(shp, 0) == n && (size_t)nm::at(shp, 1) == m, 0);
    // (the element law for symbolic extents - 1 exactly where j == i + k - does not fold: the view selects between two operands through an
    //  either; swept concretely for extents 1..4 and k in -5..5 without a deviation; the constant-shape instances above state it)
    (void)i; (void)j;
}
void ob_c04j_arange_length_step(long n)
{
    ASSUME(n >= 1 && n < (1l << 40));
    { auto v = view::arange(0l, n, 2l, i64); OBLIGE("C04.view.arange.length_with_a_step", (size_t)nm::at(nm::shape(v), 0) == (size_t)((n + 1) / 2), 2); }
    { auto v = view::arange(n, 0l, -3l, i64); OBLIGE("C04.view.arange.length_with_a_negative_step", (size_t)nm::at(nm::shape(v), 0) == (size_t)((n + 2) / 3), 3); }
}
// ---- linspace (numpy.linspace: num samples, y[i] = start + i*step with step = (stop-start)/(num-1 or num), y[0] = start, and with
// endpoint y[-1] = stop), symbolic floating-point bounds: the results are compared bit for bit, in the bounds' own type
template <class T, size_t NUM, class V>
__attribute__((always_inline)) inline void linspace_elements(const V& v, T start, T stop, bool endpoint, long tag, long form)
{
    auto same = [](T x, T y){ return __builtin_memcmp(&x, &y, sizeof(T)) == 0; };
    static_assert(std::is_same_v<std::remove_cv_t<std::remove_reference_t<decltype(v(0))>>, T>, "linspace keeps the floating-point type of its bounds");
    OBLIGE("C04.view.linspace.first_element_is_start", same(v(0), start), tag, form);
    if (endpoint) {
        if constexpr (NUM > 1) OBLIGE("C04.view.linspace.last_element_is_stop", same(v(NUM-1), stop), tag, form);
        for_<NUM>([&](auto I){ if constexpr (I.value > 0 && I.value + 1 < NUM) OBLIGE("C04.view.linspace.interior_element", same(v(I.value), start + (T)I.value * ((stop - start) / (T)(NUM - 1))), tag, form, I.value); });
    } else
        for_<NUM>([&](auto I){ if constexpr (I.value > 0) OBLIGE("C04.view.linspace.without_endpoint", same(v(I.value), start + (T)I.value * ((stop - start) / (T)NUM)), tag, form, I.value); });
}
template <class T, size_t NUM>
void ob_c04j_linspace(T start, T stop)
{
    constexpr long tag = (long)sizeof(T) * 100 + NUM;
    // num given at run time (the shape is then a run-time-length list: only the elements are stated) ...
    { auto v = view::linspace(start, stop, NUM); linspace_elements<T,NUM>(v, start, stop, true, tag, 0); }
    { auto v = view::linspace(start, stop, NUM, nm::False); linspace_elements<T,NUM>(v, start, stop, false, tag, 1); }
    // ... and as a compile-time constant
    { auto v = view::linspace(start, stop, meta::ct_v<NUM>); OBLIGE("C04.view.linspace.shape", cv::shape_is<NUM>(v), tag, 2); linspace_elements<T,NUM>(v, start, stop, true, tag, 2); }
    { auto v = view::linspace(start, stop, meta::ct_v<NUM>, nm::False); OBLIGE("C04.view.linspace.shape", cv::shape_is<NUM>(v), tag, 3); linspace_elements<T,NUM>(v, start, stop, false, tag, 3); }
}
template void ob_c04j_linspace<float,1>(float, float); template void ob_c04j_linspace<float,2>(float, float); template void ob_c04j_linspace<float,5>(float, float);
template void ob_c04j_linspace<double,1>(double, double); template void ob_c04j_linspace<double,4>(double, double); template void ob_c04j_linspace<double,11>(double, double);
// ---- pad (pad_width: all leading widths, then all trailing widths), resize (nearest-neighbour: src = floor(src_extent * i / dst_extent)), expand
void ob_c04j_pad(const ARR<2,2>& a, long val)
{ PIN(a, 2,2);
    { VIEW(v, view::pad(a, std::array<int,4>{1,0,0,2}, val)); EXPECT_VIEW2("C04.view.pad.shape", "C04.view.pad.element_or_fill", v, 3,4, ((i >= 1 && j < 2) ? a(i >= 1 ? i-1 : Z, j < 2 ? j : Z) : val), 0); }
    { VIEW(v, view::pad(a, std::array<int,4>{0,2,1,0}, val)); EXPECT_VIEW2("C04.view.pad.shape", "C04.view.pad.element_or_fill", v, 3,4, ((i < 2 && j >= 2) ? a(i < 2 ? i : Z, j >= 2 ? j-2 : Z) : val), 1); }
}
void ob_c04j_resize(const ARR<2,3>& a)
{ PIN(a, 2,3);
    { VIEW(v, view::resize(a, std::array<size_t,2>{4,6})); EXPECT_VIEW2("C04.view.resize.shape", "C04.view.resize.nearest_neighbour", v, 4,6, a(2*i/4, 3*j/6), 0); }
    { VIEW(v, view::resize(a, std::array<size_t,2>{3,2})); EXPECT_VIEW2("C04.view.resize.shape", "C04.view.resize.nearest_neighbour", v, 3,2, a(2*i/3, 3*j/2), 1); }
    { VIEW(v, view::resize(a, std::array<size_t,2>{1,5})); EXPECT_VIEW2("C04.view.resize.shape", "C04.view.resize.nearest_neighbour", v, 1,5, a(2*i/1, 3*j/5), 2); }
}
void ob_c04j_expand(const ARR<2,3>& a, long fill)
{ PIN(a, 2,3);
    { VIEW(v, view::expand(a, 1, 1, fill)); EXPECT_VIEW2("C04.view.expand.shape", "C04.view.expand.element_or_fill", v, 2,5, (j % 2 == 0 ? a(i, j/2) : fill), 0); }
    { VIEW(v, view::expand(a, 0, 2, fill)); EXPECT_VIEW2("C04.view.expand.shape", "C04.view.expand.element_or_fill", v, 4,3, (i % 3 == 0 ? a(i/3, j) : fill), 1); }
    { VIEW(v, view::expand(a, -1, 2, fill)); EXPECT_VIEW2("C04.view.expand.shape", "C04.view.expand.negative_axis", v, 2,7, (j % 3 == 0 ? a(i, j/3) : fill), 2); }
    { VIEW(v, view::expand(a, std::array<int,2>{0,1}, std::array<int,2>{1,1}, fill)); EXPECT_VIEW2("C04.view.expand.shape", "C04.view.expand.several_axes", v, 3,5, ((i % 2 == 0 && j % 2 == 0) ? a(i/2, j/2) : fill), 3); }
}
void ob_c04j_negctl(const ARR<3,4>& a)
{ PIN(a, 3,4);
    VIEW(v, view::diagonal(a, 1));
    NEGCTL("C04.NEG.diagonal_offset_sign", (long)v(0) == a(1, 0), 0);
}
