// Obligation vocabulary for engine E1 (see DESIGN.md §2).
//   ASSUME(c)           precondition of the property: path is unreachable otherwise
//   OBLIGE(id,c,ints..) clause to be proved: branch to an extern noreturn function; the
//                       optimiser must delete the branch (prove it dead) for all arguments
//   NEGCTL(id,c)        false-by-construction obligation that must SURVIVE (prover is not vacuous)
// In -DVERIF_DECLARE mode every OBLIGE becomes an unconditional extern call that carries the
// condition as an argument: the surviving calls are the set of *reachable* obligation points
// (non-vacuity canaries) and a folded-to-0 condition is a definite refutation.
#pragma once
extern "C" {
[[noreturn]] void __verif_fail(const char* id, long a, long b, long c, long d);
void __verif_declare(const char* id, long a, long b, long c, long d, int cond);
[[noreturn]] void __verif_negctl(const char* id, long a, long b, long c, long d);
void __verif_negctl_declare(const char* id, long a, long b, long c, long d, int cond);
void __verif_use(const void*);
}
namespace verif {
template <class... Ts>
[[noreturn]] __attribute__((always_inline)) inline void vfail(const char* id, Ts... ts)
{ long v[4]={-1,-1,-1,-1}; int i=0; (void)i; ((v[i++]=(long)ts),...); __verif_fail(id,v[0],v[1],v[2],v[3]); }
template <class... Ts>
__attribute__((always_inline)) inline void vdecl(const char* id, bool c, Ts... ts)
{ long v[4]={-1,-1,-1,-1}; int i=0; (void)i; ((v[i++]=(long)ts),...); [[clang::nomerge]] __verif_declare(id,v[0],v[1],v[2],v[3],(int)c); }
template <class... Ts>
[[noreturn]] __attribute__((always_inline)) inline void vneg(const char* id, Ts... ts)
{ long v[4]={-1,-1,-1,-1}; int i=0; (void)i; ((v[i++]=(long)ts),...); __verif_negctl(id,v[0],v[1],v[2],v[3]); }
template <class... Ts>
__attribute__((always_inline)) inline void vnegdecl(const char* id, bool c, Ts... ts)
{ long v[4]={-1,-1,-1,-1}; int i=0; (void)i; ((v[i++]=(long)ts),...); [[clang::nomerge]] __verif_negctl_declare(id,v[0],v[1],v[2],v[3],(int)c); }
}
#define ASSUME(c) do{ if(!(c)) __builtin_unreachable(); }while(0)
#ifdef VERIF_DECLARE
#define OBLIGE(id,c,...) do{ bool _vc=static_cast<bool>(c); ::verif::vdecl(id,_vc,##__VA_ARGS__); }while(0)
#define NEGCTL(id,c,...) do{ bool _vc=static_cast<bool>(c); ::verif::vnegdecl(id,_vc,##__VA_ARGS__); }while(0)
#else
#define OBLIGE(id,c,...) do{ if(!(c)) ::verif::vfail(id,##__VA_ARGS__); }while(0)
#define NEGCTL(id,c,...) do{ if(!(c)) ::verif::vneg(id,##__VA_ARGS__); }while(0)
#endif
// entry points: extern "C" so that the IR symbol is the obligation-group name
#define OB_ENTRY extern "C" __attribute__((used,noinline)) void
