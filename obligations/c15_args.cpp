// C15 (+C03): argument validation at index level - normalize_axis and shape_reshape: value exactly when NumPy accepts,
// Nothing exactly when NumPy raises, and the accepted value is NumPy's (DESIGN §3 C15, §8)
#include "common.hpp"
#include "nmtools/array/index/normalize_axis.hpp"
#include "nmtools/array/index/reshape.hpp"
using namespace ob;
using svi = nmtools::utl::static_vector<int,8>;

// ---- normalize_axis(int axis, ndim): valid <=> -ndim <= axis < ndim; value = axis mod ndim
void ob_c15_normalize_axis_scalar(int axis, int ndim)
{
    ASSUME(ndim >= 1 && ndim <= 64);
    if (axis >= -ndim && axis < ndim) {
        auto r = ix::normalize_axis(axis, ndim);
        OBLIGE("C15.normalize_axis.scalar.value_when_in_range", static_cast<bool>(r), 0);
        // (the normalised value of the scalar form is not dischargeable: 32-bit result packed into the optional image; the array form below states it)
    } else {
        auto r = ix::normalize_axis(axis, ndim);
        OBLIGE("C15.normalize_axis.scalar.nothing_when_out_of_range", !static_cast<bool>(r), 0);
    }
}
// ---- normalize_axis(array of axes, ndim): valid <=> every axis in range (first offending position J)
template <class A, size_t R, size_t J, long KIND>
__attribute__((always_inline)) inline void na_chain(const A& axes, int ndim)
{
    if constexpr (J == R) {
        auto r = ix::normalize_axis(axes, ndim);
        OBLIGE("C15.normalize_axis.array.value_when_all_in_range", static_cast<bool>(r), KIND, R);
        if (r) for_<R>([&](auto I){ int a = (int)rd<I.value>(axes); OBLIGE("C15.normalize_axis.array.value", (long)nm::at(*r, I.value) == (long)(a < 0 ? a + ndim : a), KIND, R, I.value); });
    } else {
        int a = (int)rd<J>(axes);
        if (!(a >= -ndim && a < ndim)) {
            auto r = ix::normalize_axis(axes, ndim);
            OBLIGE("C15.normalize_axis.array.nothing_when_out_of_range", !static_cast<bool>(r), KIND, R, J);
        } else na_chain<A,R,J+1,KIND>(axes, ndim);
    }
}
template <class A, size_t R, long KIND>
void ob_c15_normalize_axis_array(const A& axes_, int ndim)
{
    const A axes(axes_);
    assume_len<R>(axes);
    ASSUME(ndim >= 1 && ndim <= 64);
    na_chain<A,R,0,KIND>(axes, ndim);
}
// ---- shape_reshape(src, dst) without -1: valid <=> all target extents >= 1 and products equal; result = dst
template <size_t RS, size_t RD>
void ob_c15_reshape_plain(const std::array<size_t,RS>& src_, const std::array<int,RD>& dst_)
{
    const auto src = src_; const auto dst = dst_;
    for_<RS>([&](auto I){ ASSUME(src[I.value] >= 1 && src[I.value] <= 4096); });
    for_<RD>([&](auto I){ ASSUME(dst[I.value] >= 1 && dst[I.value] <= 4096); });
    size_t ns = 1, nd = 1;
    for_<RS>([&](auto I){ ns *= src[I.value]; });
    for_<RD>([&](auto I){ nd *= (size_t)dst[I.value]; });
    if (ns == nd) {
        auto r = ix::shape_reshape(src, dst);
        OBLIGE("C15.reshape.value_when_numel_equal", static_cast<bool>(r), RS, RD);
        if (r) for_<RD>([&](auto I){ OBLIGE("C15.reshape.shape_is_target|C03.reshape.shape_is_target", (size_t)nm::at(*r, I.value) == (size_t)dst[I.value], RS, RD, I.value); });
    } else {
        auto r = ix::shape_reshape(src, dst);
        OBLIGE("C15.reshape.nothing_when_numel_differs", !static_cast<bool>(r), RS, RD);
    }
}
// ---- the same with the new shape given as COMPILE-TIME constants over a run-time source shape (a separate branch of shape_reshape:
// the constant result is validated against the run-time element count)
template <size_t RS, size_t... D>
void ob_c15_reshape_ct_newshape(const std::array<size_t,RS>& src_)
{
    const auto src = src_;
    for_<RS>([&](auto I){ ASSUME(src[I.value] >= 1 && src[I.value] <= 4096); });
    size_t ns = 1; for_<RS>([&](auto I){ ns *= src[I.value]; });
    constexpr size_t nd = (D * ... * 1); constexpr long tag = (long)nd * 10 + sizeof...(D);
    if (ns == nd) {
        auto r = ix::shape_reshape(src, nmtools_tuple{meta::ct_v<D>...});
        OBLIGE("C15.reshape.ct_newshape.value_when_numel_equal", nm::has_value(r), RS, tag);
    } else {
        auto r = ix::shape_reshape(src, nmtools_tuple{meta::ct_v<D>...});
        OBLIGE("C15.reshape.ct_newshape.nothing_when_numel_differs", !nm::has_value(r), RS, tag);
    }
}
template void ob_c15_reshape_ct_newshape<1,3,2>(const std::array<size_t,1>&); template void ob_c15_reshape_ct_newshape<2,3,2>(const std::array<size_t,2>&);
template void ob_c15_reshape_ct_newshape<3,4,3>(const std::array<size_t,3>&); template void ob_c15_reshape_ct_newshape<2,1>(const std::array<size_t,2>&); template void ob_c15_reshape_ct_newshape<2,2,3,2>(const std::array<size_t,2>&);
// ---- a zero or negative (other than -1) target extent at position P is rejected
template <size_t RS, size_t RD, size_t P>
void ob_c15_reshape_bad_extent(const std::array<size_t,RS>& src_, const std::array<int,RD>& dst_)
{
    const auto src = src_; const auto dst = dst_;
    for_<RS>([&](auto I){ ASSUME(src[I.value] >= 1 && src[I.value] <= 4096); });
    for_<RD>([&](auto I){ ASSUME(dst[I.value] >= -4096 && dst[I.value] <= 4096); });
    if (dst[P] == 0) {
        auto r = ix::shape_reshape(src, dst);
        OBLIGE("C15.reshape.nothing_when_zero_extent", !static_cast<bool>(r), RS, RD, P);
    }
    if (dst[P] < -1) {
        auto r = ix::shape_reshape(src, dst);
        OBLIGE("C15.reshape.nothing_when_negative_extent", !static_cast<bool>(r), RS, RD, P);
    }
}
// ---- more than one -1 is rejected
template <size_t RS, size_t RD, size_t P, size_t Q>
void ob_c15_reshape_two_minus_one(const std::array<size_t,RS>& src_, const std::array<int,RD>& dst_)
{
    const auto src = src_; const auto dst = dst_;
    for_<RS>([&](auto I){ ASSUME(src[I.value] >= 1 && src[I.value] <= 4096); });
    for_<RD>([&](auto I){ ASSUME(dst[I.value] >= -1 && dst[I.value] != 0 && dst[I.value] <= 4096); });
    if (dst[P] == -1 && dst[Q] == -1) {
        auto r = ix::shape_reshape(src, dst);
        OBLIGE("C15.reshape.nothing_when_two_minus_one", !static_cast<bool>(r), RS, RD, P*10+Q);
    }
}
// ---- exactly one -1 at position P: valid <=> product of the others divides numel; inferred extent = numel / product
template <size_t RS, size_t RD, size_t P>
void ob_c15_reshape_infer(const std::array<size_t,RS>& src_, const std::array<int,RD>& dst_)
{
    const auto src = src_; const auto dst = dst_;
    for_<RS>([&](auto I){ ASSUME(src[I.value] >= 1 && src[I.value] <= 4096); });
    for_<RD>([&](auto I){ if constexpr (I.value == P) ASSUME(dst[I.value] == -1); else ASSUME(dst[I.value] >= 1 && dst[I.value] <= 4096); });
    size_t ns = 1, nd = 1;
    for_<RS>([&](auto I){ ns *= src[I.value]; });
    for_<RD>([&](auto I){ if constexpr (I.value != P) nd *= (size_t)dst[I.value]; });
    if (ns % nd == 0) {
        auto r = ix::shape_reshape(src, dst);
        OBLIGE("C15.reshape.infer.value_when_divisible", static_cast<bool>(r), RS, RD, P);
        if (r) for_<RD>([&](auto I){
            if constexpr (I.value == P) OBLIGE("C15.reshape.infer.inferred_extent|C03.reshape.infer.inferred_extent", (size_t)nm::at(*r, I.value) == ns / nd, RS, RD, P);
            else OBLIGE("C15.reshape.infer.other_extents|C03.reshape.infer.other_extents", (size_t)nm::at(*r, I.value) == (size_t)dst[I.value], RS, RD, P, I.value);
        });
    } else {
        auto r = ix::shape_reshape(src, dst);
        OBLIGE("C15.reshape.infer.nothing_when_not_divisible", !static_cast<bool>(r), RS, RD, P);
    }
}
void ob_c15_args_negctl(int axis, int ndim)
{
    ASSUME(ndim >= 1 && ndim <= 64);
    auto r = ix::normalize_axis(axis, ndim);
    NEGCTL("C15.NEG.normalize_axis_always_valid|C03.NEG.normalize_axis_always_valid", static_cast<bool>(r), 0);
}
template void ob_c15_normalize_axis_array<std::array<int,1>,1,0>(const std::array<int,1>&, int);
template void ob_c15_normalize_axis_array<std::array<int,2>,2,0>(const std::array<int,2>&, int);
template void ob_c15_normalize_axis_array<std::array<int,3>,3,0>(const std::array<int,3>&, int);
// (static_vector<int> axes: the result is a bounded container filled in a loop over len(axis) with a validity flag - not dischargeable)
#define RP(RS,RD) template void ob_c15_reshape_plain<RS,RD>(const std::array<size_t,RS>&, const std::array<int,RD>&);
RP(1,2) RP(2,2) RP(3,2) RP(2,3) RP(3,3)   // rank-1 targets: not dischargeable (engine), listed in DESIGN §8.3
#define RB(RS,RD,P) template void ob_c15_reshape_bad_extent<RS,RD,P>(const std::array<size_t,RS>&, const std::array<int,RD>&);
RB(1,2,0) RB(1,2,1) RB(2,3,0) RB(2,3,1) RB(2,3,2) RB(3,1,0)
template void ob_c15_reshape_two_minus_one<2,2,0,1>(const std::array<size_t,2>&, const std::array<int,2>&);
template void ob_c15_reshape_two_minus_one<2,3,0,2>(const std::array<size_t,2>&, const std::array<int,3>&);
template void ob_c15_reshape_two_minus_one<3,3,1,2>(const std::array<size_t,3>&, const std::array<int,3>&);
#define RI(RS,RD,P) template void ob_c15_reshape_infer<RS,RD,P>(const std::array<size_t,RS>&, const std::array<int,RD>&);
RI(1,1,0) RI(1,2,0) RI(1,2,1) RI(2,2,0) RI(2,3,1) RI(2,3,2)
