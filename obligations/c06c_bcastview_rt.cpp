// the obligations of c06c_bcastview.cpp on arrays whose shape is a run-time value (the library's run-time branches)
#define VERIF_RT_KIND 1
#include "c06c_bcastview.cpp"
