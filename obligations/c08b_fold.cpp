// C08: the element of a reduction / accumulation IS the left fold, accumulator first, in increasing index order, over exactly the
// elements of the reduction slice. Shown with the non-commutative, non-associative scalar operation subtract on integer arrays of
// constant shape (the element VALUES stay symbolic): result(i) = ((a(i,0) - a(i,1)) - a(i,2)) ... ; with an initial value the fold
// starts from it; accumulate(i,k) = the fold of the first k+1 elements.
#include "common.hpp"
#include "nmtools/array/ndarray.hpp"
#include "nmtools/array/view/ufuncs/subtract.hpp"
#include "nmtools/utility/unwrap.hpp"
using namespace ob;
namespace na = nmtools::array; namespace view = nmtools::view;
template <size_t A, size_t B> using cshape2 = nmtools_tuple<meta::ct<A>,meta::ct<B>>;
template <size_t A, size_t B> using arr2 = na::ndarray_t<std::array<long,A*B>, cshape2<A,B>>;

template <size_t A, size_t B, int AXIS, bool INIT>
void ob_c08_fold2(const arr2<A,B>& a, long init)
{
    constexpr size_t ax = (size_t)(AXIS < 0 ? AXIS + 2 : AXIS);
    constexpr size_t NOUT = (ax == 0 ? B : A), NRED = (ax == 0 ? A : B);
    auto v = [&](){
        if constexpr (INIT) return nm::unwrap(view::reduce_subtract(a, AXIS, nm::None, init));
        else return nm::unwrap(view::reduce_subtract(a, AXIS));
    }();
    auto shp = nm::shape(v);
    OBLIGE("C08.fold.result_shape", (size_t)nm::len(shp) == 1 && (size_t)nm::at(shp, meta::ct_v<0>) == NOUT, A, B, AXIS+10, INIT);
    for_<NOUT>([&](auto I){
        long want = 0;
        for_<NRED>([&](auto K){
            const long e = (ax == 0) ? a(K.value, I.value) : a(I.value, K.value);
            if constexpr (K.value == 0) want = INIT ? init - e : e; else want = want - e;
        });
        OBLIGE("C08.fold.element_is_left_fold_in_index_order", (long)v(I.value) == want, A*10+B, AXIS+10, INIT, I.value);
    });
}
template <size_t A, size_t B, int AXIS>
void ob_c08_accumulate2(const arr2<A,B>& a)
{
    constexpr size_t ax = (size_t)(AXIS < 0 ? AXIS + 2 : AXIS);
    auto v = nm::unwrap(view::accumulate_subtract(a, AXIS));
    for_<A>([&](auto I){ for_<B>([&](auto J){
        constexpr size_t last = (ax == 0 ? I.value : J.value);
        long want = 0;
        for_<last+1>([&](auto K){
            const long e = (ax == 0) ? a(K.value, J.value) : a(I.value, K.value);
            if constexpr (K.value == 0) want = e; else want = want - e;
        });
        OBLIGE("C08.accumulate.element_is_prefix_fold", (long)v(I.value, J.value) == want, A*10+B, AXIS+10, I.value, J.value);
    }); });
}

struct sub_op { template <class T, class U> constexpr auto operator()(const T& t, const U& u) const { return t - u; } };
// ---- axis None: the whole array is folded in C order (row by row); reduce_subtract refuses axis None, so the generic reduce is used with a local subtract
template <size_t A, size_t B, bool INIT>
void ob_c08_fold_all(const arr2<A,B>& a, long init)
{
    auto v = [&](){
        if constexpr (INIT) return nm::unwrap(view::reduce(sub_op{}, a, nm::None, nm::None, init));
        else return nm::unwrap(view::reduce(sub_op{}, a, nm::None));
    }();
    long want = 0;
    for_<A>([&](auto I){ for_<B>([&](auto J){
        const long e = a(I.value, J.value);
        if constexpr (I.value == 0 && J.value == 0) want = INIT ? init - e : e; else want = want - e;
    }); });
    OBLIGE("C08.fold.axis_none_folds_the_c_order_flattening", (long)static_cast<long>(v) == want, A, B, INIT);
}
// ---- rank 3, one axis
template <size_t A, size_t B, size_t C> using arr3 = na::ndarray_t<std::array<long,A*B*C>, nmtools_tuple<meta::ct<A>,meta::ct<B>,meta::ct<C>>>;
template <size_t A, size_t B, size_t C, int AXIS>
void ob_c08_fold3(const arr3<A,B,C>& a)
{
    constexpr size_t ax = (size_t)(AXIS < 0 ? AXIS + 3 : AXIS);
    constexpr size_t E[3] = {A,B,C};
    constexpr size_t o0 = (ax == 0 ? 1 : 0), o1 = (ax == 2 ? 1 : 2);
    auto v = nm::unwrap(view::reduce_subtract(a, AXIS));
    for_<E[o0]>([&](auto I){ for_<E[o1]>([&](auto J){
        long want = 0;
        for_<E[ax]>([&](auto K){
            size_t idx[3]; idx[o0] = I.value; idx[o1] = J.value; idx[ax] = K.value;
            const long e = a(idx[0], idx[1], idx[2]);
            if constexpr (K.value == 0) want = e; else want = want - e;
        });
        OBLIGE("C08.fold.element_is_left_fold_in_index_order", (long)v(I.value, J.value) == want, A*100+B*10+C, AXIS+10, I.value, J.value);
    }); });
}
void ob_c08_fold_negctl(const arr2<2,3>& a)
{
    auto v = nm::unwrap(view::reduce_subtract(a, 1));
    NEGCTL("C08.NEG.fold_is_right_fold", (long)v(0) == a(0,0) - (a(0,1) - a(0,2)), 0);
}
#define FD(A,B,AX) template void ob_c08_fold2<A,B,AX,false>(const arr2<A,B>&, long); template void ob_c08_fold2<A,B,AX,true>(const arr2<A,B>&, long); template void ob_c08_accumulate2<A,B,AX>(const arr2<A,B>&);
FD(2,3,0) FD(2,3,1) FD(2,3,-1) FD(3,2,-2) FD(3,4,1) FD(4,3,0) FD(1,3,1) FD(3,1,0)
#define FA(A,B) template void ob_c08_fold_all<A,B,false>(const arr2<A,B>&, long); template void ob_c08_fold_all<A,B,true>(const arr2<A,B>&, long);
FA(2,3) FA(3,2) FA(1,4)
#define F3(A,B,C,AX) template void ob_c08_fold3<A,B,C,AX>(const arr3<A,B,C>&);
F3(2,3,2,0) F3(2,3,2,1) F3(2,3,2,2) F3(2,2,3,-1) F3(3,2,2,-3)
