// C10 (small shapes, symbolic integer elements; constant-shape and run-time-shape kinds): the eager entry point array::X returns an array
// whose shape is the view's shape and whose element at every index is the view's element (written here from the operation's definition
// for one-operation views).
#include "cview.hpp"
#define HV_ID "C10.eval.has_value"
#include "nmtools/array/eval.hpp"
#include "nmtools/array/array/transpose.hpp"
#include "nmtools/array/array/reshape.hpp"
#include "nmtools/array/array/flip.hpp"
#include "nmtools/array/array/tile.hpp"
#include "nmtools/array/array/concatenate.hpp"
#include "nmtools/array/array/where.hpp"
#include "nmtools/array/array/matmul.hpp"
#include "nmtools/array/array/sum.hpp"
#include "nmtools/array/array/cumsum.hpp"
#include "nmtools/array/array/ufuncs/subtract.hpp"
#include "nmtools/array/array/ufuncs/add.hpp"
#include "nmtools/array/array/broadcast_to.hpp"
using nm::None;
constexpr size_t Z = 0;

void ob_c10b_single(const ARR<2,3>& a, const ARR<3>& b, const ARR<1,3>& c)
{ PIN(a, 2,3); PIN(b, 3); PIN(c, 1,3);
    { VIEW(r, na::transpose(a)); EXPECT_VIEW2("C10.eval.transpose.shape", "C10.eval.transpose.element", r, 3,2, a(j,i), 0); }
    { VIEW(r, na::reshape(a, std::array<int,2>{3,2})); EXPECT_VIEW2("C10.eval.reshape.shape", "C10.eval.reshape.element", r, 3,2, a((i*2+j)/3, (i*2+j)%3), 1); }
    { VIEW(r, na::tile(a, nmtools_tuple{meta::ct_v<2>, meta::ct_v<1>})); EXPECT_VIEW2("C10.eval.tile.shape", "C10.eval.tile.element", r, 4,3, a(i%2, j), 3); }
    { VIEW(r, na::subtract(a, b)); EXPECT_VIEW2("C10.eval.ufunc.shape", "C10.eval.ufunc.broadcast_element", r, 2,3, a(i,j) - b(j), 4); }
    { VIEW(r, na::concatenate(a, c, 0)); EXPECT_VIEW2("C10.eval.concatenate.shape", "C10.eval.concatenate.element", r, 3,3, (i < 2 ? a(i < 2 ? i : Z, j) : c(Z, j)), 5); }
    { VIEW(r, na::sum(a, meta::ct_v<0>)); EXPECT_VIEW1("C10.eval.sum.shape", "C10.eval.sum.element", r, 3, a(Z,i) + a((size_t)1,i), 6); }
    { auto bs = cshape<2,3>{}; VIEW(r, na::broadcast_to(b, bs)); EXPECT_VIEW2("C10.eval.broadcast_to.shape", "C10.eval.broadcast_to.element", r, 2,3, b(j), 8); }
}
void ob_c10b_matmul(const ARR<2,3>& a, const ARR<3,2>& b)
{ PIN(a, 2,3); PIN(b, 3,2);
    VIEW(r, na::matmul(a, b));
    EXPECT_VIEW2("C10.eval.matmul.shape", "C10.eval.matmul.element", r, 2,2, a(i,Z)*b(Z,j) + a(i,(size_t)1)*b((size_t)1,j) + a(i,(size_t)2)*b((size_t)2,j), 0);
}
// ---- column-major result layout and caller-supplied outputs: the element at every INDEX of the result is the view's element, whatever the
// buffer layout (non-palindromic shapes, so that a layout mix-up cannot cancel out)
#include "nmtools/array/view/transpose.hpp"
#include "nmtools/array/view/flip.hpp"
#include "nmtools/array/view/ufuncs/subtract.hpp"
void ob_c10b_column_major(const ARR<2,3>& a, const ARR<3>& b)
{ PIN(a, 2,3); PIN(b, 3);
    { VIEW(v, view::transpose(a)); VIEW(r, na::eval(v, None, None, na::ColumnMajorResolver)); EXPECT_VIEW2("C10.eval.column_major.shape", "C10.eval.column_major.element_at_every_index", r, 3,2, a(j,i), 20); }
    { VIEW(v, view::subtract(a, b)); VIEW(r, na::eval(v, None, None, na::ColumnMajorResolver)); EXPECT_VIEW2("C10.eval.column_major.shape", "C10.eval.column_major.element_at_every_index", r, 2,3, a(i,j) - b(j), 21); }
}
// (tried and not stated: a column-major result for an operand with a run-time DIMENSION (bounded shape) - does not fold; such results are
//  decided at the level of the array object, C20 / C01)
// (tried and not stated: a rank-3 column-major result and a caller-supplied output - the evaluator's copy loop does not fold there)
// (not stated: eval of a composed view of depth 3, the step-wise vs one-shot comparison and caller-supplied outputs - the evaluator's copy loop over
//  a nested view is not folded by LLVM for symbolic elements; that copy loop is decided structurally by rule R-EVAL)
void ob_c10b_negctl(const ARR<2,3>& a)
{ PIN(a, 2,3);
    auto r = nm::unwrap(na::transpose(a));
    NEGCTL("C10.NEG.eval_forgets_to_transpose", (long)r(2,1) == a(Z,(size_t)1), 0);
}
