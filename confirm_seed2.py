#!/usr/bin/env python3
"""Maintenance helper (not a registered check): confirm one seeded change against the pinned test suite without a full rebuild.

usage: confirm_seed2.py <seed-dir> [-j N]

  /repo/_build must be a complete, up-to-date build of /repo HEAD (it is only read).
  A scratch worktree of /repo HEAD (/var/tmp/cs) gets the patch; every test object whose recorded dependencies (ninja -t deps)
  include a patched file is recompiled with its own command line against the worktree, each test executable containing such an
  object is relinked with the untouched baseline objects, and the complete output of every relinked executable is compared with
  the output of the baseline executable. The demo is compiled and run against both trees.
Writes <seed-dir>/confirm.json and prints a one-line verdict.
"""
import sys, os, re, subprocess, json, shutil, concurrent.futures as cf

REPO = "/repo"; B = REPO + "/_build"; WT = "/var/tmp/cs"; OUT = "/var/tmp/cs_build"


def sh(cmd, cwd=None, timeout=None):
    p = subprocess.run(cmd, shell=True, cwd=cwd, capture_output=True, text=True, timeout=timeout)
    return p.returncode, p.stdout + p.stderr


def ninja_deps():
    rc, out = sh("ninja -C %s -t deps" % B)
    deps = {}; cur = None
    for line in out.splitlines():
        if line and not line.startswith(" "):
            m = re.match(r"^(\S+): #deps", line)
            cur = m.group(1) if m else None
            if cur: deps[cur] = set()
        elif cur and line.strip():
            deps[cur].add(os.path.normpath(os.path.join(B, line.strip())))
    return deps


def main():
    sd = os.path.abspath(sys.argv[1]); jobs = 6
    if "-j" in sys.argv: jobs = int(sys.argv[sys.argv.index("-j") + 1])
    # the commit /repo/_build was built from (pinned in a file while /repo moves ahead of its build directory)
    pinned = open("/var/tmp/confirm_head.txt").read().strip() if os.path.exists("/var/tmp/confirm_head.txt") else None
    res = dict(seed=os.path.basename(sd), head=pinned or sh("git -C %s rev-parse --short HEAD" % REPO)[1].strip())
    if not os.path.isdir(WT):
        rc, o = sh("git -C %s worktree add --detach %s HEAD" % (REPO, WT))
        if rc: print(o); return 2
    sh("git checkout -q -- . && git clean -fdq", cwd=WT)
    sh("git checkout -q --detach %s" % res["head"], cwd=WT)
    patch = os.path.join(sd, "patch.diff")
    rc, o = sh("git apply %s" % patch, cwd=WT)
    if rc:
        rc, o = sh("git apply --3way %s" % patch, cwd=WT)
        res["applied"] = "3way" if rc == 0 else "FAILED: " + o[-400:]
        if rc: json.dump(res, open(os.path.join(sd, "confirm.json"), "w"), indent=1); print(res["seed"], "PATCH DOES NOT APPLY"); return 3
        sh("git reset -q", cwd=WT)
    else:
        res["applied"] = "clean"
    rc, o = sh("git diff --name-only", cwd=WT)
    changed = [l.strip() for l in o.splitlines() if l.strip()]
    res["changed_files"] = changed
    # refreshed patch against the current HEAD (what `git -C /repo apply` must accept)
    rc, o = sh("git diff", cwd=WT); open(os.path.join(sd, "patch.head.diff"), "w").write(o)
    deps = ninja_deps()
    chg_abs = set(os.path.join(REPO, c) for c in changed)
    objs = sorted(o for o, d in deps.items() if d & chg_abs)
    res["recompiled_objects"] = objs
    shutil.rmtree(OUT, ignore_errors=True); os.makedirs(OUT)
    def compile_one(obj):
        rc, o = sh("ninja -C %s -t commands %s" % (B, obj))
        cmd = [l for l in o.splitlines() if (" -o " + obj) in l][-1]
        cmd = cmd.replace(REPO + "/", WT + "/").replace(WT + "/_build", B)
        new = os.path.join(OUT, obj); os.makedirs(os.path.dirname(new), exist_ok=True)
        cmd = cmd.replace(" -o " + obj, " -o " + new).replace(" -MF " + obj + ".d", " -MF " + new + ".d").replace(" -MT " + obj, " -MT " + new)
        rc, o = sh(cmd, cwd=B)
        return obj, rc, o[-2000:]
    fails = []
    with cf.ThreadPoolExecutor(jobs) as ex:
        for obj, rc, o in ex.map(compile_one, objs):
            if rc: fails.append((obj, o))
    res["compile_failures"] = fails
    if fails:
        res["verdict"] = "DOES NOT COMPILE"; json.dump(res, open(os.path.join(sd, "confirm.json"), "w"), indent=1)
        print(res["seed"], "DOES NOT COMPILE", fails[0][0]); return 4
    # executables
    rc, o = sh("ninja -C %s -t targets all" % B)
    exes = [l.split(":")[0] for l in o.splitlines() if ": CXX_EXECUTABLE_LINKER" in l]
    tests = []
    for exe in exes:
        rc, o = sh("ninja -C %s -t commands %s" % (B, exe))
        link = [l for l in o.splitlines() if (" -o " + exe) in l]
        if not link: continue
        link = link[-1]
        used = [ob for ob in objs if (" " + ob + " ") in (link + " ") or (" " + ob) in link]
        rec = dict(exe=exe, relinked=bool(used), n_recompiled=len(used))
        if used:
            for ob in used: link = link.replace(ob, os.path.join(OUT, ob))
            newexe = os.path.join(OUT, exe); os.makedirs(os.path.dirname(newexe), exist_ok=True)
            link = link.replace(" -o " + exe, " -o " + newexe)
            rc, o2 = sh(link, cwd=B)
            if rc: rec["link_error"] = o2[-1500:]; tests.append(rec); continue
            norm = lambda s: s.replace(WT, "R").replace(REPO, "R").replace(OUT, "B").replace(B, "B")
            rb, ob_ = sh(os.path.join(B, exe), timeout=900); rn, on_ = sh(newexe, timeout=900)
            rec.update(base_rc=rb, seed_rc=rn, identical_output=(norm(ob_) == norm(on_)),
                       summary=[l for l in on_.splitlines() if "test cases" in l or "assertions" in l])
        tests.append(rec)
    res["executables"] = tests
    ok_tests = all((not t["relinked"]) or (t.get("identical_output") and t.get("base_rc") == t.get("seed_rc")) for t in tests) and not any("link_error" in t for t in tests)
    # demo
    demo = os.path.join(sd, "demo.cpp")
    extra = "-mavx2 -mfma" if "simd" in open(demo).read() else ""
    d = {}
    for tag, inc in (("base", REPO), ("seed", WT)):
        exe = os.path.join(OUT, "demo_" + tag)
        rc, o = sh("g++ -std=c++17 -I%s/include %s %s -o %s" % (inc, extra, demo, exe))
        if rc: d[tag] = dict(compile_error=o[-1500:]); continue
        try: rc, o = sh(exe, timeout=300)
        except subprocess.TimeoutExpired: rc, o = 124, "timeout"
        d[tag] = dict(rc=rc, tail=o[-600:])
    res["demo"] = d
    ok_demo = d.get("base", {}).get("rc") == 0 and d.get("seed", {}).get("rc") not in (0, None)
    res["verdict"] = "CONFIRMED" if (ok_tests and ok_demo) else "NOT CONFIRMED (tests_ok=%s demo_ok=%s)" % (ok_tests, ok_demo)
    json.dump(res, open(os.path.join(sd, "confirm.json"), "w"), indent=1)
    sh("git checkout -q -- . && git clean -fdq", cwd=WT)
    shutil.rmtree(OUT, ignore_errors=True)
    print(res["seed"], res["verdict"], "objects=%d" % len(objs), "relinked=%s" % [t["exe"].split("/")[-1] for t in tests if t["relinked"]],
          "demo base_rc=%s seed_rc=%s" % (d.get("base", {}).get("rc"), d.get("seed", {}).get("rc")))
    return 0


if __name__ == "__main__":
    sys.exit(main())
