#!/usr/bin/env python3
"""Entry point of every registered check:  python3 /verif/check.py <Cxx> --tier quick|thorough

exit 0  property held on everything analysed (KNOWN-FINDING lines possible)
exit 1  >=1 violation not listed in known_findings.json; `VIOLATION property=<id> replay=<path>` per violation
exit 2  analysis broken (driver does not compile, anchor vanished, floor not reached, negative control proved)
"""
import sys, os, json, subprocess, time, argparse, fnmatch, re, concurrent.futures as cf

VERIF = os.path.dirname(os.path.abspath(__file__))
sys.path.insert(0, VERIF)
from engines import e1  # noqa
try:
    from engines import e2
except Exception:  # pragma: no cover
    e2 = None
try:
    from engines import e3
except Exception:  # pragma: no cover
    e3 = None
import registry

REPO = os.environ.get("VERIF_REPO", "/repo")


def load_json(p, default):
    try:
        return json.load(open(p))
    except FileNotFoundError:
        return default


# Rules that count template INSTANTIATIONS (resolved CFGs of the driver TUs): which instantiations exist depends on how the library
# spells its internal calls (isequal(a,b) vs isequal(b,a) instantiates a different specialisation), so a behaviour-preserving edit can
# merge or split a few of them. Their floor tolerates a quarter of the frozen count; a vanished anchor (zero or a handful) still fails.
INSTANTIATION_RULES = ("R-SIMDPAD", "R-EQSHAPE", "R-MAYBE", "R-DIV", "R-EVAL", "R-OWN", "R-SIMDRANGE", "R-SIMDID", "R-SIMDOP", "R-UFOP.guarded")

def _floor_min(rule, floor):
    if any(rule == r or rule.startswith(r + ".") for r in INSTANTIATION_RULES):
        return max(1, int(floor * 0.75))
    return floor


def known_match(kf, prop, engine, item):
    """item: dict with id/func/rule/construct...; a finding entry matches by property, engine and
    fnmatch on each key of entry['match'] against str(item[key])."""
    for f in kf.get("findings", []):
        if f["property"] != prop or f.get("engine", engine) != engine:
            continue
        ok = True
        for k, pat in f["match"].items():
            if not fnmatch.fnmatchcase(str(item.get(k, "")), pat):
                ok = False; break
        if ok:
            return f
    return None


def main():
    ap = argparse.ArgumentParser()
    ap.add_argument("prop")
    ap.add_argument("--tier", default=os.environ.get("VERIF_TIER", "quick"), choices=["quick", "thorough"])
    ap.add_argument("--freeze-floors", action="store_true", help="(maintenance) record instance counts of this run as floors")
    ap.add_argument("--replay", default=None, help="print a stored replay file and re-run its single component")
    ap.add_argument("--jobs", type=int, default=int(os.environ.get("VERIF_JOBS", "16")))
    args = ap.parse_args()
    prop = args.prop
    tier = args.tier
    seed = int(os.environ.get("VERIF_SEED", "0") or 0)
    t0 = time.time()
    # self-bootstrap: (re)build the extractor when it is missing or older than its source (setup.sh is idempotent, offline)
    nm = os.path.join(VERIF, "bin", "nmlint"); src = os.path.join(VERIF, "tools", "nmlint.cc")
    if not os.path.exists(nm) or os.path.getmtime(src) > os.path.getmtime(nm):
        r = subprocess.run(["bash", os.path.join(VERIF, "setup.sh")], capture_output=True, text=True)
        if r.returncode != 0:
            print("analysis broken: setup.sh failed: " + r.stderr[-800:]); sys.exit(2)
    if args.replay:
        r = json.load(open(args.replay))
        print(json.dumps(r, indent=1))
        return 0
    if prop not in registry.PROPS:
        print("unknown or unclaimed property", prop); return 2
    spec = registry.PROPS[prop]
    kf = load_json(os.path.join(VERIF, "known_findings.json"), {"findings": [], "fixed": []})
    floors = load_json(os.path.join(VERIF, "floors.json"), {})
    # runs against another tree (VERIF_REPO=<scratch>: self-tests, seeded changes) must not overwrite the evidence of /repo
    scratch_run = os.path.realpath(os.environ.get("VERIF_REPO", "/repo")) != "/repo"
    OUTROOT = os.path.join("/var/tmp", "verif_scratch_out") if scratch_run else VERIF
    os.makedirs(os.path.join(OUTROOT, "evidence"), exist_ok=True)
    rdir = os.path.join(OUTROOT, "replay", prop)
    os.makedirs(rdir, exist_ok=True)
    for f in os.listdir(rdir):
        os.unlink(os.path.join(rdir, f))

    broken = []      # analysis-broken reasons
    violations = []  # dicts
    known = []       # (finding, item)
    cov = dict(obligations=0, discharged=0, evaluations=0, distinct_nontrivial=0, samples=[],
               components=[], trusted_base=[], checker_cmd="")
    new_floors = {}
    new_keys = {}
    vanished = []
    okeys = load_json(os.path.join(VERIF, "obligation_keys.json"), {})

    # ---------------- E1 ----------------
    e1_components = [c for c in spec.get("e1", []) if tier == "thorough" or not c.get("thorough_only")]
    # maintenance only (benign_screen.py): driver TUs that provably do not include the edited file are not re-analysed
    _skip = set(x for x in os.environ.get("VERIF_SKIP_E1_TUS", "").split(",") if x)
    if _skip and scratch_run:
        e1_components = [c for c in e1_components if c["tu"] not in _skip]
    if e1_components:
        def run(c):
            return c, e1.analyse_tu(os.path.join(VERIF, "obligations", c["tu"]), tier, c.get("flags", []))
        with cf.ThreadPoolExecutor(max_workers=args.jobs) as ex:
            results = list(ex.map(run, e1_components))
        cmds = []
        for c, r in results:
            label = c["tu"] + ("[" + " ".join(c.get("flags", [])) + "]" if c.get("flags") else "")
            if r["error"]:
                broken.append("E1 %s: %s" % (label, r["error"])); continue
            cmds.append(r["cmd"])
            # an obligation id may name several properties ("C04.x|C02.y"): it counts for each of them under its own part
            # a component may be listed under a second property with `count_as="Cxx"`: the obligations it states for Cxx in SEVERAL container
            # kinds (each kind proved equal to the same oracle, hence the kinds agree with each other) then count for this property too
            alias = c.get("count_as")
            def mine_list(lst):
                out = []
                for e in lst:
                    for part in e["id"].split("|"):
                        if part.startswith(prop + "."):
                            e2 = dict(e); e2["id"] = part; e2["full_id"] = e["id"]; out.append(e2); break
                        if alias and part.startswith(alias + "."):
                            e2 = dict(e); e2["id"] = prop + ".kinds_agree_with_one_oracle." + part; e2["full_id"] = e["id"]; out.append(e2); break
                return out
            decl = mine_list(r["declared"])
            resid = mine_list(r["residual"])
            negd = mine_list(r["negctl_declared"])
            negr = mine_list(r["negctl_residual"])
            fkey = "E1|%s|%s|%s" % (label, prop, tier)
            decl_keys = sorted(set("%s %s %s" % (e["func"], e["id"], list(e["ints"])) for e in decl))
            n_distinct_decl = len(decl_keys)
            new_floors[fkey] = n_distinct_decl
            new_keys[fkey] = decl_keys
            floor = floors.get(fkey)
            if floor is None and not args.freeze_floors:
                broken.append("E1 %s: no floor recorded for %s/%s" % (label, prop, tier))
            elif floor is not None and n_distinct_decl < floor:
                frozen = set(okeys.get(fkey, []))
                gone = sorted(frozen - set(decl_keys))
                if frozen and gone and n_distinct_decl > 0:
                    # the TU still compiles and most obligation points are reachable, but some are now *proved unreachable*:
                    # the library has undefined behaviour (or a contradiction with the property's preconditions) on exactly those paths
                    for gk in gone[:40]:
                        gid = gk.split(" ")[-2] if False else re.search(r" (C\d\d\.[\w.|]+) \[", gk)
                        vanished.append(dict(engine="E1", rule="obligation point became unreachable in the optimised IR (undefined behaviour or contradiction on the path that leads to it)",
                                             id=(gid.group(1) if gid else gk), func=gk.split(" C")[0], ints="", tu=c["tu"], key=gk, reproduce=r["cmd"]))
                else:
                    broken.append("E1 %s: %d reachable distinct obligations < floor %d (obligation points vanished)" % (label, n_distinct_decl, floor))
            if negd and len(negr) < len(set((e['func'], e['id'], tuple(e['ints'])) for e in negd)):
                broken.append("E1 %s: a negative control was discharged (prover vacuous: UB or contradictory ASSUME on the path)" % label)
            if any(e["id"] == "?" for e in r["residual"]) :
                broken.append("E1 %s: residual call with unresolvable id" % label)
            rk = set()
            n_known = 0
            grouped = {}
            for e in resid:
                key = (e["func"], e["id"], tuple(e["ints"]))
                if key in rk:
                    continue
                rk.add(key)
                item = dict(e); item["tu"] = c["tu"]
                f = known_match(kf, prop, "E1", item)
                if f:
                    known.append((f, item)); n_known += 1
                else:
                    # one violation per obligation id and TU; every instance (kind, rank, axis) is listed in the replay file
                    g = grouped.get(e["id"])
                    if g is None:
                        item.update(engine="E1", rule="obligation not discharged by any sound pipeline",
                                    pipelines=r["pipelines_used"], reproduce=r["cmd"],
                                    flags=c.get("flags", []), instances=[])
                        grouped[e["id"]] = item
                        violations.append(item)
                        g = item
                    g["instances"].append(dict(func=e["func"], ints=e["ints"], driver_loc=e.get("driver_loc")))
            # refuted in declare mode (condition folded to false) but not residual -> inconsistent
            dk = {}
            for e in decl:
                dk.setdefault((e["func"], e["id"], tuple(e["ints"])), 0)
                dk[(e["func"], e["id"], tuple(e["ints"]))] += 1
            n_decl = len(dk)
            n_res = len(rk)
            cov["obligations"] += n_decl - n_known
            cov["discharged"] += n_decl - n_res
            cov["components"].append(dict(engine="E1", tu=label, reachable_obligation_points=len(decl),
                                          distinct_obligations=n_decl, residual=n_res, known_findings=n_known,
                                          folded_true_in_declare_mode=sum(1 for e in decl if e["cond"] == 1),
                                          negative_controls=len(negd), negative_controls_surviving=len(negr),
                                          pipelines=r["pipelines_used"], wall_s=r["wall_s"]))
            for e in decl[:3] + decl[len(decl)//2:len(decl)//2+2]:
                if len(cov["samples"]) < 40:
                    cov["samples"].append("E1 %s :: %s%s in %s" % (c["tu"], e["id"], [x for x in e["ints"] if x != -1], e["func"]))
        cov["checker_cmd"] = cmds[0] if cmds else ""
        cov["trusted_base"] += ["clang/LLVM 14.0.6 mid-end (every -O2/-O3 pass is a refinement)",
                                "libstdc++ 12 headers", "driver TUs under /verif/obligations state the clause correctly",
                                "defined behaviour of nmtools on the ASSUMEd inputs (negative controls + reachable-point floors guard against vacuous discharge)"]

    # ---------------- E2 ----------------
    if spec.get("e2") and e2 is not None:
        r2 = e2.run(prop, tier, spec["e2"], jobs=args.jobs)
        for b in r2["broken"]:
            broken.append("E2 " + b)
        for rule, n in r2["instances"].items():
            fkey = "E2|%s|%s|%s" % (rule, prop, tier)
            new_floors[fkey] = n
            floor = floors.get(fkey)
            if floor is None and not args.freeze_floors:
                broken.append("E2 rule %s: no floor recorded for %s/%s" % (rule, prop, tier))
            elif floor is not None and n < _floor_min(rule, floor):
                broken.append("E2 rule %s: %d instances < floor %d (anchor vanished?)" % (rule, n, floor))
        for item in r2["findings"]:
            f = known_match(kf, prop, "E2", item)
            if f:
                known.append((f, item))
            else:
                item["engine"] = "E2"
                violations.append(item)
        cov["evaluations"] += r2["evaluations"]
        cov["distinct_nontrivial"] += r2["distinct_nontrivial"]
        cov["samples"] += r2["samples"][:30]
        cov["components"] += r2["components"]
        cov["trusted_base"] += ["clang 14 front end (AST, overload resolution, CFG builder)", "rule tables under /verif/tools (ufunc_table.json, roles.json, alias tables)"]
        if not cov["checker_cmd"]:
            cov["checker_cmd"] = r2.get("cmd", "")

    # ---------------- E3 ----------------
    if spec.get("e3") and e3 is not None:
        r3 = e3.run(prop, tier, spec["e3"])
        for b in r3["broken"]:
            broken.append("E3 " + b)
        fkey = "E3|%s|%s" % (prop, tier)
        new_floors[fkey] = r3["witnesses"]
        floor = floors.get(fkey)
        if floor is None and not args.freeze_floors:
            broken.append("E3: no floor recorded for %s/%s" % (prop, tier))
        elif floor is not None and r3["witnesses"] < floor:
            broken.append("E3: %d witnesses < floor %d" % (r3["witnesses"], floor))
        for item in r3["findings"]:
            f = known_match(kf, prop, "E3", item)
            if f:
                known.append((f, item))
            else:
                item["engine"] = "E3"
                violations.append(item)
        cov["evaluations"] += r3["witnesses"]
        cov["distinct_nontrivial"] += r3["witnesses"]
        cov["samples"] += r3["samples"][:10]
        cov["components"] += r3["components"]
        cov["trusted_base"] += ["clang 14 front end as type checker (-fsyntax-only)"]
        if not cov["checker_cmd"]:
            cov["checker_cmd"] = r3.get("cmd", "")

    # vanished obligation points are violations unless a known finding names them
    grouped_v = {}
    for v in vanished:
        f = known_match(kf, prop, "E1", v)
        if f:
            known.append((f, v)); continue
        g = grouped_v.get(v["id"])
        if g is None:
            v["instances"] = []; grouped_v[v["id"]] = v; violations.append(v); g = v
        g["instances"].append(v["key"])
    if args.freeze_floors:
        # atomic replacement: other check processes may be reading these files
        def _dump(obj, path, **kw):
            tmp = path + ".tmp%d" % os.getpid()
            with open(tmp, "w") as fh:
                json.dump(obj, fh, **kw)
            os.replace(tmp, path)
        # re-read just before writing: another freeze (other property / tier) may have finished since this run started
        okeys = load_json(os.path.join(VERIF, "obligation_keys.json"), {})
        okeys.update(new_keys)
        _dump(okeys, os.path.join(VERIF, "obligation_keys.json"), indent=0, sort_keys=True)
        floors = load_json(os.path.join(VERIF, "floors.json"), {})
        floors.update(new_floors)
        _dump(floors, os.path.join(VERIF, "floors.json"), indent=1, sort_keys=True)
        print("floors frozen:", json.dumps(new_floors))

    # ---------------- report ----------------
    seen_kf = set()
    for f, item in known:
        k = json.dumps(f["match"], sort_keys=True)
        if k in seen_kf:
            continue
        seen_kf.add(k)
        print("KNOWN-FINDING: property=%s %s" % (prop, f["what"]))
    vio_lines = []
    for i, v in enumerate(violations):
        p = os.path.join(rdir, "v%03d.json" % i)
        v["property"] = prop
        v["replay_hint"] = "python3 /verif/check.py %s --tier %s   (re-analyses /repo; this file names the construct)" % (prop, tier)
        json.dump(v, open(p, "w"), indent=1)
        vio_lines.append("VIOLATION property=%s replay=%s" % (prop, p))
    level = spec.get("level", "other")
    wall = round(time.time() - t0, 2)
    n_inst = cov["evaluations"] + cov["obligations"]
    coverage = dict(cov)
    coverage["evaluations"] = max(cov["evaluations"] + cov["obligations"], 1)
    coverage["distinct_nontrivial"] = cov["distinct_nontrivial"] + cov["discharged"]
    coverage["rule"] = spec.get("rule", "")
    coverage["explanation"] = spec.get("explanation", "")
    coverage["known_findings"] = [f["what"] for f, _ in known]
    coverage["not_decided"] = spec.get("not_decided", "")
    coverage["analysis_broken"] = broken
    coverage["trusted_base"] = sorted(set(cov["trusted_base"]))
    if not coverage["samples"]:
        coverage["samples"] = ["(none)"]
    ev = dict(property_id=prop, tier=tier, seed=seed, level=level, coverage=coverage,
              assumptions=spec.get("assumptions", []) + ["static analysis only: no nmtools code is executed; /repo working tree at run time is the input"],
              wall_s=wall, violations=len(violations))
    json.dump(ev, open(os.path.join(OUTROOT, "evidence", prop + ".json"), "w"), indent=1)

    print("%s tier=%s: obligations=%d discharged=%d rule-instances=%d known=%d violations=%d broken=%d wall=%.1fs" % (
        prop, tier, cov["obligations"], cov["discharged"], cov["evaluations"], len(known), len(violations), len(broken), wall))
    if broken:
        for b in broken:
            print("ANALYSIS-BROKEN property=%s %s" % (prop, b.replace("\n", " | ")[:1500]))
    for v, l in zip(violations, vio_lines):
        print("  -> %s %s %s  [%s]" % (v.get("rule", ""), v.get("id", v.get("construct", "")), v.get("ints", ""), v.get("func", v.get("function", ""))))
        for lp in v.get("library_path", [])[:8]:
            print("       path: " + lp)
        print(l)
    if violations:
        return 1
    if broken:
        return 2
    return 0


if __name__ == "__main__":
    try:
        rc = main()
    except SystemExit:
        raise
    except Exception as ex:  # an engine crash is "analysis broken", never a verdict
        import traceback
        traceback.print_exc()
        print("ANALYSIS-BROKEN engine crashed: %r" % (ex,))
        rc = 2
    sys.exit(rc)
