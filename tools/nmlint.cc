// nmlint: fact extractor for engine E2 (DESIGN.md §2).
//
// Parses ONE translation unit with the given compiler flags (the real clang front end: resolved
// names, overloads, template instantiations) and prints one JSON object per function body that
// matches the filters.  Every function is summarised as a list of *facts* in a canonical expression
// language (casts/parentheses/temporaries removed, parameters `$name`, locals `%name`):
//   returns, local initialisers, calls, dereferences, integer divisions, assignments, loops
// and, with --cfg, every fact carries its *guards*: the branch conditions (with polarity) of the
// dominating blocks through whose single edge the fact's block is reached (clang::CFG +
// dominator tree; `&&`, `||`, `?:`, `if`, loop conditions, early returns all become guards).
// The rules themselves live in /verif/engines/e2.py; this tool has no knowledge of nmtools' rules.
//
// usage: nmlint [--inst] [--cfg] [--file-substr S]... [--name-prefix P]... file.cpp -- <clang flags>
#include "clang/AST/ASTConsumer.h"
#include "clang/AST/ASTContext.h"
#include "clang/AST/RecursiveASTVisitor.h"
#include "clang/AST/ExprCXX.h"
#include "clang/AST/StmtCXX.h"
#include "clang/AST/ParentMapContext.h"
#include "clang/Analysis/CFG.h"
#include "clang/Analysis/Analyses/Dominators.h"
#include "clang/Analysis/AnalysisDeclContext.h"
#include "clang/Frontend/CompilerInstance.h"
#include "clang/Frontend/FrontendAction.h"
#include "clang/Tooling/Tooling.h"
#include "llvm/Support/raw_ostream.h"
#include "llvm/Support/MemoryBuffer.h"
#include <map>
#include <set>
#include <string>
#include <vector>
#include <sstream>

using namespace clang;

static std::vector<std::string> gFileSubstr, gNamePrefix;
static bool gInst = false, gCfg = false;

static std::string jesc(const std::string& s) {
  std::string o;
  for (unsigned char c : s) {
    switch (c) {
      case '"': o += "\\\""; break;
      case '\\': o += "\\\\"; break;
      case '\n': o += "\\n"; break;
      case '\t': o += "\\t"; break;
      case '\r': break;
      default: if (c < 0x20) { char b[8]; snprintf(b, 8, "\\u%04x", c); o += b; } else o += (char)c;
    }
  }
  return o;
}

struct Canon {
  ASTContext& C; PrintingPolicy PP;
  const FunctionDecl* F;
  Canon(ASTContext& c, const FunctionDecl* f) : C(c), PP(c.getLangOpts()), F(f) {
    PP.SuppressTagKeyword = true; PP.Bool = true; PP.SuppressUnwrittenScope = false; PP.AnonymousTagLocations = false;
  }
  std::string ty(QualType T) { return T.getAsString(PP); }
  // type of a dereferenced expression: looked through local aliases (using return_t = maybe<...>) when it is not dependent
  std::string tyc(QualType T) { if (!T.isNull() && !T->isDependentType()) T = T.getCanonicalType(); return T.getAsString(PP); }
  std::string nns(const NestedNameSpecifier* Q) {
    if (!Q) return "";
    std::string s; llvm::raw_string_ostream os(s); Q->print(os, PP); return os.str();
  }
  std::string declName(const NamedDecl* D) {
    if (!D) return "?";
    if (isa<ParmVarDecl>(D)) return "$" + D->getNameAsString();
    if (auto* V = dyn_cast<VarDecl>(D)) {
      if (V->isLocalVarDecl() || V->isLocalVarDeclOrParm()) return "%" + D->getNameAsString();
      return D->getQualifiedNameAsString();
    }
    if (isa<BindingDecl>(D)) return "%" + D->getNameAsString();
    if (isa<NonTypeTemplateParmDecl>(D) || isa<TemplateTypeParmDecl>(D)) return D->getNameAsString();
    return D->getQualifiedNameAsString();
  }
  std::string args(llvm::ArrayRef<const Expr*> A) {
    std::string s;
    for (size_t i = 0; i < A.size(); i++) { if (i) s += ","; s += ex(A[i]); }
    return s;
  }
  template <class It> std::string argsIt(It b, It e) { std::string s; bool f = true; for (; b != e; ++b) { if (isa<CXXDefaultArgExpr>(*b)) continue; if (!f) s += ","; f = false; s += ex(*b); } return s; }
  std::string ex(const Stmt* S) {
    if (!S) return "<null>";
    if (auto* E = dyn_cast<Expr>(S)) return exE(E);
    return std::string("<") + S->getStmtClassName() + ">";
  }
  std::string exE(const Expr* E) {
    if (!E) return "<null>";
    if (auto* X = dyn_cast<ParenExpr>(E)) return exE(X->getSubExpr());
    if (auto* X = dyn_cast<ImplicitCastExpr>(E)) return exE(X->getSubExpr());
    if (auto* X = dyn_cast<ExprWithCleanups>(E)) return exE(X->getSubExpr());
    if (auto* X = dyn_cast<MaterializeTemporaryExpr>(E)) return exE(X->getSubExpr());
    if (auto* X = dyn_cast<CXXBindTemporaryExpr>(E)) return exE(X->getSubExpr());
    if (auto* X = dyn_cast<ConstantExpr>(E)) return exE(X->getSubExpr());
    if (auto* X = dyn_cast<SubstNonTypeTemplateParmExpr>(E)) return exE(X->getReplacement());
    if (auto* X = dyn_cast<ExplicitCastExpr>(E)) {
      QualType T = X->getTypeAsWritten();
      const Expr* sub = X->getSubExpr()->IgnoreParenImpCasts();
      if (T->isBooleanType()) return "bool(" + exE(sub) + ")";                    // truth conversion changes the value: kept
      if (isa<CXXFunctionalCastExpr>(X) && (isa<InitListExpr>(sub) || T->isRecordType() || (T->isDependentType() && !T->isTemplateTypeParmType()))) {
        std::string in = exE(sub);                                                // T{...} / T(...) construction of an object: the type is the point
        if (isa<InitListExpr>(sub)) return ty(T) + in;
        if (auto* CE = dyn_cast<CXXConstructExpr>(sub)) return ty(T) + "{" + argsIt(CE->arg_begin(), CE->arg_end()) + "}";
        return ty(T) + "{" + in + "}";
      }
      return exE(X->getSubExpr());   // static_cast<num>(x) / (T)x: result-type adjustment, ignored by the rules
    }
    if (auto* X = dyn_cast<CXXDefaultArgExpr>(E)) return "<default>";
    if (auto* X = dyn_cast<CXXDefaultInitExpr>(E)) return "<default>";
    if (auto* X = dyn_cast<DeclRefExpr>(E)) {
      std::string n = declName(X->getDecl());
      if (X->hasExplicitTemplateArgs() && isa<VarDecl>(X->getDecl())) {   // variable templates: to_value_v<T>, len_v<T>, ...
        n += "<"; bool f = true;
        for (auto& TA : X->template_arguments()) { if (!f) n += ","; f = false; std::string t; llvm::raw_string_ostream os(t); TA.getArgument().print(PP, os, true); n += os.str(); }
        n += ">";
      }
      return n;
    }
    if (auto* X = dyn_cast<DependentScopeDeclRefExpr>(E)) return nns(X->getQualifier()) + X->getDeclName().getAsString();
    if (auto* X = dyn_cast<UnresolvedLookupExpr>(E)) {
      std::string n = nns(X->getQualifier()) + X->getName().getAsString();
      if (X->hasExplicitTemplateArgs()) {
        bool isVarTemplate = false;
        for (auto* D : X->decls()) if (isa<VarTemplateDecl>(D->getUnderlyingDecl())) isVarTemplate = true;
        if (isVarTemplate) { n += "<"; bool f = true; for (auto& TA : X->template_arguments()) { if (!f) n += ","; f = false; std::string t; llvm::raw_string_ostream os(t); TA.getArgument().print(PP, os, true); n += os.str(); } n += ">"; }
      }
      return n;
    }
    if (auto* X = dyn_cast<CXXThisExpr>(E)) return "this";
    if (auto* X = dyn_cast<MemberExpr>(E)) {
      std::string b = X->isImplicitAccess() ? "this" : exE(X->getBase());
      return b + "." + X->getMemberDecl()->getNameAsString();
    }
    if (auto* X = dyn_cast<CXXDependentScopeMemberExpr>(E)) {
      std::string b = X->isImplicitAccess() ? "this" : exE(X->getBase());
      return b + "." + X->getMember().getAsString();
    }
    if (auto* X = dyn_cast<UnresolvedMemberExpr>(E)) {
      std::string b = X->isImplicitAccess() ? "this" : exE(X->getBase());
      return b + "." + X->getMemberName().getAsString();
    }
    if (auto* X = dyn_cast<IntegerLiteral>(E)) { llvm::SmallString<32> s; X->getValue().toString(s, 10, false); return std::string(s.str()); }
    if (auto* X = dyn_cast<FloatingLiteral>(E)) { llvm::SmallString<32> s; X->getValue().toString(s); return std::string(s.str()); }
    if (auto* X = dyn_cast<CXXBoolLiteralExpr>(E)) return X->getValue() ? "true" : "false";
    if (isa<CXXNullPtrLiteralExpr>(E) || isa<GNUNullExpr>(E)) return "nullptr";
    if (auto* X = dyn_cast<StringLiteral>(E)) return "\"str\"";
    if (auto* X = dyn_cast<CharacterLiteral>(E)) return std::to_string(X->getValue());
    if (auto* X = dyn_cast<UnaryOperator>(E)) {
      std::string op = UnaryOperator::getOpcodeStr(X->getOpcode()).str();
      if (X->isPostfix()) return "(" + exE(X->getSubExpr()) + " post" + op + ")";
      return "(" + op + " " + exE(X->getSubExpr()) + ")";
    }
    if (auto* X = dyn_cast<BinaryOperator>(E)) return "(" + exE(X->getLHS()) + " " + X->getOpcodeStr().str() + " " + exE(X->getRHS()) + ")";
    if (auto* X = dyn_cast<CXXRewrittenBinaryOperator>(E)) return exE(X->getSemanticForm());
    if (auto* X = dyn_cast<ConditionalOperator>(E)) return "(" + exE(X->getCond()) + " ? " + exE(X->getTrueExpr()) + " : " + exE(X->getFalseExpr()) + ")";
    if (auto* X = dyn_cast<ArraySubscriptExpr>(E)) return exE(X->getBase()) + "[" + exE(X->getIdx()) + "]";
    if (auto* X = dyn_cast<CXXOperatorCallExpr>(E)) {
      auto op = X->getOperator();
      unsigned n = X->getNumArgs();
      if (op == OO_Call) { std::string s = exE(X->getArg(0)) + "("; for (unsigned i = 1; i < n; i++) { if (isa<CXXDefaultArgExpr>(X->getArg(i))) continue; if (i > 1) s += ","; s += exE(X->getArg(i)); } return s + ")"; }
      if (op == OO_Subscript && n == 2) return exE(X->getArg(0)) + "[" + exE(X->getArg(1)) + "]";
      if (op == OO_Arrow && n == 1) return "(-> " + exE(X->getArg(0)) + ")";
      std::string sp = getOperatorSpelling(op);
      if (n == 1) return "(" + sp + " " + exE(X->getArg(0)) + ")";
      if (n == 2) return "(" + exE(X->getArg(0)) + " " + sp + " " + exE(X->getArg(1)) + ")";
    }
    if (auto* X = dyn_cast<CXXMemberCallExpr>(E)) {
      if (auto* CD = dyn_cast_or_null<CXXConversionDecl>(X->getMethodDecl())) return exE(X->getImplicitObjectArgument());   // operator bool() etc.
      return exE(X->getCallee()) + "(" + argsIt(X->arg_begin(), X->arg_end()) + ")";
    }
    if (auto* X = dyn_cast<CallExpr>(E)) {
      std::string cal;
      const Expr* ce = X->getCallee()->IgnoreParenImpCasts();
      if (auto* FD = X->getDirectCallee()) {
        if (isa<CXXMethodDecl>(FD) && !cast<CXXMethodDecl>(FD)->isStatic()) cal = exE(ce);
        else cal = FD->getQualifiedNameAsString();
      } else cal = exE(ce);
      // explicit template arguments are part of the callee identity for a few rules (get_if<T>, at<I>)
      if (auto* UL = dyn_cast<UnresolvedLookupExpr>(ce)) { if (UL->hasExplicitTemplateArgs()) { cal += "<"; bool f = true; for (auto& TA : UL->template_arguments()) { if (!f) cal += ","; f = false; std::string s; llvm::raw_string_ostream os(s); TA.getArgument().print(PP, os, true); cal += os.str(); } cal += ">"; } }
      else if (auto* DR = dyn_cast<DeclRefExpr>(ce)) { if (DR->hasExplicitTemplateArgs()) { cal += "<"; bool f = true; for (auto& TA : DR->template_arguments()) { if (!f) cal += ","; f = false; std::string s; llvm::raw_string_ostream os(s); TA.getArgument().print(PP, os, true); cal += os.str(); } cal += ">"; } }
      return cal + "(" + argsIt(X->arg_begin(), X->arg_end()) + ")";
    }
    if (auto* X = dyn_cast<CXXConstructExpr>(E)) {
      unsigned n = 0; const Expr* only = nullptr;
      for (auto* a : X->arguments()) if (!isa<CXXDefaultArgExpr>(a)) { n++; only = a; }
      if (n == 1 && X->getConstructor() && X->getConstructor()->isCopyOrMoveConstructor()) return exE(only);
      if (n == 1 && !isa<CXXTemporaryObjectExpr>(X)) return ty(X->getType().getUnqualifiedType().getNonReferenceType()) + "{" + exE(only) + "}";
      return ty(X->getType().getUnqualifiedType()) + "{" + argsIt(X->arg_begin(), X->arg_end()) + "}";
    }
    if (auto* X = dyn_cast<CXXUnresolvedConstructExpr>(E)) return ty(X->getTypeAsWritten()) + "{" + argsIt(X->arg_begin(), X->arg_end()) + "}";
    if (auto* X = dyn_cast<InitListExpr>(E)) { std::string s = "{"; for (unsigned i = 0; i < X->getNumInits(); i++) { if (i) s += ","; s += exE(X->getInit(i)); } return s + "}"; }
    if (auto* X = dyn_cast<ParenListExpr>(E)) { std::string s = "("; for (unsigned i = 0; i < X->getNumExprs(); i++) { if (i) s += ","; s += exE(X->getExpr(i)); } return s + ")"; }
    if (auto* X = dyn_cast<CXXScalarValueInitExpr>(E)) return ty(X->getType()) + "{}";
    if (auto* X = dyn_cast<LambdaExpr>(E)) return "lambda@" + std::to_string(C.getSourceManager().getSpellingLineNumber(X->getBeginLoc()));
    if (auto* X = dyn_cast<PackExpansionExpr>(E)) return exE(X->getPattern()) + "...";
    if (auto* X = dyn_cast<SizeOfPackExpr>(E)) return "sizeof...(" + X->getPack()->getNameAsString() + ")";
    if (auto* X = dyn_cast<CXXFoldExpr>(E)) return "(fold " + std::string(BinaryOperator::getOpcodeStr(X->getOperator())) + " " + (X->getLHS() ? exE(X->getLHS()) : "") + "|" + (X->getRHS() ? exE(X->getRHS()) : "") + ")";
    if (auto* X = dyn_cast<UnaryExprOrTypeTraitExpr>(E)) return X->isArgumentType() ? "sizeof(" + ty(X->getArgumentType()) + ")" : "sizeof(" + exE(X->getArgumentExpr()) + ")";
    if (auto* X = dyn_cast<CXXNewExpr>(E)) { std::string s = "new"; if (X->getNumPlacementArgs()) s += "(" + exE(X->getPlacementArg(0)) + ")"; s += " " + ty(X->getAllocatedType()); if (X->getInitializer()) s += " " + exE(X->getInitializer()); return s; }
    if (auto* X = dyn_cast<CXXDeleteExpr>(E)) return "delete " + exE(X->getArgument());
    if (auto* X = dyn_cast<OpaqueValueExpr>(E)) return X->getSourceExpr() ? exE(X->getSourceExpr()) : "<opaque>";
    if (auto* X = dyn_cast<BinaryConditionalOperator>(E)) return "(" + exE(X->getCommon()) + " ?: " + exE(X->getFalseExpr()) + ")";
    if (auto* X = dyn_cast<CXXPseudoDestructorExpr>(E)) return exE(X->getBase()) + ".~()";
    if (auto* X = dyn_cast<TypeTraitExpr>(E)) return "<typetrait>";
    if (auto* X = dyn_cast<CXXNoexceptExpr>(E)) return "<noexcept>";
    return std::string("<") + E->getStmtClassName() + ">";
  }
};

struct Fact { std::string kind; std::string a, b, c; const Stmt* S; };

// what a loop body calls and which variables it reads (canonical names), for rules about a body as a whole ("the loop that calls the
// helper also tests the flag"); lambdas inside the body are not entered
class BodyCollector : public RecursiveASTVisitor<BodyCollector> {
public:
  Canon& K; std::set<std::string> calls, refs;
  BodyCollector(Canon& k) : K(k) {}
  bool TraverseLambdaExpr(LambdaExpr*) { return true; }
  bool VisitCallExpr(CallExpr* E) { std::string full = K.ex(E); calls.insert(full.substr(0, full.find('('))); return true; }
  bool VisitDeclRefExpr(DeclRefExpr* D) { refs.insert(K.ex(D)); return true; }
};
static std::string joinSet(const std::set<std::string>& s) { std::string o; for (auto& x : s) { if (!o.empty()) o += ";"; o += x; } return o; }

class FnVisitor : public RecursiveASTVisitor<FnVisitor> {
public:
  ASTContext& C; Canon& K; std::vector<Fact>& facts; const FunctionDecl* F;
  FnVisitor(ASTContext& c, Canon& k, std::vector<Fact>& f, const FunctionDecl* fn) : C(c), K(k), facts(f), F(fn) {}
  bool shouldVisitTemplateInstantiations() const { return false; }
  bool TraverseLambdaExpr(LambdaExpr* L) { return true; }   // lambdas are separate functions
  // unevaluated operands are not executed: decltype(*m), sizeof, noexcept
  bool TraverseDecltypeTypeLoc(DecltypeTypeLoc) { return true; }
  bool TraverseUnaryExprOrTypeTraitExpr(UnaryExprOrTypeTraitExpr*) { return true; }
  bool TraverseCXXNoexceptExpr(CXXNoexceptExpr*) { return true; }
  bool TraverseDecl(Decl* D) { if (D && (isa<CXXRecordDecl>(D) || isa<FunctionDecl>(D)) && D != F) return true; return RecursiveASTVisitor::TraverseDecl(D); }
  bool VisitReturnStmt(ReturnStmt* R) { facts.push_back({"return", R->getRetValue() ? K.ex(R->getRetValue()) : "", "", "", R}); return true; }
  bool VisitVarDecl(VarDecl* V) {
    if (isa<ParmVarDecl>(V)) return true;
    std::string init = V->getInit() ? K.ex(V->getInit()) : "";
    facts.push_back({"local", V->getNameAsString(), init, K.ty(V->getType()), nullptr});
    return true;
  }
  bool VisitTypedefNameDecl(TypedefNameDecl* A) { facts.push_back({"alias", A->getNameAsString(), K.ty(A->getUnderlyingType()), "", nullptr}); return true; }
  bool VisitDeclStmt(DeclStmt* DS) {
    for (auto* D : DS->decls()) if (auto* V = dyn_cast<VarDecl>(D)) facts.push_back({"localstmt", V->getNameAsString(), V->getInit() ? K.ex(V->getInit()) : "", K.ty(V->getType()), DS});
    return true;
  }
  bool VisitCallExpr(CallExpr* E) {
    if (auto* OC = dyn_cast<CXXOperatorCallExpr>(E)) {
      auto op = OC->getOperator();
      if (op == OO_Star && OC->getNumArgs() == 1) facts.push_back({"deref", K.ex(OC->getArg(0)), "*", K.tyc(OC->getArg(0)->getType().getUnqualifiedType().getNonReferenceType()), E});
      else if (op == OO_Arrow) facts.push_back({"deref", K.ex(OC->getArg(0)), "->", K.tyc(OC->getArg(0)->getType().getUnqualifiedType().getNonReferenceType()), E});
      else if ((op == OO_Slash || op == OO_Percent || op == OO_SlashEqual || op == OO_PercentEqual) && OC->getNumArgs() == 2)
        facts.push_back({"div", getOperatorSpelling(op), K.ex(OC->getArg(0)), K.ex(OC->getArg(1)), E});
      else if (op == OO_Equal && OC->getNumArgs() == 2) facts.push_back({"assign", K.ex(OC->getArg(0)), K.ex(OC->getArg(1)), "=", E});
    }
    if (auto* FD = E->getDirectCallee()) {
      if (FD->getDeclName().isIdentifier() && FD->getName() == "unwrap" && E->getNumArgs() == 1)
        facts.push_back({"deref", K.ex(E->getArg(0)), "unwrap", K.tyc(E->getArg(0)->getType().getUnqualifiedType().getNonReferenceType()), E});
    }
    std::string full = K.ex(E);
    std::string cal = full.substr(0, full.find('('));
    facts.push_back({"call", cal, full, "", E});
    return true;
  }
  bool VisitCXXMemberCallExpr(CXXMemberCallExpr* E) {
    if (auto* MD = E->getMethodDecl()) {
      std::string n = MD->getNameAsString();
      if (n == "value") facts.push_back({"deref", K.ex(E->getImplicitObjectArgument()), ".value()", K.tyc(E->getImplicitObjectArgument()->getType().getUnqualifiedType().getNonReferenceType()), E});
    }
    return true;
  }
  bool VisitUnaryOperator(UnaryOperator* U) {
    if (U->getOpcode() == UO_Deref) facts.push_back({"deref", K.ex(U->getSubExpr()), "*", K.tyc(U->getSubExpr()->getType().getUnqualifiedType().getNonReferenceType()), U});
    if (U->isIncrementDecrementOp()) facts.push_back({"assign", K.ex(U->getSubExpr()), K.ex(U), "++", U});
    return true;
  }
  bool VisitMemberExpr(MemberExpr* M) { if (M->isArrow() && !M->isImplicitAccess()) facts.push_back({"deref", K.ex(M->getBase()), "->", K.tyc(M->getBase()->getType().getUnqualifiedType()), M}); return true; }
  bool VisitBinaryOperator(BinaryOperator* B) {
    auto op = B->getOpcode();
    if (op == BO_Div || op == BO_Rem || op == BO_DivAssign || op == BO_RemAssign) {
      bool isInt = B->getRHS()->getType()->isIntegerType() || B->getRHS()->getType()->isDependentType();
      facts.push_back({"div", B->getOpcodeStr().str(), K.ex(B->getLHS()), K.ex(B->getRHS()), B});
      (void)isInt;
      facts.back().kind = (B->getRHS()->getType()->isFloatingType() || B->getLHS()->getType()->isFloatingType()) ? "fdiv" : "div";
    }
    if (B->isAssignmentOp()) facts.push_back({"assign", K.ex(B->getLHS()), K.ex(B->getRHS()), B->getOpcodeStr().str(), B});
    return true;
  }
  bool VisitCXXNewExpr(CXXNewExpr* N) { facts.push_back({"new", K.ex(N), "", "", N}); return true; }
  void loopBody(const char* kind, Stmt* body, Stmt* S, Stmt* cond = nullptr) {
    if (!body) return;
    BodyCollector BC(K); BC.TraverseStmt(body);
    if (cond) { BodyCollector CC(K); CC.TraverseStmt(cond); for (auto& r : CC.refs) BC.refs.insert(r); }   // a flag tested in the loop condition counts
    facts.push_back({"loopbody", kind, joinSet(BC.calls), joinSet(BC.refs), S});
  }
  bool VisitForStmt(ForStmt* S) { facts.push_back({"loop", "for", S->getCond() ? K.ex(S->getCond()) : "", S->getInc() ? K.ex(S->getInc()) : "", S}); loopBody("for", S->getBody(), S, S->getCond()); return true; }
  bool VisitWhileStmt(WhileStmt* S) { facts.push_back({"loop", "while", S->getCond() ? K.ex(S->getCond()) : "", "", S}); loopBody("while", S->getBody(), S, S->getCond()); return true; }
  bool VisitIfStmt(IfStmt* S) { facts.push_back({S->isConstexpr() ? "ifconstexpr" : "if", S->getCond() ? K.ex(S->getCond()) : "", "", "", S}); return true; }
};

class TopVisitor : public RecursiveASTVisitor<TopVisitor> {
public:
  ASTContext& C; SourceManager& SM; unsigned nFunctions = 0;
  TopVisitor(ASTContext& c) : C(c), SM(c.getSourceManager()) {}
  bool shouldVisitTemplateInstantiations() const { return gInst; }
  bool shouldVisitImplicitCode() const { return false; }

  std::string fileOf(SourceLocation L) { L = SM.getExpansionLoc(L); auto PL = SM.getPresumedLoc(L); return PL.isValid() ? PL.getFilename() : ""; }
  unsigned lineOf(SourceLocation L) { L = SM.getExpansionLoc(L); return SM.getSpellingLineNumber(L); }
  unsigned colOf(SourceLocation L) { L = SM.getExpansionLoc(L); return SM.getSpellingColumnNumber(L); }

  bool wanted(const FunctionDecl* FD, const std::string& qn, const std::string& file) {
    bool okf = gFileSubstr.empty(), okn = gNamePrefix.empty();
    for (auto& s : gFileSubstr) if (file.find(s) != std::string::npos) okf = true;
    for (auto& p : gNamePrefix) if (qn.compare(0, p.size(), p) == 0) okn = true;
    return okf && okn;
  }

  void guardsOf(const Stmt* S, CFG* cfg, CFGDomTree& DT, std::map<const Stmt*, const CFGBlock*>& where, Canon& K, std::string& out) {
    out = "[";
    auto it = where.find(S);
    if (it == where.end()) {
      // fall back to the nearest child that is a CFG element
      for (const Stmt* ch : S->children()) if (ch) { auto j = where.find(ch); if (j != where.end()) { it = j; break; } }
    }
    if (it == where.end()) { out += "{\"unknown\":true}]"; return; }
    const CFGBlock* B = it->second;
    bool first = true;
    // walk every block that dominates B
    for (const CFGBlock* D : *cfg) {
      if (!D || D == B) continue;
      if (!DT.dominates(D, B)) continue;
      if (D->succ_size() != 2) continue;
      const Stmt* cond = D->getTerminatorCondition();
      if (!cond) continue;
      const CFGBlock* S0 = *D->succ_begin();
      const CFGBlock* S1 = *(D->succ_begin() + 1);
      int pol = -1;
      if (S0 && S0 != S1 && (S0 == B || DT.dominates(S0, B)) && S0->pred_size() == 1) pol = 1;
      else if (S1 && S0 != S1 && (S1 == B || DT.dominates(S1, B)) && S1->pred_size() == 1) pol = 0;
      if (pol < 0) continue;
      if (!first) out += ","; first = false;
      std::string tk = D->getTerminatorStmt() ? D->getTerminatorStmt()->getStmtClassName() : "";
      out += "{\"cond\":\"" + jesc(K.ex(cond)) + "\",\"pol\":" + std::to_string(pol) + ",\"line\":" + std::to_string(lineOf(cond->getBeginLoc())) + ",\"term\":\"" + tk + "\"}";
    }
    astGuards(S, K, out, first);
    out += "]";
  }

  // syntactic guards: enclosing if/else arms, ?: arms and loop bodies (covers `a || b` conditions, whose then-block
  // has two CFG predecessors and is therefore invisible to the single-edge dominance test above)
  void astGuards(const Stmt* S, Canon& K, std::string& out, bool& first) {
    const Stmt* child = S;
    DynTypedNode cur = DynTypedNode::create(*S);
    for (int depth = 0; depth < 64; depth++) {
      auto ps = C.getParents(cur);
      if (ps.empty()) break;
      const DynTypedNode& P = ps[0];
      if (P.get<FunctionDecl>() || P.get<LambdaExpr>()) break;
      const Stmt* PS = P.get<Stmt>();
      if (PS) {
        const Expr* cond = nullptr; int pol = -1; const char* tk = "";
        if (auto* I = dyn_cast<IfStmt>(PS)) {
          if (!I->isConstexpr()) {
            if (child == I->getThen()) { cond = I->getCond(); pol = 1; }
            else if (child == I->getElse()) { cond = I->getCond(); pol = 0; }
            tk = "IfStmt.ast";
          }
        } else if (auto* Q = dyn_cast<ConditionalOperator>(PS)) {
          if (child == Q->getTrueExpr()) { cond = Q->getCond(); pol = 1; }
          else if (child == Q->getFalseExpr()) { cond = Q->getCond(); pol = 0; }
          tk = "ConditionalOperator.ast";
        } else if (auto* F = dyn_cast<ForStmt>(PS)) {
          if (child == F->getBody() && F->getCond()) { cond = F->getCond(); pol = 1; tk = "ForStmt.ast"; }
        } else if (auto* W = dyn_cast<WhileStmt>(PS)) {
          if (child == W->getBody()) { cond = W->getCond(); pol = 1; tk = "WhileStmt.ast"; }
        } else if (auto* B = dyn_cast<BinaryOperator>(PS)) {
          if (B->getOpcode() == BO_LAnd && child == B->getRHS()) { cond = B->getLHS(); pol = 1; tk = "LAnd.ast"; }
          if (B->getOpcode() == BO_LOr && child == B->getRHS()) { cond = B->getLHS(); pol = 0; tk = "LOr.ast"; }
        }
        if (cond && pol >= 0) {
          if (!first) out += ","; first = false;
          out += "{\"cond\":\"" + jesc(K.ex(cond)) + "\",\"pol\":" + std::to_string(pol) + ",\"line\":" + std::to_string(lineOf(cond->getBeginLoc())) + ",\"term\":\"" + tk + "\"}";
        }
        child = PS;
      }
      cur = P;
    }
  }

  void emit(const FunctionDecl* FD, const Stmt* Body, const std::string& qnOverride, const std::string& extra) {
    std::string qn = qnOverride.empty() ? FD->getQualifiedNameAsString() : qnOverride;
    std::string file = fileOf(FD->getLocation());
    if (!wanted(FD, qn, file)) return;
    nFunctions++;
    Canon K(C, FD);
    std::vector<Fact> facts;
    FnVisitor V(C, K, facts, FD);
    V.TraverseStmt(const_cast<Stmt*>(Body));
    if (auto* MD0 = dyn_cast<CXXMethodDecl>(FD)) {
      if (!MD0->getParent()->isLambda())
        for (auto* FLD : MD0->getParent()->fields())
          if (FLD->hasInClassInitializer() && FLD->getInClassInitializer())
            facts.push_back({"field", FLD->getNameAsString(), K.ex(FLD->getInClassInitializer()), K.ty(FLD->getType()), nullptr});
    }
    if (auto* CD = dyn_cast<CXXConstructorDecl>(FD))
      for (auto* I : CD->inits()) if (I->isWritten() && I->getInit()) {
        facts.push_back({"ctorinit", I->isAnyMemberInitializer() ? I->getAnyMember()->getNameAsString() : "<base>", K.ex(I->getInit()), "", nullptr});
        // calls and dereferences inside a member initialiser are executed too: collect them like body statements
        V.TraverseStmt(I->getInit());
      }

    std::unique_ptr<CFG> cfg; std::unique_ptr<CFGDomTree> DT; std::map<const Stmt*, const CFGBlock*> where;
    bool cfgok = false;
    if (gCfg && !FD->isDependentContext()) {
      CFG::BuildOptions BO; BO.setAllAlwaysAdd(); BO.AddImplicitDtors = false; BO.AddTemporaryDtors = false; BO.PruneTriviallyFalseEdges = false;
      cfg = CFG::buildCFG(FD, const_cast<Stmt*>(Body), &C, BO);
      if (cfg) {
        DT.reset(new CFGDomTree()); DT->buildDominatorTree(cfg.get());
        for (const CFGBlock* B : *cfg) if (B) {
          for (auto& El : *B) if (auto CS = El.getAs<CFGStmt>()) where[CS->getStmt()] = B;
          if (const Stmt* T = B->getTerminatorStmt()) { if (!where.count(T)) where[T] = B; }
        }
        cfgok = true;
      }
    }
    std::string s = "{\"fn\":\"" + jesc(qn) + "\"";
    {
      std::string diag; llvm::raw_string_ostream os(diag); FD->getNameForDiagnostic(os, K.PP, true); os.flush();
      s += ",\"sig\":\"" + jesc(diag) + "\"";
    }
    s += ",\"file\":\"" + jesc(file) + "\",\"line\":" + std::to_string(lineOf(FD->getLocation()));
    s += ",\"inst\":" + std::string(FD->isTemplateInstantiation() ? "true" : "false");
    s += ",\"dependent\":" + std::string(FD->isDependentContext() ? "true" : "false");
    s += ",\"cfg\":" + std::string(cfgok ? "true" : "false");
    s += ",\"ret\":\"" + jesc(K.ty(FD->getReturnType())) + "\"";
    if (auto* MD = dyn_cast<CXXMethodDecl>(FD)) { s += ",\"class\":\"" + jesc(MD->getParent()->getQualifiedNameAsString()) + "\",\"static\":" + (MD->isStatic() ? "true" : "false") + ",\"const\":" + (MD->isConst() ? "true" : "false"); }
    s += extra;
    s += ",\"params\":[";
    for (unsigned i = 0; i < FD->getNumParams(); i++) {
      auto* P = FD->getParamDecl(i);
      if (i) s += ",";
      std::string dx;
      if (P->hasDefaultArg() && !P->hasUnparsedDefaultArg() && !P->hasUninstantiatedDefaultArg() && P->getDefaultArg()) dx = K.ex(P->getDefaultArg());
      s += "{\"name\":\"" + jesc(P->getNameAsString()) + "\",\"type\":\"" + jesc(K.ty(P->getType())) + "\",\"pack\":" + (P->isParameterPack() ? "true" : "false") + ",\"default\":" + (P->hasDefaultArg() ? "true" : "false") + ",\"defexpr\":\"" + jesc(dx) + "\"}";
    }
    s += "],\"tparams\":[";
    if (auto* FT = FD->getDescribedFunctionTemplate()) {
      bool f1 = true;
      for (auto* TP : *FT->getTemplateParameters()) {
        std::string d;
        if (auto* TT = dyn_cast<TemplateTypeParmDecl>(TP)) { if (TT->hasDefaultArgument()) d = K.ty(TT->getDefaultArgument()); }
        else if (auto* NT = dyn_cast<NonTypeTemplateParmDecl>(TP)) { if (NT->hasDefaultArgument() && NT->getDefaultArgument()) d = K.ex(NT->getDefaultArgument()); }
        if (!f1) s += ","; f1 = false;
        s += "{\"name\":\"" + jesc(TP->getNameAsString()) + "\",\"default\":\"" + jesc(d) + "\"}";
      }
    }
    s += "],\"facts\":[";
    bool first = true;
    for (auto& f : facts) {
      if (!first) s += ","; first = false;
      s += "{\"k\":\"" + f.kind + "\",\"a\":\"" + jesc(f.a) + "\",\"b\":\"" + jesc(f.b) + "\",\"c\":\"" + jesc(f.c) + "\"";
      if (f.S) {
        s += ",\"line\":" + std::to_string(lineOf(f.S->getBeginLoc())) + ",\"col\":" + std::to_string(colOf(f.S->getBeginLoc()));
        std::string ffile = fileOf(f.S->getBeginLoc());
        if (ffile != file) s += ",\"file\":\"" + jesc(ffile) + "\"";
        if (cfgok) { std::string g; guardsOf(f.S, cfg.get(), *DT, where, K, g); s += ",\"g\":" + g; }
      }
      s += "}";
    }
    s += "]}";
    llvm::outs() << s << "\n";
  }

  bool VisitFunctionDecl(FunctionDecl* FD) {
    if (!FD->doesThisDeclarationHaveABody()) return true;
    if (!gInst && FD->isTemplateInstantiation()) return true;
    if (FD->isImplicit()) return true;
    if (auto* MD = dyn_cast<CXXMethodDecl>(FD)) if (MD->getParent()->isLambda()) {
      // non-generic lambdas are handled by VisitLambdaExpr; instantiated call operators of GENERIC lambdas ([&](auto x){..}) are emitted here
      if (gInst && FD->isTemplateInstantiation() && FD->getBody()) {
        const CXXRecordDecl* LC = MD->getParent();
        std::string owner;
        const DeclContext* DC = LC->getDeclContext();
        while (DC && !isa<FunctionDecl>(DC) && !isa<NamespaceDecl>(DC) && !isa<CXXRecordDecl>(DC)) DC = DC->getParent();
        if (auto* ND = dyn_cast_or_null<NamedDecl>(DC)) owner = ND->getQualifiedNameAsString();
        std::string psig;
        const DeclContext* P = LC->getDeclContext();
        while (P && !(isa<FunctionDecl>(P) && !(isa<CXXMethodDecl>(P) && cast<CXXMethodDecl>(P)->getParent()->isLambda()))) P = P->getParent();
        if (auto* PF = dyn_cast_or_null<FunctionDecl>(P)) { Canon K0(C, PF); llvm::raw_string_ostream os(psig); PF->getNameForDiagnostic(os, K0.PP, true); os.flush(); }
        unsigned ln = lineOf(LC->getLocation());
        std::string qn = owner + "::(lambda@" + std::to_string(ln) + ")";
        std::string extra = ",\"lambda\":true,\"generic_inst\":true,\"lambda_var\":\"\",\"parent_sig\":\"" + jesc(psig) + "\"";
        emit(FD, FD->getBody(), qn, extra);
      }
      return true;
    }
    emit(FD, FD->getBody(), "", "");
    return true;
  }
  // namespace-scope variables (functor objects) and type aliases (op bindings) of the filtered files
  bool VisitVarDecl(VarDecl* V) {
    if (!V->isFileVarDecl() || isa<VarTemplateSpecializationDecl>(V)) return true;
    std::string file = fileOf(V->getLocation());
    std::string qn = V->getQualifiedNameAsString();
    if (!wanted(nullptr, qn, file)) return true;
    Canon K(C, nullptr);
    std::string s = "{\"var\":\"" + jesc(qn) + "\",\"file\":\"" + jesc(file) + "\",\"line\":" + std::to_string(lineOf(V->getLocation()));
    s += ",\"type\":\"" + jesc(K.ty(V->getType())) + "\",\"init\":\"" + jesc(V->getInit() ? K.ex(V->getInit()) : "") + "\"}";
    llvm::outs() << s << "\n";
    return true;
  }
  bool VisitTypeAliasDecl(TypeAliasDecl* A) {
    std::string file = fileOf(A->getLocation());
    std::string qn = A->getQualifiedNameAsString();
    if (!wanted(nullptr, qn, file)) return true;
    if (A->getDeclContext()->isFunctionOrMethod() || A->getDeclContext()->isRecord()) return true;
    Canon K(C, nullptr);
    std::string s = "{\"alias\":\"" + jesc(qn) + "\",\"file\":\"" + jesc(file) + "\",\"line\":" + std::to_string(lineOf(A->getLocation()));
    s += ",\"type\":\"" + jesc(K.ty(A->getUnderlyingType())) + "\",\"templated\":" + (A->getDescribedAliasTemplate() ? "true" : "false") + "}";
    llvm::outs() << s << "\n";
    return true;
  }
  bool VisitLambdaExpr(LambdaExpr* L) {
    auto* MD = L->getCallOperator();
    if (!MD || !MD->hasBody()) return true;
    if (auto* FT = L->getDependentCallOperator()) { if (FT->getTemplatedDecl() && FT->getTemplatedDecl()->hasBody()) MD = cast<CXXMethodDecl>(FT->getTemplatedDecl()); }
    // name: enclosing function or variable being initialised
    std::string owner;
    const DeclContext* DC = L->getLambdaClass()->getDeclContext();
    while (DC && !isa<FunctionDecl>(DC) && !isa<NamespaceDecl>(DC) && !isa<CXXRecordDecl>(DC)) DC = DC->getParent();
    if (auto* ND = dyn_cast_or_null<NamedDecl>(DC)) owner = ND->getQualifiedNameAsString();
    std::string var;
    auto parents = C.getParents(*L);
    for (int depth = 0; depth < 6 && !parents.empty(); depth++) {
      if (auto* VD = parents[0].get<VarDecl>()) { var = VD->getQualifiedNameAsString(); break; }
      if (parents[0].get<FunctionDecl>()) break;
      parents = C.getParents(parents[0]);
    }
    std::string qn = owner + "::(lambda@" + std::to_string(lineOf(L->getBeginLoc())) + ")";
    std::string psig;
    {
      const DeclContext* P = L->getLambdaClass()->getDeclContext();
      while (P && !(isa<FunctionDecl>(P) && !(isa<CXXMethodDecl>(P) && cast<CXXMethodDecl>(P)->getParent()->isLambda()))) P = P->getParent();
      if (auto* PF = dyn_cast_or_null<FunctionDecl>(P)) { Canon K0(C, PF); llvm::raw_string_ostream os(psig); PF->getNameForDiagnostic(os, K0.PP, true); os.flush(); }
    }
    std::string extra = ",\"lambda\":true,\"lambda_var\":\"" + jesc(var) + "\",\"parent_sig\":\"" + jesc(psig) + "\"";
    {
      const DeclContext* P = L->getLambdaClass()->getDeclContext();
      while (P && !isa<ClassTemplatePartialSpecializationDecl>(P) && !isa<NamespaceDecl>(P)) P = P->getParent();
      if (auto* PS = dyn_cast_or_null<ClassTemplatePartialSpecializationDecl>(P)) {
        Canon K0(C, nullptr);
        extra += ",\"spec_of\":\"" + jesc(PS->getSpecializedTemplate()->getQualifiedNameAsString()) + "\",\"spec_args\":[";
        if (auto* AW = PS->getTemplateArgsAsWritten()) {
          for (unsigned i = 0; i < AW->NumTemplateArgs; i++) {
            std::string t; llvm::raw_string_ostream os(t); (*AW)[i].getArgument().print(K0.PP, os, true); os.flush();
            extra += std::string(i ? "," : "") + "\"" + jesc(t) + "\"";
          }
        }
        extra += "]";
      }
    }
    emit(MD, MD->getBody(), qn, extra);
    // generic lambda ([&](auto x){..}): its instantiated call operators are not reached by the AST traversal; emit them here
    if (gInst) {
      if (auto* FT = L->getLambdaClass()->getDependentLambdaCallOperator()) {
        for (auto* Spec : FT->specializations()) {
          if (Spec->getBody() && !Spec->isDependentContext())
            emit(Spec, Spec->getBody(), qn, extra + ",\"generic_inst\":true");
        }
      }
    }
    return true;
  }
};

class Consumer : public ASTConsumer {
public:
  void HandleTranslationUnit(ASTContext& C) override {
    TopVisitor V(C);
    V.TraverseDecl(C.getTranslationUnitDecl());
    unsigned errs = C.getDiagnostics().getClient()->getNumErrors();
    llvm::outs() << "{\"summary\":true,\"functions\":" << V.nFunctions << ",\"errors\":" << errs << "}\n";
  }
};
class Action : public ASTFrontendAction {
public:
  std::unique_ptr<ASTConsumer> CreateASTConsumer(CompilerInstance& CI, StringRef) override {
    CI.getDiagnostics().setSuppressAllDiagnostics(false);
    return std::make_unique<Consumer>();
  }
};

int main(int argc, const char** argv) {
  std::string file; std::vector<std::string> flags; bool after = false;
  for (int i = 1; i < argc; i++) {
    std::string a = argv[i];
    if (after) { flags.push_back(a); continue; }
    if (a == "--") { after = true; continue; }
    if (a == "--inst") gInst = true;
    else if (a == "--cfg") gCfg = true;
    else if (a == "--file-substr" && i + 1 < argc) gFileSubstr.push_back(argv[++i]);
    else if (a == "--name-prefix" && i + 1 < argc) gNamePrefix.push_back(argv[++i]);
    else file = a;
  }
  if (file.empty()) { llvm::errs() << "usage: nmlint [--inst] [--cfg] [--file-substr S] [--name-prefix P] file.cpp -- flags\n"; return 2; }
  auto buf = llvm::MemoryBuffer::getFile(file);
  if (!buf) { llvm::errs() << "cannot read " << file << "\n"; return 2; }
  flags.push_back("-fsyntax-only");
  flags.push_back("-resource-dir"); flags.push_back("/usr/lib/llvm-14/lib/clang/14.0.6");
  bool ok = clang::tooling::runToolOnCodeWithArgs(std::make_unique<Action>(), (*buf)->getBuffer(), flags, file, "nmlint");
  return ok ? 0 : 1;
}
