#!/usr/bin/env python3
"""Maintenance helper (not a registered check): confirm a BATCH of seeded changes against the pinned test suite with one build.

usage: confirm_combined.py [-j N] <seed-dir> [<seed-dir> ...]

Seeds that touch headers which every test object includes cost a full rebuild each when confirmed one by one (confirm_seed2.py). Here all
patches of the batch are applied TOGETHER to a scratch worktree of /repo HEAD, every test object whose ninja dependency record names a
patched file is recompiled with its own command line, the executables are relinked and their complete output is compared with the
baseline executables' (/repo/_build, which must be an up-to-date build of HEAD). If the combined output is identical, no seed of the batch
is noticed by the suite (a seed whose effect on a test were cancelled exactly by another seed in a different file is not a realistic
worry; if the output differs the batch has to be bisected with confirm_seed2.py). Each demo is compiled and run against /repo (must exit 0)
and against a scratch copy of the headers with ITS OWN patch alone (must exit non-zero).
Writes <seed-dir>/confirm.json for every seed.
"""
import sys, os, re, subprocess, json, shutil, concurrent.futures as cf

REPO = "/repo"; B = REPO + "/_build"; WT = "/var/tmp/cs"; OUT = "/var/tmp/cs_build"


def sh(cmd, cwd=None, timeout=None):
    p = subprocess.run(cmd, shell=True, cwd=cwd, capture_output=True, text=True, timeout=timeout)
    return p.returncode, p.stdout + p.stderr


def ninja_deps():
    rc, out = sh("ninja -C %s -t deps" % B)
    deps = {}; cur = None
    for line in out.splitlines():
        if line and not line.startswith(" "):
            m = re.match(r"^(\S+): #deps", line)
            cur = m.group(1) if m else None
            if cur: deps[cur] = set()
        elif cur and line.strip():
            deps[cur].add(os.path.normpath(os.path.join(B, line.strip())))
    return deps


def main():
    args = sys.argv[1:]; jobs = 14
    if "-j" in args:
        i = args.index("-j"); jobs = int(args[i + 1]); del args[i:i + 2]
    seeds = [os.path.abspath(a) for a in args]
    head = sh("git -C %s rev-parse --short HEAD" % REPO)[1].strip()
    if not os.path.isdir(WT):
        rc, o = sh("git -C %s worktree add --detach %s HEAD" % (REPO, WT))
        if rc: print(o); return 2
    sh("git checkout -q -- . && git clean -fdq", cwd=WT)
    sh("git checkout -q --detach %s" % head, cwd=WT)
    per = {}
    for sd in seeds:
        rc, o = sh("git apply %s" % os.path.join(sd, "patch.diff"), cwd=WT)
        per[sd] = dict(seed=os.path.basename(sd), head=head, applied=("clean" if rc == 0 else "FAILED: " + o[-300:]), batch=[os.path.basename(x) for x in seeds])
        if rc:
            print(os.path.basename(sd), "PATCH DOES NOT APPLY (with the others of the batch)", o[-300:]); return 3
        # the seed's own patch against HEAD, and the files it touches
        scratch = "/var/tmp/cc_%s" % os.path.basename(sd); shutil.rmtree(scratch, ignore_errors=True); os.makedirs(scratch)
        sh("cp -r %s/include %s/ && cd %s && patch -p1 -s --no-backup-if-mismatch < %s" % (REPO, scratch, scratch, os.path.join(sd, "patch.diff")))
        shutil.copy(os.path.join(sd, "patch.diff"), os.path.join(sd, "patch.head.diff"))
        per[sd]["scratch"] = scratch
        per[sd]["changed_files"] = re.findall(r"^\+\+\+ b/(\S+)", open(os.path.join(sd, "patch.diff")).read(), re.M)
    rc, o = sh("git diff --name-only", cwd=WT)
    changed = [l.strip() for l in o.splitlines() if l.strip()]
    deps = ninja_deps()
    chg_abs = set(os.path.join(REPO, c) for c in changed)
    objs = sorted(o for o, d in deps.items() if d & chg_abs)
    print("batch of %d seeds touches %d files -> %d test objects to recompile" % (len(seeds), len(changed), len(objs)), flush=True)
    shutil.rmtree(OUT, ignore_errors=True); os.makedirs(OUT)

    def compile_one(obj):
        rc, o = sh("ninja -C %s -t commands %s" % (B, obj))
        cmd = [l for l in o.splitlines() if (" -o " + obj) in l][-1]
        cmd = cmd.replace(REPO + "/", WT + "/").replace(WT + "/_build", B)
        new = os.path.join(OUT, obj); os.makedirs(os.path.dirname(new), exist_ok=True)
        cmd = cmd.replace(" -o " + obj, " -o " + new).replace(" -MF " + obj + ".d", " -MF " + new + ".d").replace(" -MT " + obj, " -MT " + new)
        rc, o = sh(cmd, cwd=B)
        return obj, rc, o[-2000:]
    fails = []
    with cf.ThreadPoolExecutor(jobs) as ex:
        for obj, rc, o in ex.map(compile_one, objs):
            if rc: fails.append((obj, o))
    if fails:
        # a compiler process killed for lack of memory is not a verdict: retry the failed objects two at a time
        retry = [o for o, _ in fails]; fails = []
        with cf.ThreadPoolExecutor(2) as ex:
            for obj, rc, o in ex.map(compile_one, retry):
                if rc: fails.append((obj, o))
    if fails:
        print("DOES NOT COMPILE:", fails[0][0], fails[0][1][-800:]); return 4
    rc, o = sh("ninja -C %s -t targets all" % B)
    exes = [l.split(":")[0] for l in o.splitlines() if ": CXX_EXECUTABLE_LINKER" in l]
    tests = []
    for exe in exes:
        rc, o = sh("ninja -C %s -t commands %s" % (B, exe))
        link = [l for l in o.splitlines() if (" -o " + exe) in l]
        if not link: continue
        link = link[-1]
        used = [ob for ob in objs if (" " + ob) in link]
        rec = dict(exe=exe, relinked=bool(used), n_recompiled=len(used))
        if used:
            for ob in used: link = link.replace(ob, os.path.join(OUT, ob))
            newexe = os.path.join(OUT, exe); os.makedirs(os.path.dirname(newexe), exist_ok=True)
            link = link.replace(" -o " + exe, " -o " + newexe)
            rc, o2 = sh(link, cwd=B)
            if rc: rec["link_error"] = o2[-1500:]; tests.append(rec); continue
            norm = lambda s: s.replace(WT, "R").replace(REPO, "R").replace(OUT, "B").replace(B, "B")
            rb, ob_ = sh(os.path.join(B, exe), timeout=1800); rn, on_ = sh(newexe, timeout=1800)
            rec.update(base_rc=rb, seed_rc=rn, identical_output=(norm(ob_) == norm(on_)),
                       summary=[l for l in on_.splitlines() if "test cases" in l or "assertions" in l])
            if not rec["identical_output"]:
                open(os.path.join("/var/tmp", "cc_diff_%s.base" % os.path.basename(exe)), "w").write(norm(ob_))
                open(os.path.join("/var/tmp", "cc_diff_%s.seed" % os.path.basename(exe)), "w").write(norm(on_))
        tests.append(rec)
    ok_tests = all((not t["relinked"]) or (t.get("identical_output") and t.get("base_rc") == t.get("seed_rc")) for t in tests) and not any("link_error" in t for t in tests)
    print("combined build: tests identical to baseline =", ok_tests, [(t["exe"].split("/")[-1], t.get("identical_output")) for t in tests if t["relinked"]], flush=True)
    for sd in seeds:
        res = per[sd]
        res["recompiled_objects"] = objs; res["executables"] = tests
        demo = os.path.join(sd, "demo.cpp")
        extra = "-mavx2 -mfma" if "simd" in open(demo).read() else ""
        d = {}
        for tag, inc in (("base", REPO), ("seed", res["scratch"])):
            exe = os.path.join(OUT, "demo_%s_%s" % (res["seed"], tag))
            rc, o = sh("g++ -std=c++17 -I%s/include %s %s -o %s" % (inc, extra, demo, exe))
            if rc: d[tag] = dict(compile_error=o[-1500:]); continue
            try: rc, o = sh(exe, timeout=300)
            except subprocess.TimeoutExpired: rc, o = 124, "timeout"
            d[tag] = dict(rc=rc, tail=o[-600:])
        res["demo"] = d
        ok_demo = d.get("base", {}).get("rc") == 0 and d.get("seed", {}).get("rc") not in (0, None)
        res["verdict"] = "CONFIRMED" if (ok_tests and ok_demo) else "NOT CONFIRMED (tests_ok=%s demo_ok=%s)" % (ok_tests, ok_demo)
        res["method_note"] = "combined build of the batch %s" % res["batch"]
        shutil.rmtree(res.pop("scratch"), ignore_errors=True)
        json.dump(res, open(os.path.join(sd, "confirm.json"), "w"), indent=1)
        print(res["seed"], res["verdict"], "demo base_rc=%s seed_rc=%s" % (d.get("base", {}).get("rc"), d.get("seed", {}).get("rc")), flush=True)
    sh("git checkout -q -- . && git clean -fdq", cwd=WT)
    shutil.rmtree(OUT, ignore_errors=True)
    return 0


if __name__ == "__main__":
    sys.exit(main())
