#!/bin/bash
# maintenance helper: apply a seeded patch to /repo, run the checks, undo. usage: run_seed.sh <patch.diff> <Cxx> [Cyy ...]
P=$1; shift
git -C /repo apply --check "$P" || { echo "PATCH DOES NOT APPLY"; exit 3; }
git -C /repo apply "$P"
for c in "$@"; do python3 /verif/check.py $c | grep -v "^       path\|KNOWN-FINDING" | cut -c1-220 | head -${LINES_MAX:-6}; done
git -C /repo checkout -- .
git -C /repo status --short | grep -v _build
