// Instantiation driver (never linked or run): feeds maybe-typed operands/attributes through the lifting
// functions of index/, view/, eval and the kernel helper so that R-MAYBE / R-DIV see their resolved CFGs.
#include "nmtools/array/ndarray.hpp"
#include "nmtools/array/index/broadcast_shape.hpp"
#include "nmtools/array/index/broadcast_to.hpp"
#include "nmtools/array/index/compute_strides.hpp"
#include "nmtools/array/index/compute_offset.hpp"
#include "nmtools/array/index/compute_indices.hpp"
#include "nmtools/array/index/reshape.hpp"
#include "nmtools/array/index/transpose.hpp"
#include "nmtools/array/index/moveaxis.hpp"
#include "nmtools/array/index/normalize_axis.hpp"
#include "nmtools/array/index/remove_dims.hpp"
#include "nmtools/array/index/tile.hpp"
#include "nmtools/array/index/repeat.hpp"
#include "nmtools/array/index/roll.hpp"
#include "nmtools/array/index/pad.hpp"
#include "nmtools/array/index/resize.hpp"
#include "nmtools/array/index/concatenate.hpp"
#include "nmtools/array/index/expand_dims.hpp"
#include "nmtools/array/index/sliding_window.hpp"
#include "nmtools/array/index/pooling.hpp"
#include "nmtools/array/view/reshape.hpp"
#include "nmtools/array/view/transpose.hpp"
#include "nmtools/array/view/moveaxis.hpp"
#include "nmtools/array/view/broadcast_to.hpp"
#include "nmtools/array/view/tile.hpp"
#include "nmtools/array/view/repeat.hpp"
#include "nmtools/array/view/roll.hpp"
#include "nmtools/array/view/flatten.hpp"
#include "nmtools/array/view/expand_dims.hpp"
#include "nmtools/array/view/squeeze.hpp"
#include "nmtools/array/view/pad.hpp"
#include "nmtools/array/view/concatenate.hpp"
#include "nmtools/array/view/tril.hpp"
#include "nmtools/array/view/triu.hpp"
#include "nmtools/array/view/eye.hpp"
#include "nmtools/array/view/expand.hpp"
#include "nmtools/array/view/diagonal.hpp"
#include "nmtools/array/view/take.hpp"
#include "nmtools/array/view/sliding_window.hpp"
#include "nmtools/array/view/matmul.hpp"
#include "nmtools/array/view/sum.hpp"
#include "nmtools/array/view/mean.hpp"
#include "nmtools/array/view/softmax.hpp"
#include "nmtools/array/view/ufuncs/add.hpp"
#include "nmtools/array/view/ufuncs/multiply.hpp"
#include "nmtools/array/view/ufuncs/sin.hpp"
#include "nmtools/array/array/transpose.hpp"
#include "nmtools/array/array/reshape.hpp"
#include "nmtools/array/array/ufuncs/add.hpp"
#include "nmtools/array/array/sum.hpp"
#include "nmtools/array/array/matmul.hpp"
#include "nmtools/array/eval.hpp"
#include "nmtools/array/eval/kernel_helper.hpp"
#include "nmtools/utility/isequal.hpp"
#include "nmtools/utility/isclose.hpp"
#include "nmtools/utility/apply_isequal.hpp"
#include "nmtools/utility/apply_isclose.hpp"
namespace nm = nmtools; namespace na = nm::array; namespace ix = nm::index; namespace view = nm::view; namespace meta = nm::meta;
using namespace nmtools::literals;
using dyn_shape = nmtools_list<size_t>;
using fix_shape = nmtools_array<size_t,3>;
using arr_d = na::ndarray_t<nmtools_list<float>, dyn_shape>;
using arr_f = na::ndarray_t<nmtools_list<float>, fix_shape>;
template <class T> using M = nmtools_maybe<T>;

void drive_index(const M<dyn_shape>& ms, const M<fix_shape>& mf, const dyn_shape& s, const fix_shape& f, const M<size_t>& mi, const nmtools_list<int>& axes, int axis)
{
    auto a1 = ix::broadcast_shape(ms, s); auto a2 = ix::broadcast_shape(s, ms); auto a3 = ix::broadcast_shape(ms, mf, s); auto a4 = ix::broadcast_shape(f, f);
    auto b1 = ix::shape_broadcast_to(ms, s); auto b2 = ix::shape_broadcast_to(s, ms);
    auto c1 = ix::compute_strides(ms); auto c2 = ix::compute_offset(ms, s); auto c3 = ix::compute_offset(s, ms); auto c4 = ix::compute_indices(mi, s); auto c5 = ix::compute_indices((size_t)3, ms);
    auto d1 = ix::shape_reshape(ms, s); auto d2 = ix::shape_reshape(s, ms); auto d3 = ix::shape_reshape(s, s); auto d4 = ix::shape_reshape(f, f);
    auto e1 = ix::shape_transpose(ms, axes); auto e2 = ix::shape_transpose(s, nm::None); auto e3 = ix::shape_transpose(f, axes);
    auto g1 = ix::normalize_axis(axes, 3); auto g2 = ix::normalize_axis(axis, 3);
    auto h1 = ix::shape_tile(s, s); auto h2 = ix::shape_repeat(s, 2, axis); auto h3 = ix::shape_roll(s, 1, axis);
    auto i1 = ix::remove_dims(s, axis, nm::False); auto i2 = ix::shape_expand_dims(s, axes);
    auto j1 = ix::shape_concatenate(s, s, axis); auto j2 = ix::shape_matmul(s, s); auto j3 = ix::shape_matmul(f, f);
    auto k1 = ix::tile(s, s, s); auto k2 = ix::repeat(s, s, 2, axis); auto k3 = ix::roll(s, s, 1, axis); auto k4 = ix::compute_indices((size_t)5, f); auto k5 = ix::roll(f, f, 1, 1_ct);
    (void)k1;(void)k2;(void)k3;(void)k4;(void)k5;
    (void)a1;(void)a2;(void)a3;(void)a4;(void)b1;(void)b2;(void)c1;(void)c2;(void)c3;(void)c4;(void)c5;(void)d1;(void)d2;(void)d3;(void)d4;(void)e1;(void)e2;(void)e3;(void)g1;(void)g2;(void)h1;(void)h2;(void)h3;(void)i1;(void)i2;(void)j1;(void)j2;(void)j3;
}
void drive_view(const M<arr_d>& ma, const arr_d& a, const arr_f& af, const M<dyn_shape>& ms, const dyn_shape& s, const nmtools_list<int>& axes, int axis)
{
    auto v1 = view::reshape(ma, s); auto v2 = view::reshape(a, ms); auto v3 = view::reshape(a, s);
    auto v4 = view::transpose(ma, axes); auto v5 = view::transpose(a); auto v6 = view::moveaxis(ma, axis, axis);
    auto v7 = view::broadcast_to(ma, s); auto v8 = view::broadcast_to(a, ms); auto v9 = view::tile(ma, s); auto v10 = view::repeat(ma, 2, axis);
    auto v11 = view::roll(ma, 1, axis); auto v12 = view::flatten(ma); auto v13 = view::expand_dims(a, axis); auto v14 = view::squeeze(a);
    auto v15 = view::add(ma, a); auto v16 = view::add(a, ma); auto v17 = view::add(ma, ma); auto v18 = view::sin(ma); auto v19 = view::add(af, af);
    auto v20 = view::sum(ma, axis); auto v21 = view::mean(ma, axis); auto v22 = view::matmul(a, a); auto v23 = view::matmul(af, af); auto v24 = view::concatenate(ma, a, axis);
    auto v25 = view::softmax(ma, axis); auto v26 = view::multiply(view::add(ma, a), view::transpose(ma));
    auto w1 = na::eval(v1); auto w2 = na::eval(v15); auto w3 = na::eval(v20); auto w4 = na::eval(v26); auto w5 = na::eval(v3);
    auto x1 = na::transpose(ma, axes); auto x2 = na::reshape(ma, s); auto x3 = na::add(ma, ma); auto x4 = na::sum(ma, axis); auto x5 = na::matmul(a, a);
    auto y1 = nm::utils::isclose(ma, ma); auto y2 = nm::utils::isclose(a, ma); auto y3 = nm::utils::isclose(ma, a); auto y4 = nm::utils::isequal(ms, s);
    (void)v1;(void)v2;(void)v3;(void)v4;(void)v5;(void)v6;(void)v7;(void)v8;(void)v9;(void)v10;(void)v11;(void)v12;(void)v13;(void)v14;(void)v15;(void)v16;(void)v17;(void)v18;(void)v19;(void)v20;(void)v21;(void)v22;(void)v23;(void)v24;(void)v25;(void)v26;
    (void)w1;(void)w2;(void)w3;(void)w4;(void)w5;(void)x1;(void)x2;(void)x3;(void)x4;(void)x5;(void)y1;(void)y2;(void)y3;(void)y4;
}
using arr_id = na::ndarray_t<nmtools_list<int>, dyn_shape>;
using arr_if = na::ndarray_t<nmtools_list<int>, fix_shape>;
using arr_ih = na::ndarray_t<nmtools_array<int,24>, nm::utl::static_vector<size_t,4>>;
void drive_compare(const arr_id& a, const arr_id& b, const arr_if& c, const arr_if& d, const arr_ih& e, const arr_f& x, const arr_f& y, const arr_d& p, const arr_d& q,
                   const nmtools_list<size_t>& l1, const nm::utl::static_vector<size_t,4>& l2, const fix_shape& l3)
{
    auto r1 = nm::utils::isequal(a,b); auto r2 = nm::utils::isequal(c,d); auto r3 = nm::utils::isequal(a,c); auto r4 = nm::utils::isequal(e,e); auto r5 = nm::utils::isequal(e,a);
    auto s1 = nm::utils::isclose(x,y); auto s2 = nm::utils::isclose(p,q); auto s3 = nm::utils::isclose(x,p);
    auto t1 = nm::utils::isequal(l1,l1); auto t2 = nm::utils::isequal(l1,l2); auto t3 = nm::utils::isequal(l2,l3); auto t4 = nm::utils::isequal(l3,l1);
    (void)r1;(void)r2;(void)r3;(void)r4;(void)r5;(void)s1;(void)s2;(void)s3;(void)t1;(void)t2;(void)t3;(void)t4;
}
// indexing views whose index function returns a maybe/either (fill positions): the element access path must test before it dereferences
void drive_fill_views(const M<arr_d>& ma, const arr_d& a, const arr_f& af, const nmtools_list<size_t>& pw, const nmtools_array<size_t,6>& pwf, int axis)
{
    auto p1 = view::pad(a, pw, 0.f); auto p2 = view::pad(af, pwf, 0.f); auto p3 = view::pad(ma, pw, 0.f);
    auto t1 = view::tril(a, 0); auto t2 = view::triu(af, 1); auto t3 = view::tril(ma, 0);
    auto e1 = view::expand(a, axis, (size_t)1, 0.f); auto e2 = view::expand(af, axis, (size_t)2, 0.f);
    auto d1 = view::diagonal(af, 0, 0, 1); auto d2 = view::diagonal(a, 1, 0, 1);
    auto k1 = view::take(a, nmtools_list<int>{0,1}, axis); auto s1 = view::sliding_window(a, (size_t)2, axis);
    auto w1 = na::eval(p1); auto w2 = na::eval(p2); auto w3 = na::eval(p3); auto w4 = na::eval(t1); auto w5 = na::eval(t2); auto w6 = na::eval(t3);
    auto w7 = na::eval(e1); auto w8 = na::eval(e2); auto w9 = na::eval(d1); auto w10 = na::eval(d2); auto w11 = na::eval(k1); auto w12 = na::eval(s1);
    (void)w1;(void)w2;(void)w3;(void)w4;(void)w5;(void)w6;(void)w7;(void)w8;(void)w9;(void)w10;(void)w11;(void)w12;
}
// the comparison helpers behind the library's own expectations, on optionals (C18: two empty optionals are equal, an empty and a non-empty one differ)
void drive_apply(const M<arr_id>& ma, const M<arr_id>& mb, const arr_id& a, const M<arr_f>& mx, const M<arr_f>& my, const arr_f& x)
{
    auto r1 = nm::utils::apply_isequal(ma, mb); auto r2 = nm::utils::apply_isequal(ma, a); auto r3 = nm::utils::apply_isequal(a, mb);
    auto s1 = nm::utils::apply_isclose(mx, my); auto s2 = nm::utils::apply_isclose(mx, x); auto s3 = nm::utils::apply_isclose(x, my);
    (void)r1;(void)r2;(void)r3;(void)s1;(void)s2;(void)s3;
}
void drive_kernel(float* out, const size_t* shp, const M<arr_d>& ma, const arr_d& a, na::kernel_size<size_t> t)
{
    auto output = na::create_mutable_array(out, shp, 2);
    na::assign_result(output, view::add(ma, a), t, t, t);
    na::assign_result(output, a, t, t, t);
}
