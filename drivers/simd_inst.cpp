// Instantiation driver (never linked or run): SIMD evaluator paths for unary, binary (same shape / broadcast), outer and reductions.
#include "nmtools/array/eval/simd/x86_avx.hpp"
#include "nmtools/array/eval/simd/x86_sse.hpp"
#include "nmtools/array/eval/simd/vector_extension.hpp"
#include "nmtools/array/array/ufuncs/add.hpp"
#include "nmtools/array/array/ufuncs/multiply.hpp"
#include "nmtools/array/array/ufuncs/sqrt.hpp"
#include "nmtools/array/array/matmul.hpp"
#include "nmtools/array/ndarray.hpp"
namespace nm = nmtools; namespace na = nm::array; namespace simd = na::simd; namespace meta = nm::meta;
using arr1 = na::ndarray_t<nmtools_list<float>, nmtools_array<size_t,1>>;
using arr2 = na::ndarray_t<nmtools_list<float>, nmtools_array<size_t,2>>;
using darr2 = na::ndarray_t<nmtools_list<double>, nmtools_array<size_t,2>>;
using carr2 = na::ndarray_t<nmtools_list<float>, nmtools_array<size_t,2>, na::resolve_stride_type_t, na::column_major_offset_t>;    // column-major storage (the SIMD matmul requires it for the rhs)
using cdarr2 = na::ndarray_t<nmtools_list<double>, nmtools_array<size_t,2>, na::resolve_stride_type_t, na::column_major_offset_t>;

template <class ctx_t>
void drive(const arr1& a, const arr1& b, const arr2& c, const arr2& d, const darr2& e, const carr2& cc, const cdarr2& ce, ctx_t ctx)
{
    auto r1 = na::sqrt(a, ctx);
    auto r2 = na::add(a, b, ctx);
    auto r3 = na::multiply(c, d, ctx);
    auto r4 = na::add.reduce(c, nm::None, nm::None, nm::None, nm::False, ctx);
    auto r5 = na::multiply.reduce(c, nm::None, nm::None, nm::None, nm::False, ctx);
    auto r6 = na::add.reduce(c, meta::ct_v<0>, nm::None, nm::None, nm::True, ctx);
    auto r7 = na::add.reduce(c, meta::ct_v<-1>, nm::None, nm::None, nm::False, ctx);
    auto r8 = na::add.outer(a, b, nm::None, ctx);
    auto r9 = na::sqrt(e, ctx);
    auto r10 = na::matmul(c, cc, ctx); auto r11 = na::matmul(e, ce, ctx);
    (void)r10; (void)r11;
    (void)r1; (void)r2; (void)r3; (void)r4; (void)r5; (void)r6; (void)r7; (void)r8; (void)r9;
}
void drive_all(const arr1& a, const arr1& b, const arr2& c, const arr2& d, const darr2& e, const carr2& cc, const cdarr2& ce)
{
    drive(a,b,c,d,e,cc,ce, simd::x86_AVX);
    drive(a,b,c,d,e,cc,ce, simd::x86_SSE);
}
