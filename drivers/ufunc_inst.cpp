// Instantiation driver (never linked or run): scalar call operators of the multi-statement ufunc / activation ops.
#include "nmtools/array/view/ufuncs/clip.hpp"
#include "nmtools/array/view/activations/hardshrink.hpp"
#include "nmtools/array/view/activations/relu6.hpp"
#include "nmtools/array/view/activations/hardswish.hpp"
#include "nmtools/array/view/activations/hardtanh.hpp"
#include "nmtools/array/view/activations/prelu.hpp"
#include "nmtools/array/view/activations/softshrink.hpp"
#include "nmtools/array/view/activations/softplus.hpp"
#include "nmtools/array/view/activations/sigmoid.hpp"
namespace view = nmtools::view;
float drive(float x, float lo, float hi)
{
    float r = 0;
    r += view::clip_t{}(x, lo, hi);
    r += view::fun::hardshrink<>{}(x);
    r += view::fun::relu6{}(x);
    r += view::fun::hardswish{}(x);
    r += view::fun::hardtanh<>{}(x);
    r += view::fun::prelu<>{}(x);
    r += view::fun::softshrink<>{}(x);
    r += view::fun::softplus<>{}(x);
    r += view::fun::sigmoid{}(x);
    return r;
}
