// Instantiation driver (never linked or run): STL-free containers with ownership or a tagged union.
#include "nmtools/utl.hpp"
#include "nmtools/utility/small_vector.hpp"
#include "nmtools/utility/small_vector.hpp"
namespace utl = nmtools::utl;
struct probe_t { int* p; probe_t(); probe_t(const probe_t&); probe_t& operator=(const probe_t&); ~probe_t(); };
void drive(utl::vector<int>& v, const utl::vector<int>& o, utl::vector<double>& w, int x)
{
    utl::vector<int> a; utl::vector<int> b(3); utl::vector<int> c(o); utl::vector<int> d{1,2,3};
    a = o; a.resize(7); a.push_back(x); (void)a.at(0); (void)a[1]; (void)a.size(); (void)a.data();
    v = v; w.resize(2); w.push_back(1.0);
    utl::maybe<utl::vector<int>> m1; utl::maybe<utl::vector<int>> m2(o); utl::maybe<utl::vector<int>> m3(m2); m1 = m2;
    utl::either<utl::vector<int>,int> e1(o); utl::either<utl::vector<int>,int> e2(x); utl::either<utl::vector<int>,int> e3(e1); e2 = e1; e2 = x;
    (void)b;(void)c;(void)d;(void)m3;(void)e3;
}
// small_vector: inline storage up to DIM elements, heap beyond (C19 anchor utility/small_vector.hpp)
void drive_small_vector(nmtools::small_vector<int,4>& sv, nmtools::small_vector<double>& sd, size_t n)
{
    sv.resize(n); sv.push_back(3); sd.resize(n); sd.push_back(2.0);
    auto c = sv; (void)c; (void)sv.size(); (void)sv.at(0);
}
