// umbrella TU: every eager wrapper header, for rules on template *definitions* (R-FWD)
#include "nmtools/array/array.hpp"
