#!/usr/bin/env python3
"""Maintenance helper: store a confirmed seeded change under /verif/seeded/<id>/ and record which checks catch it.
usage: store_seed.py <work-seed-dir> [<Cxx> ...]      (properties whose quick check is run against the seed; default: its own)
The checks run against a scratch copy of /repo/include with the patch applied (VERIF_REPO), /repo itself is not touched.
"""
import sys, os, json, shutil, subprocess, re

sd = os.path.abspath(sys.argv[1]); sid = os.path.basename(sd)
props = sys.argv[2:] or [sid.split("_")[0]]
conf = json.load(open(os.path.join(sd, "confirm.json")))
meta = json.load(open(os.path.join(sd, "meta.json")))
dst = os.path.join("/verif/seeded", sid); os.makedirs(dst, exist_ok=True)
patch = os.path.join(sd, "patch.head.diff") if os.path.exists(os.path.join(sd, "patch.head.diff")) else os.path.join(sd, "patch.diff")
shutil.copy(patch, os.path.join(dst, "patch.diff")); shutil.copy(os.path.join(sd, "demo.cpp"), os.path.join(dst, "demo.cpp"))
scratch = "/var/tmp/store_%d" % os.getpid(); shutil.rmtree(scratch, ignore_errors=True); os.makedirs(scratch)
subprocess.run("cp -r /repo/include %s/ && cd %s && patch -p1 -s --no-backup-if-mismatch < %s" % (scratch, scratch, os.path.join(dst, "patch.diff")), shell=True, check=True)
caught = {}
for p in props:
    r = subprocess.run(["python3", "/verif/check.py", p, "--tier", "quick"], capture_output=True, text=True, env=dict(os.environ, VERIF_REPO=scratch))
    lines = r.stdout.splitlines()
    viol = [l for l in lines if l.startswith("VIOLATION")]
    why = [l.strip()[3:].strip()[:260] for l in lines if l.strip().startswith("->")][:3]
    caught[p] = dict(exit=r.returncode, violations=len(viol), first_reports=why)
shutil.rmtree(scratch, ignore_errors=True)
out = dict(id=sid, property=meta.get("property", sid.split("_")[0]), origin="fresh sub-agent given only the property text and a scratch worktree",
           what_breaks=meta.get("what_breaks") or meta.get("change") or meta.get("summary"), needs_to_manifest=meta.get("needs_to_manifest"),
           kind_of_site=meta.get("kind_of_site"), files=conf.get("changed_files"),
           confirmed_by_me=dict(head=conf.get("head"), verdict=conf.get("verdict"), patch_applied=conf.get("applied"),
                                recompiled_test_objects=len(conf.get("recompiled_objects", [])),
                                relinked=[dict(exe=t["exe"], identical_output=t.get("identical_output"), summary=t.get("summary")) for t in conf.get("executables", []) if t.get("relinked")],
                                method=(conf.get("method_note", "") + "; " if conf.get("method_note") else "") + "confirm_seed2.py / confirm_combined.py: every test object whose ninja dependency record names a patched file is recompiled with its own command line against a worktree with the patch, the test executables are relinked with the untouched baseline objects and their complete output is compared with the baseline executables' output",
                                demo=conf.get("demo")),
           caught_by={p: ("check %s exits %d with %d VIOLATION line(s)" % (p, c["exit"], c["violations"])) for p, c in caught.items()},
           reports={p: c["first_reports"] for p, c in caught.items()},
           agent_meta=meta)
json.dump(out, open(os.path.join(dst, "meta.json"), "w"), indent=1)
print(sid, conf.get("verdict"), {p: c["exit"] for p, c in caught.items()})
