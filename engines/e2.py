"""E2: rules over the fact base extracted by /verif/bin/nmlint (DESIGN.md §2).

nmlint (tools/nmlint.cc) parses translation units with the real clang front end and prints, per
function body, canonical facts (returns, local initialisers, calls, dereferences, divisions,
assignments, loops) and - for instantiations - the dominating branch conditions of every fact.
The rules below are queries over those facts.  Nothing is executed.
"""
import os, re, json, subprocess, tempfile, shutil, time, glob, concurrent.futures as cf

VERIF = os.path.dirname(os.path.dirname(os.path.abspath(__file__)))
REPO = os.environ.get("VERIF_REPO", "/repo")
NMLINT = os.path.join(VERIF, "bin", "nmlint")
BASE_FLAGS = ["-std=gnu++17", "-w", "-DNDEBUG", "-DNMTOOLS_VERIF", "-I%s/include" % REPO]


def split_args(s):
    """split 'f(a,b(c,d),e)' argument text 'a,b(c,d),e' at top level"""
    out, depth, cur = [], 0, ""
    for ch in s:
        if ch in "([{<" and not (ch == "<" and (cur.endswith(" ") or cur == "")):
            depth += 1
        elif ch in ")]}>" and not (ch == ">" and (cur.endswith(" ") or cur.endswith("-"))):
            depth -= 1
        if ch == "," and depth == 0:
            out.append(cur); cur = ""
        else:
            cur += ch
    if cur != "":
        out.append(cur)
    return out


def parse_call(expr):
    """'callee(args)' -> (callee, [args]) or None"""
    if not expr.endswith(")"):
        return None
    depth = 0
    for i in range(len(expr) - 1, -1, -1):
        ch = expr[i]
        if ch == ")":
            depth += 1
        elif ch == "(":
            depth -= 1
            if depth == 0:
                callee = expr[:i]
                if not callee or callee[-1] in " +-*/%&|<>=!?:,(":
                    return None
                return callee, split_args(expr[i + 1:-1])
    return None


def gen_umbrella(subdirs, workdir, name, extra_lines=()):
    """a TU that includes every header below include/nmtools/<subdir> as it exists NOW"""
    lines = list(extra_lines)
    n = 0
    for sd in subdirs:
        root = os.path.join(REPO, "include")
        for p in sorted(glob.glob(os.path.join(root, sd, "**", "*.hpp"), recursive=True)):
            lines.append('#include "%s"' % os.path.relpath(p, root)); n += 1
    path = os.path.join(workdir, name)
    open(path, "w").write("\n".join(lines) + "\n")
    return path, n


def run_nmlint(tu, filters=(), prefixes=(), inst=False, cfg=False, flags=()):
    cmd = [NMLINT]
    if inst:
        cmd.append("--inst")
    if cfg:
        cmd.append("--cfg")
    for f in filters:
        cmd += ["--file-substr", f]
    for p in prefixes:
        cmd += ["--name-prefix", p]
    cmd += [tu, "--"] + BASE_FLAGS + list(flags)
    p = subprocess.run(cmd, capture_output=True, text=True)
    rows, summary = [], None
    for line in p.stdout.splitlines():
        if not line.startswith("{"):
            continue
        try:
            o = json.loads(line)
        except Exception:
            continue
        if o.get("summary"):
            summary = o
        else:
            rows.append(o)
    err = None
    if summary is None:
        err = "nmlint produced no summary for %s: %s" % (tu, p.stderr[-1500:])
    elif summary.get("errors", 0) > 0:
        err = "front end reported %d errors in %s: %s" % (summary["errors"], tu, p.stderr[-1500:])
    return rows, err, " ".join(cmd)


def relfile(path):
    i = path.find("/include/nmtools/")
    return path[i + 1:] if i >= 0 else path


def finding(rule, prop, row, construct, detail, line=None):
    return dict(rule=rule, property=prop, file=relfile(row["file"]), line=line or row["line"], function=row["fn"],
                instantiation=row.get("sig", ""), construct=construct, detail=detail)


# --------------------------------------------------------------------------------------------
# R-FWD (array part, C10): every eager wrapper forwards its own leading parameters, in order, to
# view::<its own name> and returns eval() of exactly that view with context/output/resolver.
# --------------------------------------------------------------------------------------------
EVAL_TAIL = ["nmtools::forward<context_t>($context)", "nmtools::forward<output_t>($output)", "$resolver"]

def _fwd_norm(x):
    """nmtools::forward<T>($p), std::forward<T>($p), static_cast<T&&>($p) (cast stripped by the canonicaliser) and a plain $p all hand
    the same object on: normalise to $p"""
    m = re.fullmatch(r"(?:nmtools|std)::forward<[^()]*>\((\$\w+)\)", x.strip())
    return m.group(1) if m else x.strip()


def load_table(name):
    return json.load(open(os.path.join(VERIF, "tools", name)))


def expected_view_name(row, aliases):
    fn = row["fn"]
    cls = row.get("class")
    short = fn.split("::")[-1]
    if cls and "::fn::" in cls + "::":
        op = cls.split("::")[-1]
        if short == "operator()":
            name = op
        else:
            name = short + "_" + op
    else:
        name = short
    return aliases.get(fn, aliases.get(name, name))


def rule_fwd_array(rows, prop):
    tbl = load_table("fwd_tables.json")
    aliases = tbl["array_view_alias"]
    exempt = tbl["array_exempt"]
    findings, instances, samples = [], 0, []
    for r in rows:
        if "fn" not in r or r.get("lambda"):
            continue
        names = [p["name"] for p in r["params"]]
        if "context" not in names:
            continue   # not an eager entry point (helper)
        if r["fn"] in exempt:
            continue
        instances += 1
        lead = r["params"][:names.index("context")]
        want = expected_view_name(r, aliases)
        locs = {f["a"]: f["b"] for f in r["facts"] if f["k"] == "local"}
        rets = [f for f in r["facts"] if f["k"] == "return"]
        # (1) every return evaluates the local view: eval(local | get<0>(local), forward(context), forward(output), resolver)
        ok_ret = bool(rets); view_local = None; why = "no return statement"
        for rt in rets:
            e = rt["a"]; i = e.find("eval(")
            pc = None
            if i >= 0:
                depth = 0
                for j in range(i + 4, len(e)):
                    if e[j] == "(":
                        depth += 1
                    elif e[j] == ")":
                        depth -= 1
                        if depth == 0:
                            pc = parse_call(e[i:j + 1]); break
            if not pc:
                ok_ret = False; why = "return does not evaluate a view: " + e; break
            a = pc[1]
            m = re.fullmatch(r"(?:nmtools::)?get<0>\((%\w+)\)", a[0]) if a else None
            first = m.group(1) if m else (a[0] if a else "")
            if len(a) != 4 or [_fwd_norm(x) for x in a[1:]] != [_fwd_norm(x) for x in EVAL_TAIL]:
                ok_ret = False; why = "eval() does not receive (view, forward(context), forward(output), resolver) in this order: " + e; break
            if re.match(r"(?:(?:::)?nmtools::)?view::", first) and parse_call(first):
                # the view call written inline in the return statement: treat it as an anonymous local
                locs["<inline>"] = first; first = "%<inline>"
            if not first.startswith("%") or first[1:] not in locs or (view_local and view_local != first[1:]):
                ok_ret = False; why = "eval() is not applied to the local view: " + a[0]; break
            view_local = first[1:]
        if not ok_ret or view_local is None:
            findings.append(finding("R-FWD.array.eval", prop, r, "return", why, rets[0].get("line") if rets else None)); continue
        # (2) the local is view::<own name>(leading params in order)
        init = locs[view_local]
        pc = parse_call(init)
        if not pc:
            findings.append(finding("R-FWD.array.view", prop, r, "local " + view_local, "evaluated object is not a call of a view: " + init)); continue
        callee, args = pc
        callee = re.sub(r"^(?:::)?nmtools::view::", "view::", callee)
        if callee != "view::" + want:
            findings.append(finding("R-FWD.array.view", prop, r, "local " + view_local, "wrapper for '%s' evaluates %s instead of view::%s" % (r["fn"], callee, want))); continue
        exp = []
        for p in lead:
            if p["name"]:
                exp.append("$" + p["name"])
            else:
                exp.append(re.sub(r"^const\s+|\s*&+$", "", p["type"]) + "{}")
        allowed = tbl["array_allowed_args"].get(r["fn"], [])
        exp_alt = [x if not x.endswith("{}") else "{}" for x in exp]
        if args != exp and args != exp_alt and args not in [a["args"] for a in allowed]:
            findings.append(finding("R-FWD.array.args", prop, r, init, "arguments forwarded to the view %s differ from the wrapper's leading parameters in order %s" % (args, exp))); continue
        if len(samples) < 6:
            samples.append("R-FWD.array %s: %s -> eval" % (r["fn"], init))
    return findings, instances, samples


# --------------------------------------------------------------------------------------------
# R-FWD (functional part, C14): every leaf functor callable forwards its pack unchanged to view::<own name>;
# the functor object binds the callable of its own name with the arity of the oracle table; the ufunc
# aliases bind the op type of the same name; get_function_t<view X> hands back functional::X.
# --------------------------------------------------------------------------------------------
FUN_CORE = ("functor.hpp", "function_composition.hpp", "compute_graph.hpp", "combinator.hpp", "/functional/ufunc/")

def base_op_name(t):
    """'nmtools::view::fun::add<>' / 'view::maximum_t<>' / 'nmtools::view::fun::relu' -> add / maximum / relu"""
    t = re.sub(r"<.*$", "", t.strip())
    t = t.split("::")[-1]
    return re.sub(r"_t$", "", t)


def rule_fwd_functional(rows, prop):
    tbl = load_table("fwd_tables.json")
    arity = load_table("functional_arity.json")["arity"]
    allowed = tbl["functional_allowed_returns"]
    findings, samples = [], []
    n_call = n_var = n_alias = n_get = 0
    leaf = [r for r in rows if not any(c in r["file"] for c in FUN_CORE)]
    # (a) callables
    for r in leaf:
        if "fn" not in r:
            continue
        nm = r.get("lambda_var") or r["fn"]
        short = nm.split("::")[-1]
        rets = [f["a"] for f in r["facts"] if f["k"] == "return"]
        if "get_function_t<" in r["fn"]:
            if r.get("lambda"):
                continue
            # get_function_t<decorator_t<view::X_t,...>>::operator() returns functional::X (possibly with [attributes])
            m = re.search(r"get_function_t<decorator_t<(?:nmtools::)?view::(\w+?)_t\b(?:, (?:nmtools::)?view::fun::(\w+))?", r["fn"])
            if not m:
                continue
            n_get += 1
            want = m.group(2) or m.group(1)
            okset = tbl["get_function_alias"].get(want, [want])
            for e in rets:
                names = set(re.findall(r"nmtools::functional::(\w+)", e))
                if not names or not names <= set(okset):
                    findings.append(finding("R-FWD.functional.get_function", prop, r, e, "function extracted from view::%s_t is %s, expected functional::%s" % (m.group(1), sorted(names), okset)))
            continue
        if short == "operator()":
            owner = nm.split("::")[-2]
        elif r.get("lambda") and r.get("lambda_var", "").startswith("nmtools::functional::") and short.endswith("_fun"):
            owner = short
        else:
            continue
        if "to_string_t" in nm or "fmap_t" in owner:
            if owner not in allowed:
                continue
        base = re.sub(r"(_t|_fun)$", "", owner)
        n_call += 1
        params = [p["name"] + ("..." if p["pack"] else "") for p in r["params"]]
        exp = "view::%s(%s)" % (base, ",".join("$" + p for p in params))
        alt = allowed.get(owner, allowed.get(base))
        if not rets:
            findings.append(finding("R-FWD.functional.call", prop, r, "body", "functor callable returns nothing")); continue
        locs_ = {f["a"]: f["b"] for f in r["facts"] if f["k"] == "local"}
        for e in rets:
            # a single-definition local holding the call, and a fully qualified spelling of the same view, are the same forwarding
            e_n = e
            m_ = re.fullmatch(r"%(\w+)", e_n.strip())
            if m_ and m_.group(1) in locs_:
                e_n = locs_[m_.group(1)]
            e_n = re.sub(r"^(?:::)?nmtools::view::", "view::", e_n.strip())
            if e_n == exp or (alt and (e in [a["ret"] for a in alt] or e_n in [a["ret"] for a in alt])):
                continue
            findings.append(finding("R-FWD.functional.call", prop, r, e, "functor callable '%s' returns %s, expected %s (pack forwarded unchanged to the view of the same name)" % (owner, e, exp)))
        if len(samples) < 4:
            samples.append("R-FWD.functional %s: %s" % (owner, rets[0]))
    # (b) functor objects
    for r in leaf:
        if "var" not in r:
            continue
        name = r["var"].split("::")[-1]
        if not r["var"].startswith("nmtools::functional::") or r["var"].count("::") != 2:
            continue
        if not r["type"].startswith("const functor_t<") and "functor_t<" not in r["type"]:
            continue
        n_var += 1
        m = re.search(r"fmap_t<(.+), (\d+), (\d+)>, (?:meta::)?empty_operands_t", r["type"])
        if not m:
            if name in tbl["functional_custom_fmap"]:
                continue
            findings.append(finding("R-FWD.functional.object", prop, dict(fn=r["var"], file=r["file"], line=r["line"]), r["type"], "functor object does not bind an fmap_t")); continue
        fnt, ar = m.group(1), int(m.group(2))
        mm = re.match(r"(?:nmtools::functional::)?fun::(broadcast_binary_ufunc|unary_ufunc|binary_ufunc|ufunc|reduce|outer|accumulate)<(.+)>$", fnt)
        if mm:
            kind, op = mm.group(1), base_op_name(mm.group(2))
            bound = op if kind.endswith("ufunc") else kind + "_" + op
        elif "(lambda)" in fnt:
            mi = re.search(r"nmtools::functional::(\w+)_fun\b", r["init"])
            bound = mi.group(1) if mi else "?"
        else:
            bound = base_op_name(fnt)
        if bound != name:
            findings.append(finding("R-FWD.functional.object", prop, dict(fn=r["var"], file=r["file"], line=r["line"]), fnt, "functional::%s binds the callable of '%s'" % (name, bound)))
        want = arity.get(name)
        if want is None:
            findings.append(finding("R-FWD.functional.arity", prop, dict(fn=r["var"], file=r["file"], line=r["line"]), fnt, "functional::%s has no entry in the arity oracle (tools/functional_arity.json)" % name))
        elif want != ar:
            findings.append(finding("R-FWD.functional.arity", prop, dict(fn=r["var"], file=r["file"], line=r["line"]), fnt, "functional::%s takes %d array operands, the oracle says %d" % (name, ar, want)))
    # (c) op aliases  fun::X = fun::KIND<view::X_t<>>
    for r in leaf:
        if "alias" not in r or "::fun::" not in r["alias"]:
            continue
        name = r["alias"].split("::")[-1]
        mm = re.match(r"(?:nmtools::functional::)?fun::(broadcast_binary_ufunc|unary_ufunc|binary_ufunc|ufunc|reduce|outer|accumulate)<(.+)>$", r["type"])
        if not mm:
            continue
        n_alias += 1
        kind, op = mm.group(1), base_op_name(mm.group(2))
        bound = op if kind.endswith("ufunc") else kind + "_" + op
        if bound != name:
            findings.append(finding("R-FWD.functional.alias", prop, dict(fn=r["alias"], file=r["file"], line=r["line"]), r["type"], "alias fun::%s binds %s of op '%s'" % (name, kind, op)))
    inst = {"R-FWD.functional.call": n_call, "R-FWD.functional.object": n_var, "R-FWD.functional.alias": n_alias, "R-FWD.functional.get_function": n_get}
    return findings, inst, samples


def rule_order(rows, prop):
    """R-ORDER: operand / functor order facts of the functor machinery (tools/order_tables.json)"""
    facts_tbl = load_table("order_tables.json")["facts"]
    findings, n, samples = [], 0, []
    hit = [0] * len(facts_tbl)
    for r in rows:
        if "fn" not in r:
            continue
        for k, of in enumerate(facts_tbl):
            if of["fn"] not in r["fn"]:
                continue
            if of["fn"] == "nmtools::functional::operator*" and r["fn"] != of["fn"]:
                continue
            callees = of["callee"].split("|")
            for f in r["facts"]:
                if f["k"] != "call":
                    continue
                cal = re.sub(r"<.*$", "", f["a"])
                if cal not in callees:
                    continue
                pc = parse_call(f["b"])
                if not pc:
                    continue
                args = pc[1]
                def pos(root):
                    for i, a_ in enumerate(args):
                        if root in a_:
                            return i
                    return None
                i1, i2 = pos(of["first"]), pos(of["second"])
                if i1 is None or i2 is None:
                    continue
                n += 1; hit[k] += 1
                if not i1 < i2:
                    findings.append(finding("R-ORDER", prop, r, f["b"], "%s passes %s before %s: %s" % (cal, of["second"], of["first"], of["reason"]), f.get("line")))
                elif len(samples) < 3:
                    samples.append("R-ORDER %s" % f["b"][:100])
    broken = ["R-ORDER: order fact %d (%s in %s) matched no call site (anchor vanished)" % (k, facts_tbl[k]["callee"], facts_tbl[k]["fn"]) for k in range(len(facts_tbl)) if hit[k] == 0]
    return findings, n, samples, broken


COMBINATORS = ("swap", "dig", "bury", "rotate", "dup")

def rule_extractpos(rows, prop):
    """R-EXTRACTPOS (C14): get_function_composition folds the sub-compositions of ALL operand positions into one chain
    (`init * get_function_composition(operand)` with operand = at(operands, (N-1)-I)). By the order facts of R-ORDER a chain
    f * g applies g to the LEADING operands and puts its result first, and get_function_operands collects the leaves left to
    right; so a sub-composition taken from an operand position other than 0 consumes leaves that belong to operand 0.
    Every such composition step therefore has to be tied to the operand position: a constexpr guard on the position
    (r_index / I) or a position-moving combinator (swap/dig/bury/...) in the same fold body."""
    findings, n, samples, broken = [], 0, [], []
    seen = 0
    for r in rows:
        fn = r.get("fn", "")
        if "get_function_composition_t<" not in fn or "(lambda@" not in fn:
            continue
        seen += 1
        facts = r["facts"]
        # the operand is selected by a position that ranges over every index
        ranged = any(f["k"] == "local" and f["a"] == "r_index" and "I" in f["b"] for f in facts) or \
                 any(f["k"] == "call" and re.search(r"at\(%operands,\s*%?(r_index|\$index|I)\b", f.get("b", "")) for f in facts)
        guards = [f["a"] for f in facts if f["k"] in ("ifconstexpr", "if") and re.search(r"\b(r_index|I)\b\s*(==|!=|<|>)|\b(==|!=|<|>)\s*(r_index|I)\b", f["a"])]
        combin = [f["a"] for f in facts if f["k"] == "call" and re.sub(r"<.*$", "", f["a"]).split("::")[-1] in COMBINATORS]
        for f in facts:
            if f["k"] != "return":
                continue
            m = re.match(r"^\(\$init \* (.+)\)$", f["a"].strip())
            if not m:
                continue
            n += 1
            if ranged and not guards and not combin:
                findings.append(finding("R-EXTRACTPOS", prop, r, f["a"],
                    "sub-composition of an operand at ANY position is chained as `init * sub`: the chain applies `sub` to the leading "
                    "extracted operands, which are the leaves of operand 0 (no position guard, no swap/dig/bury in this fold)", f.get("line")))
            elif len(samples) < 2:
                samples.append("R-EXTRACTPOS %s guarded by %s" % (f["a"][:60], (guards + combin)[:1]))
    if seen == 0:
        broken.append("R-EXTRACTPOS: no fold lambda of get_function_composition_t found (anchor vanished)")
    return findings, n, samples, broken


def rule_getfn_attrs(rows, prop):
    """R-GETFN.attrs: get_function_t<view X>::operator() re-creates the functor of a view from the view's own attribute members
    (`functional::X[view.a][view.b]...`). Sibling branches of one specialisation must bind the same sequence of members, and when
    the view type publishes attributes() the bound members are exactly the members listed there: an attribute that is not bound
    is silently replaced by the functor's default when the function is re-applied (kernels, function composition)."""
    findings, n, samples = [], 0, []
    attrs = {}
    for r in rows:
        if "fn" in r and r["fn"].endswith("::attributes") and "/view/" in r["file"] and not r.get("lambda"):
            m = re.match(r"nmtools::view::(\w+)_t\b", r["fn"])
            rets = [f["a"] for f in r["facts"] if f["k"] == "return"]
            if m and rets:
                attrs.setdefault(m.group(1), set()).update(re.findall(r"this\.(\w+)", rets[0]))
    seen = 0
    for r in rows:
        if "fn" not in r or "get_function_t<" not in r["fn"] or r.get("lambda") or not r["fn"].endswith("operator()"):
            continue
        seen += 1
        rets = [f for f in r["facts"] if f["k"] == "return"]
        seqs = []
        for rt in rets:
            if "this.view.attributes()" in rt["a"]:
                seqs.append(("<attributes()>",)); continue
            seqs.append(tuple(re.findall(r"this\.view\.(\w+)\[", rt["a"])))
        if not seqs:
            continue
        n += 1
        if len(set(seqs)) > 1:
            findings.append(finding("R-GETFN.attrs", prop, r, " | ".join(rt["a"][:90] for rt in rets),
                "branches of one get_function_t bind different attribute members %s: the branch with fewer members re-creates the function with a defaulted attribute" % sorted(set(seqs)), rets[0].get("line")))
            continue
        m = re.search(r"get_function_t<decorator_t<(?:nmtools::)?view::(\w+?)_t\b", r["fn"])
        if m and m.group(1) in attrs and seqs[0] != ("<attributes()>",) and seqs[0]:
            want = set(a for a in attrs[m.group(1)] if a not in ("op",))
            if set(seqs[0]) != want:
                findings.append(finding("R-GETFN.attrs", prop, r, rets[0]["a"][:120], "binds members %s, but view::%s_t::attributes() lists %s" % (sorted(seqs[0]), m.group(1), sorted(want)), rets[0].get("line")))
        if len(samples) < 2:
            samples.append("R-GETFN.attrs %s binds %s" % (r["fn"][:70], seqs[0]))
    broken = [] if seen else ["R-GETFN.attrs: no get_function_t specialisation found (anchor vanished)"]
    return findings, n, samples, broken


def comp_getfn(prop, tier, comp, work):
    t0 = time.time()
    tu, n = gen_umbrella(["nmtools/array/functional"], work, "umb_fun2.cpp")
    rows, err, cmd = run_nmlint(tu, filters=["include/nmtools/array/functional/", "include/nmtools/array/view/"])
    out = dict(broken=[], units=n, functions=len(rows), cmd=cmd)
    if err:
        out["broken"].append(err); return out
    f, k, samples, b = rule_getfn_attrs(rows, prop)
    out["broken"] += b
    out.update(findings=f, instances={"R-GETFN.attrs": k}, evaluations=k, distinct_nontrivial=k - len(f), samples=samples, wall_s=round(time.time() - t0, 2))
    return out


def comp_fwd_functional(prop, tier, comp, work):
    t0 = time.time()
    tu, n = gen_umbrella(["nmtools/array/functional"], work, "umb_fun.cpp")
    rows, err, cmd = run_nmlint(tu, filters=["include/nmtools/array/functional/"])
    out = dict(broken=[], units=n, functions=len(rows), cmd=cmd)
    if err:
        out["broken"].append(err); return out
    f, inst, samples = rule_fwd_functional(rows, prop)
    f5, n5, s5, b5 = rule_order(rows, prop)
    f += f5; inst["R-ORDER"] = n5; samples += s5; out["broken"] += b5
    f6, n6, s6, b6 = rule_extractpos(rows, prop)
    f += f6; inst["R-EXTRACTPOS"] = n6; samples += s6; out["broken"] += b6
    tot = sum(inst.values())
    out.update(findings=f, instances=inst, evaluations=tot, distinct_nontrivial=tot - len(f), samples=samples, wall_s=round(time.time() - t0, 2))
    return out


# --------------------------------------------------------------------------------------------
# R-UFOP / R-UFWD (C07): the scalar operation behind every ufunc name equals the oracle table
# (tools/ufunc_table.json), operands in order; view::X / reduce_X / accumulate_X / outer_X pass
# their operands in order to the ufunc constructor with the op type of the same name.
# --------------------------------------------------------------------------------------------
def subst_locals(expr, locs, depth=0):
    if depth > 6:
        return expr
    def rep(m):
        n = m.group(1)
        return subst_locals(locs[n], locs, depth + 1) if n in locs and locs[n] != "" else m.group(0)
    return re.sub(r"%(\w+)", rep, expr)


def op_name_of(fn):
    m = re.match(r"nmtools::view::fun::(\w+)", fn)
    if m:
        return m.group(1)
    m = re.match(r"nmtools::view::(\w+?)_t\b", fn)
    return m.group(1) if m else None


def single_def_locals(r):
    """locals with exactly one definition and no later assignment"""
    locs = {}
    assigned = set(re.sub(r"^%", "", f["a"]) for f in r["facts"] if f["k"] == "assign" and f["a"].startswith("%"))
    for f in r["facts"]:
        if f["k"] == "local" and f["a"] not in assigned:
            locs[f["a"]] = f["b"]
    return locs, assigned



def _cmp_orient(e):
    """orient every parenthesised comparison `(A > B)` / `(A >= B)` as `(B < A)` / `(B <= A)` (the canonical expression strings of nmlint
    parenthesise every binary operation), so that a mirrored spelling of the same comparison compares equal"""
    out = []; i = 0
    while i < len(e):
        if e[i] != "(":
            out.append(e[i]); i += 1; continue
        d = 0; j = i
        while j < len(e):
            if e[j] == "(": d += 1
            elif e[j] == ")":
                d -= 1
                if d == 0: break
            j += 1
        if j >= len(e):
            out.append(e[i:]); break
        inner = _cmp_orient(e[i + 1:j])
        # a depth-0 ` > ` / ` >= ` in the inner text
        d = 0; pos = None
        for k in range(len(inner)):
            c = inner[k]
            if c in "([{<" and not (c == "<" and inner[k - 1:k + 2] in (" < ", " <=")): d += (c != "<")
            elif c in ")]}": d -= 1
            elif d == 0 and inner[k:k + 3] == " > ": pos = (k, 3, " < "); break
            elif d == 0 and inner[k:k + 4] == " >= ": pos = (k, 4, " <= "); break
        if pos and " ? " not in inner[:pos[0]]:
            A, B = inner[:pos[0]], inner[pos[0] + pos[1]:]
            # B must not continue into another depth-0 operator that binds looser (ternary): nmlint parenthesises, so B is one operand
            if " ? " not in B:
                inner = B + pos[2] + A
        out.append("(" + inner + ")"); i = j + 1
    return "".join(out)

def rule_ufop(rows, prop):
    table = load_table("ufunc_table.json")["ops"]
    skip = load_table("ufunc_table.json")["not_covered"]
    gtab = set(k.split("::")[0] for k in load_table("ufunc_table.json").get("guarded_ops", {}))
    findings, samples, seen = [], [], {}
    for r in rows:
        if "fn" not in r or not r["fn"].endswith("operator()") or "to_string" in r["fn"]:
            continue
        name = op_name_of(r["fn"])
        if not name or name in skip or name in gtab:
            continue   # multi-statement ops are decided on their instantiation (R-UFOP.guarded)
        locs, assigned = single_def_locals(r)
        rets = [subst_locals(f["a"], locs) for f in r["facts"] if f["k"] == "return"]
        params = [p["name"] for p in r["params"]]
        # canonical parameter names by position
        def canon(e):
            for i, pn in enumerate(params):
                e = re.sub(r"\$" + re.escape(pn) + r"\b", "$%d" % i, e)
            return e
        rets = [canon(e) for e in rets]
        seen.setdefault(name, 0)
        seen[name] += 1
        if name not in table:
            findings.append(finding("R-UFOP", prop, r, "operator()", "ufunc op '%s' has no entry in the scalar-operation oracle (tools/ufunc_table.json)" % name)); continue
        for e in rets:
            if "error::" in e:
                continue
            if e not in table[name]["cores"] and _cmp_orient(e) not in [_cmp_orient(c) for c in table[name]["cores"]]:
                findings.append(finding("R-UFOP", prop, r, e, "scalar operation of ufunc '%s' is %s, the oracle says %s" % (name, e, table[name]["cores"])))
        if len(samples) < 5 and rets:
            samples.append("R-UFOP %s: %s" % (name, rets[0]))
    missing = [n for n in table if n not in seen]
    broken = ["R-UFOP: oracle entries without an op in the tree (anchor vanished): %s" % missing] if missing else []
    return findings, sum(seen.values()), samples, broken


UF_CTORS = ("broadcast_binary_ufunc", "unary_ufunc", "binary_ufunc", "ufunc", "reduce", "accumulate", "outer")

def rule_ufwd(rows, prop):
    tbl = load_table("ufunc_table.json")
    exempt = tbl["forwarding_exempt"]
    findings, samples, n = [], [], 0
    for r in rows:
        if "fn" not in r or r.get("lambda") or "/view/ufuncs/" not in r["file"]:
            continue
        m = re.fullmatch(r"nmtools::view::(reduce_|accumulate_|outer_)?(\w+)", r["fn"])
        if not m:
            continue
        kind, name = m.group(1) or "", m.group(2)
        stem = os.path.basename(r["file"])[:-4]
        if name != stem or r["fn"] in exempt or name in exempt:
            continue
        n += 1
        aliases = {f["a"]: f["b"] for f in r["facts"] if f["k"] == "alias"}
        locs, _ = single_def_locals(r)
        named = ["$" + p["name"] for p in r["params"] if p["name"]]
        rets = [f for f in r["facts"] if f["k"] == "return"]
        if not rets:
            findings.append(finding("R-UFWD", prop, r, "body", "no return")); continue
        for rt in rets:
            e = subst_locals(rt["a"], {k: v for k, v in locs.items() if parse_call(v)})
            pc = parse_call(e)
            if not pc:
                findings.append(finding("R-UFWD", prop, r, e, "does not return a ufunc construction", rt.get("line"))); continue
            callee, args = pc
            want_ctor = {"": ("broadcast_binary_ufunc", "unary_ufunc", "binary_ufunc", "ufunc"), "reduce_": ("reduce",), "accumulate_": ("accumulate",), "outer_": ("outer",)}[kind]
            if callee == kind + name or callee == "nmtools::view::" + kind + name or callee == tbl["forwarding_alias"].get(r["fn"]):
                rest = args     # delegation to a fuller overload of itself (or to the function it is defined as)
            elif callee in want_ctor:
                op = args[0] if args else ""
                opt = re.sub(r"\{.*$", "", op)
                opt = aliases.get(opt, opt)
                if base_op_name(opt) != name:
                    findings.append(finding("R-UFWD", prop, r, e, "view::%s%s constructs the ufunc with op type '%s'" % (kind, name, opt), rt.get("line"))); continue
                rest = args[1:]
            else:
                findings.append(finding("R-UFWD", prop, r, e, "view::%s%s returns %s(...), expected one of %s or a delegation to itself" % (kind, name, callee, list(want_ctor)), rt.get("line"))); continue
            if "$attributes" in named and any(x.startswith("$attributes.") for x in rest):
                i = named.index("$attributes")
                want_fields = ["$attributes.axis", "$attributes.dtype", "$attributes.initial", "$attributes.keepdims"]
                exp = named[:i] + want_fields + named[i + 1:]
                if rest != exp:
                    findings.append(finding("R-UFWD", prop, r, e, "attribute fields passed %s, expected %s" % (rest, exp), rt.get("line")))
                continue
            k = len(named)
            head, tail = rest[:k], rest[k:]
            if head != named or any(t.startswith("$") for t in tail):
                findings.append(finding("R-UFWD", prop, r, e, "operands passed %s differ from the parameters in order %s" % (rest, named), rt.get("line")))
        if len(samples) < 4:
            samples.append("R-UFWD %s: %s" % (r["fn"], rets[0]["a"]))
    return findings, n, samples


def guarded_effects(r):
    """ordered canonical effect list of an instantiated function: locals, guarded assignments, guarded returns"""
    params = [p_["name"] for p_ in r["params"]]
    lnames = []
    for f in r["facts"]:
        if f["k"] == "local" and f["a"] not in lnames:
            lnames.append(f["a"])
    def canon(e):
        for i, pn in enumerate(params):
            e = re.sub(r"\$" + re.escape(pn) + r"\b", "$%d" % i, e)
        for i, ln in enumerate(lnames):      # locals by order of definition: renaming a local changes nothing
            e = re.sub(r"%" + re.escape(ln) + r"\b", "%%L%d" % i, e)
        return e
    out = []
    for f in r["facts"]:
        if f["k"] not in ("local", "assign", "return"):
            continue
        # a guard is (condition, polarity): negations are peeled into the polarity and comparisons oriented, so `if (!(x > t)) A else B`
        # and `if (x > t) B else A` yield the same guarded effects (found by the benign screen: B2_b16 on softplus)
        def _g(g):
            c, pol = _strip_not(canon(g["cond"]), g["pol"])
            while _wraps_whole(c) and _wraps_whole(c[1:-1].strip()):
                c = c[1:-1].strip()
            return "%s%s" % ("" if pol == 1 else "!", _cmp_orient(c))
        gs = sorted(set(_g(g) for g in expand_guards(f.get("g", []))))
        gtxt = (" @ " + " & ".join(gs)) if gs else ""
        if f["k"] == "local":
            out.append("let %s = %s" % (canon("%" + f["a"]), canon(f["b"])))
        elif f["k"] == "assign":
            out.append("%s %s %s%s" % (canon(f["a"]), f["c"] or "=", canon(f["b"]), gtxt))
        else:
            out.append("return %s%s" % (canon(f["a"]), gtxt))
    return out


def _renorm_effect(e):
    """bring the guard part of a stored / extracted effect `<effect> @ g1 & g2` into the canonical (polarity, oriented condition) form"""
    if " @ " not in e:
        return e
    head, gtxt = e.split(" @ ", 1)
    gs = []
    for g in gtxt.split(" & "):
        c, pol = _strip_not(g, 1)
        while _wraps_whole(c) and _wraps_whole(c[1:-1].strip()):
            c = c[1:-1].strip()
        gs.append("%s%s" % ("" if pol == 1 else "!", _cmp_orient(c)))
    return head + " @ " + " & ".join(sorted(set(gs)))


def rule_ufop_guarded(rows, prop):
    """multi-statement scalar ops: compare the guarded effect list of the instantiated call operator / eval helper with the oracle"""
    tbl = load_table("ufunc_table.json")["guarded_ops"]
    findings, samples, seen = [], [], set()
    for r in rows:
        if "fn" not in r or not r.get("cfg") or not (r["fn"].endswith("operator()") or r["fn"].endswith("::eval")):
            continue
        name = op_name_of(r["fn"])
        if not name:
            continue
        key = name + ("::eval" if r["fn"].endswith("::eval") else "")
        if key in seen:
            continue
        seen.add(key)
        eff = guarded_effects(r)
        if key not in tbl:
            findings.append(finding("R-UFOP.guarded", prop, r, key, "multi-statement op '%s' has no entry in the guarded-effects oracle (tools/ufunc_table.json)" % key)); continue
        # locals and assignments are compared in order, guarded returns as a set (their guards are mutually exclusive, so the order in which
        # the arms are written carries no meaning)
        def _split(effs):
            effs = [_renorm_effect(e) for e in effs]
            return [e for e in effs if not e.startswith("return ")], sorted(e for e in effs if e.startswith("return "))
        if _split(eff) != _split(tbl[key]["effects"]):
            diff = [e for e in eff if e not in tbl[key]["effects"]] or eff
            findings.append(finding("R-UFOP.guarded", prop, r, "; ".join(diff)[:300], "piecewise definition of '%s' is %s; the reviewed definition is %s" % (key, eff, tbl[key]["effects"])))
        if len(samples) < 3:
            samples.append("R-UFOP.guarded %s: %s" % (key, "; ".join(eff)[:200]))
    missing = [k for k in tbl if k not in seen]
    broken = ["R-UFOP.guarded: oracle entries not instantiated by drivers/ufunc_inst.cpp: %s" % missing] if missing else []
    return findings, len(seen), samples, broken


def rule_ufapply(rows, prop):
    """R-UFAPPLY: the ufunc views apply op to the operands in tuple order, one element each."""
    findings, n, samples = [], 0, []
    for r in rows:
        if "fn" not in r:
            continue
        fn = r["fn"]
        locs, _ = single_def_locals(r)
        rets = [subst_locals(f["a"], locs) for f in r["facts"] if f["k"] == "return"]
        params = [p["name"] for p in r["params"]]
        if re.fullmatch(r"nmtools::view::(scalar_)?ufunc_t::apply_at", fn) and params[:2] == ["op", "array"]:
            n += 1
            for e in rets:
                pc = parse_call(e)
                ok = pc and pc[0] == "$op" and len(pc[1]) == 1 and pc[1][0].endswith("...") and "nmtools::get<Is>($array)" in pc[1][0] and pc[1][0].count("get<") == 1
                if not ok:
                    findings.append(finding("R-UFAPPLY", prop, r, e, "ufunc element is not op(element of operand Is ...) with the operand pack expanded once, in order"))
            samples.append("R-UFAPPLY %s: %s" % (fn, rets[0] if rets else ""))
        elif fn == "nmtools::view::ufunc_t::operator()":
            n += 1
            for e in rets:
                pc = parse_call(e)
                if not (pc and pc[0].endswith("apply_at") and pc[1][:2] == ["this.op", "this.array"] and pc[1][2] == "pack_indices($indices...)"):
                    findings.append(finding("R-UFAPPLY", prop, r, e, "ufunc_t::operator() does not apply this.op to this.array at the packed indices"))
        elif fn == "nmtools::view::outer_t::operator()":
            n += 1
            for e in rets:
                pc = parse_call(e)
                ok = pc and pc[0] == "this.op" and len(pc[1]) == 2 and "nmtools::get<0>(this.array)" in pc[1][0] and "get<1>" not in pc[1][0] \
                    and "nmtools::get<1>(this.array)" in pc[1][1] and "get<0>" not in pc[1][1]
                if not ok:
                    findings.append(finding("R-UFAPPLY", prop, r, e, "outer element is not op(element of operand 0, element of operand 1)"))
    return findings, n, samples


def comp_ufunc(prop, tier, comp, work):
    t0 = time.time()
    tu, n = gen_umbrella(["nmtools/array/view/ufuncs", "nmtools/array/view/activations"], work, "umb_uf.cpp")
    rows, err, cmd = run_nmlint(tu, filters=["include/nmtools/array/view/ufuncs/", "include/nmtools/array/view/activations/"])
    out = dict(broken=[], units=n, functions=len(rows), cmd=cmd)
    if err:
        out["broken"].append(err); return out
    f1, n1, s1, b1 = rule_ufop(rows, prop)
    f2, n2, s2 = rule_ufwd(rows, prop)
    out["broken"] += b1
    tu2 = os.path.join(work, "umb_ufc.cpp"); open(tu2, "w").write('#include "nmtools/array/view/ufunc.hpp"\n')
    rows2, err2, _ = run_nmlint(tu2, filters=["include/nmtools/array/view/ufunc/"])
    if err2:
        out["broken"].append(err2); return out
    f3, n3, s3 = rule_ufapply(rows2, prop)
    out["functions"] += len(rows2)
    rows3, err3, _ = run_nmlint(os.path.join(VERIF, "drivers", "ufunc_inst.cpp"), filters=["/view/activations/", "/view/ufuncs/clip"], inst=True, cfg=True)
    if err3:
        out["broken"].append(err3); return out
    f4, n4, s4, b4 = rule_ufop_guarded(rows3, prop)
    out["broken"] += b4; out["functions"] += len(rows3)
    f3 = f3 + f4; s3 = s3[:2] + s4
    out.update(findings=f1 + f2 + f3, instances={"R-UFOP": n1, "R-UFWD": n2, "R-UFAPPLY": n3, "R-UFOP.guarded": n4}, evaluations=n1 + n2 + n3 + n4, distinct_nontrivial=n1 + n2 + n3 + n4 - len(f1 + f2 + f3), samples=s1 + s2 + s3, wall_s=round(time.time() - t0, 2))
    return out


def comp_ufwd_reduce(prop, tier, comp, work):
    """R-UFWD restricted to the reduce_X / accumulate_X / outer_X overload families of view/ufuncs (C08): every overload hands its
    own parameters on, in order, to the fuller overload of itself or to reduce/accumulate/outer with the op type of its own name;
    defaulted trailing arguments are constants, never a parameter dropped or replaced"""
    t0 = time.time()
    tu, n = gen_umbrella(["nmtools/array/view/ufuncs"], work, "umb_uf_red.cpp")
    rows, err, cmd = run_nmlint(tu, filters=["include/nmtools/array/view/ufuncs/"])
    out = dict(broken=[], units=n, functions=len(rows), cmd=cmd)
    if err:
        out["broken"].append(err); return out
    rows = [r for r in rows if "fn" in r and re.fullmatch(r"nmtools::view::(reduce_|accumulate_|outer_)\w+", r["fn"])]
    f, k, samples = rule_ufwd(rows, prop)
    for x in f:
        x["rule"] = "R-UFWD.reduce"
    out.update(findings=f, instances={"R-UFWD.reduce": k}, evaluations=k, distinct_nontrivial=k - len(f), samples=samples, wall_s=round(time.time() - t0, 2))
    return out


# --------------------------------------------------------------------------------------------
# R-KSIB (C13): sibling kernel entry points (CUDA, HIP) rebuild the output from (pointer, shape, dim),
# re-apply the function to the operands and call the shared guarded body assign_result with
# thread/block/block-size taken from the vendor builtins of the same meaning.
# --------------------------------------------------------------------------------------------
KERNELS = [
    dict(name="nm_cuda_run_function", header="nmtools/array/eval/cuda/context.hpp"),
    dict(name="nm_hip_run_function", header="nmtools/array/eval/hip/context.hpp"),
]
KS_WANT = {"thread_id": "threadIdx.x,0,0", "block_id": "blockIdx.x,0,0", "block_size": "blockDim.x,1,1"}

def comp_ksib(prop, tier, comp, work):
    t0 = time.time()
    out = dict(broken=[], findings=[], units=0, functions=0, samples=[])
    n = 0
    stub = os.path.join(VERIF, "stubs")
    for k in KERNELS:
        tu = os.path.join(work, k["name"] + ".cpp"); open(tu, "w").write('#include "%s"\n' % k["header"])
        # host-API calls of the vendor runtime are not declared by the stubs: front-end errors after the kernel template are expected here
        cmd = [NMLINT, "--name-prefix", k["name"], tu, "--"] + BASE_FLAGS + ["-I" + stub, "-include", os.path.join(stub, "cuda_stub.hpp")]
        p = subprocess.run(cmd, capture_output=True, text=True)
        rows = [json.loads(l) for l in p.stdout.splitlines() if l.startswith('{"fn"')]
        out["units"] += 1; out["cmd"] = " ".join(cmd)
        if len(rows) != 1:
            out["broken"].append("R-KSIB: kernel entry %s not found in %s (anchor vanished or header no longer parses)" % (k["name"], k["header"])); continue
        r = rows[0]; out["functions"] += 1; n += 1
        locs = {f["a"]: f["b"] for f in r["facts"] if f["k"] == "local"}
        calls = [f for f in r["facts"] if f["k"] == "call" and f["a"].endswith("assign_result")]
        stores = [f for f in r["facts"] if f["k"] == "assign" and ("$out" in f["a"])]
        if len(calls) != 1:
            out["findings"].append(finding("R-KSIB", prop, r, "body", "kernel entry does not call the shared per-thread body assign_result exactly once (%d calls)" % len(calls))); continue
        pc = parse_call(calls[0]["b"])
        args = pc[1] if pc else []
        if len(args) != 5 or not all(a.startswith("%") for a in args):
            out["findings"].append(finding("R-KSIB", prop, r, calls[0]["b"], "assign_result is not called with (output, result, thread_id, block_id, block_size) locals")); continue
        o, res, th, bl, bs = [a[1:] for a in args]
        if "create_mutable_array" not in locs.get(o, "") or "($out,$out_shape_ptr,$out_dim)" not in locs.get(o, ""):
            out["findings"].append(finding("R-KSIB", prop, r, locs.get(o, ""), "output is not rebuilt from the (pointer, shape, dim) triple of the kernel arguments"))
        if not re.search(r"apply\(\$fun,\$operands\)$", locs.get(res, "")):
            out["findings"].append(finding("R-KSIB", prop, r, locs.get(res, ""), "result is not the function re-applied to the operands"))
        for var, role in ((th, "thread_id"), (bl, "block_id"), (bs, "block_size")):
            init = locs.get(var, "")
            if not init.endswith("{{" + KS_WANT[role] + "}}"):
                out["findings"].append(finding("R-KSIB", prop, r, init, "%s passed to assign_result is initialised from %s, expected {%s}" % (role, init, KS_WANT[role])))
        for st in stores:
            out["findings"].append(finding("R-KSIB", prop, r, st["a"], "kernel entry writes the output buffer outside the guarded body"))
        out["samples"].append("R-KSIB %s: %s" % (k["name"], calls[0]["b"]))
    out.update(instances={"R-KSIB": n}, evaluations=n, distinct_nontrivial=n - len(out["findings"]), wall_s=round(time.time() - t0, 2))
    return out


# --------------------------------------------------------------------------------------------
# R-SIMDRANGE / R-SIMDID (C12), on instantiations of the SIMD evaluator with CFG guards:
#  * every packed load/store &p[i] with the loop counter i is reached only through the true edge of (i + N) <= size,
#    N = register width / element width, size = element count; every scalar tail access p[i] only through i < size;
#  * the accumulator registers of a reduction are seeded with the identity of the reduction op
#    (all identity sources of one instantiation agree, a literal is not accepted).
# --------------------------------------------------------------------------------------------
def _norm(c):
    return c.replace(" ", "")

def _wraps_whole(c):
    if not (c.startswith("(") and c.endswith(")")):
        return False
    depth = 0
    for k, ch in enumerate(c):
        depth += ch == "("; depth -= ch == ")"
        if depth == 0 and k < len(c) - 1:
            return False
    return True


def _strip_not(c, pol):
    """peel  (!(X)) / !(X)  layers: returns X with the polarity flipped once per negation"""
    c = c.strip()
    for _ in range(6):
        if _wraps_whole(c) and c[1:-1].lstrip().startswith("!"):
            c = c[1:-1].strip()
        if c.startswith("!"):
            c = c[1:].strip(); pol = 1 - pol
            continue
        break
    return c, pol


def packed_guard(c, pol):
    """(lanes, size) if the guard edge is equivalent to  i + lanes <= size  (spellings of one linear inequality), else None"""
    c, pol = _strip_not(c, pol)
    pats_true = [r"\(\(%i\+%(?P<L>\w+)\)<=%(?P<S>\w+)\)", r"\(\(%(?P<L>\w+)\+%i\)<=%(?P<S>\w+)\)",
                 r"\(%(?P<S>\w+)>=\(%i\+%(?P<L>\w+)\)\)", r"\(%(?P<S>\w+)>=\(%(?P<L>\w+)\+%i\)\)",
                 r"\(\(\(%i\+%(?P<L>\w+)\)-1\)<%(?P<S>\w+)\)", r"\(%(?P<S>\w+)>\(\(%i\+%(?P<L>\w+)\)-1\)\)"]
    pats_false = [r"\(\(%i\+%(?P<L>\w+)\)>%(?P<S>\w+)\)", r"\(\(%(?P<L>\w+)\+%i\)>%(?P<S>\w+)\)", r"\(%(?P<S>\w+)<\(%i\+%(?P<L>\w+)\)\)"]
    for pt in (pats_true if pol == 1 else pats_false):
        m = re.fullmatch(pt, c)
        if m:
            return m.group("L"), m.group("S")
    return None


def tail_guard(c, pol):
    """size name if the guard edge is equivalent to  i < size"""
    c, pol = _strip_not(c, pol)
    pats_true = [r"\(%i<%(?P<S>\w+)\)", r"\(%(?P<S>\w+)>%i\)"]
    pats_false = [r"\(%i>=%(?P<S>\w+)\)", r"\(%(?P<S>\w+)<=%i\)"]
    for pt in (pats_true if pol == 1 else pats_false):
        m = re.fullmatch(pt, c)
        if m:
            return m.group("S")
    return None


def rule_simd(rows, prop):
    findings, samples = [], []
    n_packed = n_tail = n_seed = n_uncovered = 0
    fns = [r for r in rows if "fn" in r]
    lambdas = {}
    lambda_insts = {}
    for r in fns:
        if r.get("lambda"):
            if r.get("generic_inst"):
                lambda_insts.setdefault(r.get("parent_sig", ""), []).append(r)   # instantiated call operators of generic lambdas
            else:
                lambdas.setdefault(r.get("parent_sig", ""), {})["lambda@%d" % r["line"]] = r
    for r in fns:
        short = r["fn"].split("::")[-1]
        if r.get("lambda") or not short.startswith("eval_") or not r.get("cfg"):
            continue   # only instantiations (resolved if-constexpr, CFG available)
        locs = {}
        for f in r["facts"]:
            if f["k"] == "local":
                locs.setdefault(f["a"], []).append(f["b"])
        def lanes_ok(name):
            return any("bit_width" in v and "sizeof(element_type)*8" in _norm(v) for v in locs.get(name, []))
        def size_ok(name):
            return any(re.search(r"(\.size\(\)$|^nmtools::size\()", v) for v in locs.get(name, []))
        for f in r["facts"]:
            if f["k"] != "call":
                continue
            m = re.search(r"(loadu|storeu)\(\(& %(\w+)\[(.+?)\]\)", f["b"])
            if m:
                kind, ptr, idx = m.groups()
                guards = [(_norm(g["cond"]), g["pol"]) for g in f.get("g", []) if "cond" in g]
                if idx == "%i":
                    n_packed += 1
                    ok = False
                    for c, pol in guards:
                        pg = packed_guard(c, pol)
                        if pg and lanes_ok(pg[0]) and size_ok(pg[1]):
                            ok = True
                    if not ok:
                        findings.append(finding("R-SIMDRANGE.packed", prop, r, f["b"].split("::")[-1], "packed %s at &%s[i] is not dominated by the true edge of (i + lanes) <= size; guards seen: %s" % (kind, ptr, guards[:4]), f.get("line")))
                    elif len(samples) < 3:
                        samples.append("R-SIMDRANGE %s %s(&%s[i]) under %s" % (short, kind, ptr, guards[0][0]))
                elif idx == "0" and ptr.startswith("tmp"):
                    pass   # spill of one register into a local lanes-sized array
                else:
                    n_uncovered += 1   # enumerator-computed offsets: not decided (DESIGN §3 C12)
        # scalar tail loops: accesses p[%i] guarded by (i < size) and not by the packed condition
        for f in r["facts"]:
            if f["k"] == "assign" and re.fullmatch(r"%\w+\[%i\]", f["a"]) and "ptr" in f["a"]:
                guards = [(_norm(g["cond"]), g["pol"]) for g in f.get("g", []) if "cond" in g]
                if any(packed_guard(c, pol) for c, pol in guards):
                    continue
                n_tail += 1
                if not any(tail_guard(c, pol) and size_ok(tail_guard(c, pol)) for c, pol in guards):
                    findings.append(finding("R-SIMDRANGE.tail", prop, r, f["a"], "scalar tail store %s is not dominated by the true edge of i < size; guards seen: %s" % (f["a"], guards[:4]), f.get("line")))
        if short == "eval_reduction":
            lams = lambdas.get(r.get("sig", ""), {})
            # partial packs of an axis reduction: every padding lane must hold the identity before the packed op
            for lr in lambda_insts.get(r.get("sig", ""), []):
                if not lr.get("cfg") or not any(x["k"] == "call" and re.search(r"loadu\(%padded_inp\)", x["b"]) for x in lr["facts"]):
                    continue
                n_seed += 1
                fills = [x for x in lr["facts"] if x["k"] == "assign" and x["a"] == "%padded_inp[%i]" and re.fullmatch(r"%identity|this\.view\.op\.identity\(\)|.*::identity\(\)", x["b"])]
                ok = any(("(%i<%n_simd_pack)", 1) in [(g_["cond"].replace(" ", ""), g_["pol"]) for g_ in expand_guards(x.get("g", []))] for x in fills)
                if not ok:
                    findings.append(finding("R-SIMDID.padding", prop, lr, "padded_inp", "padding lanes of a partial pack are not filled with the reduction identity up to n_simd_pack before the packed load (lanes past the data would take part in the reduction with value 0)", lr.get("line")))
            sources = []
            for f in r["facts"]:
                if f["k"] != "call" or "::set1(" not in f["b"] and not f["a"].endswith("set1"):
                    continue
                arg = parse_call(f["b"])
                arg = arg[1][0] if arg and arg[1] else "?"
                n_seed += 1
                if arg.startswith("%"):
                    src = locs.get(arg[1:], ["?"])[0]
                else:
                    src = arg
                mm = re.fullmatch(r"(lambda@\d+)\(\)", src)
                if mm and mm.group(1) in lams:
                    rets = sorted(set(x["a"] for x in lams[mm.group(1)]["facts"] if x["k"] == "return"))
                    sources.append((f, arg, tuple(rets)))
                else:
                    findings.append(finding("R-SIMDID", prop, r, f["b"].split("::")[-1], "accumulator register is seeded with %s, not with the identity of the reduction op" % src, f.get("line")))
            vals = set(s_[2] for s_ in sources)
            for s_ in sources:
                if any(not (v == "0" or re.search(r"(^this\.view\.op\.|::)identity\(\)$", v)) for v in s_[2]):
                    findings.append(finding("R-SIMDID", prop, r, s_[1], "identity source returns %s" % (s_[2],), s_[0].get("line")))
            if len(vals) > 1:
                findings.append(finding("R-SIMDID", prop, r, "set1", "identity sources of one reduction instantiation disagree: %s" % sorted(vals)))
    inst = {"R-SIMDRANGE.packed": n_packed, "R-SIMDRANGE.tail": n_tail, "R-SIMDID": n_seed}
    return findings, inst, samples, n_uncovered


def simd_op_cores(rows):
    out = {}
    for r in rows:
        if "fn" not in r or not r["fn"].endswith("::eval") or "ufunc_simd_t<" not in r["fn"]:
            continue
        m = re.search(r"ufunc_simd_t<(?:nmtools::)?(?:view::)?(?:fun::)?(\w+?)(?:_t)?[<,>]", r["fn"])
        if not m:
            continue
        name = m.group(1)
        params = [p_["name"] for p_ in r["params"]]
        locs, assigned = single_def_locals(r)
        reassigned_param = any(f["k"] == "assign" and f["a"].startswith("$") for f in r["facts"])
        fields = {f["a"]: f["b"] for f in r["facts"] if f["k"] == "field"}
        cores = []
        for f in r["facts"]:
            if f["k"] != "return":
                continue
            e = subst_locals(f["a"], locs)
            e = re.sub(r"this\.(\w+)\b(?!\()", lambda m_: fields.get(m_.group(1), m_.group(0)), e)
            for i, pn in enumerate(params):
                e = re.sub(r"\$" + re.escape(pn) + r"\b", "$%d" % i, e)
            cores.append(e)
        out[name] = dict(cores=sorted(set(cores)), multi=bool(assigned) or reassigned_param, row=r)
    return out


def rule_simdop(rows, prop):
    tbl = load_table("simd_table.json")
    findings, samples, n = [], [], 0
    got = simd_op_cores(rows)
    for name, d in sorted(got.items()):
        if name in tbl["not_covered"]:
            continue
        n += 1
        if name not in tbl["ops"]:
            findings.append(finding("R-SIMDOP", prop, d["row"], name, "SIMD op for '%s' has no entry in the oracle tools/simd_table.json" % name)); continue
        for e in d["cores"]:
            if e not in tbl["ops"][name]["cores"]:
                findings.append(finding("R-SIMDOP", prop, d["row"], e, "packed operation of '%s' is %s; the reviewed lane-wise definition (same as the scalar op) is %s" % (name, e, tbl["ops"][name]["cores"])))
        if len(samples) < 3:
            samples.append("R-SIMDOP %s: %s" % (name, d["cores"][0] if d["cores"] else ""))
    missing = [k for k in tbl["ops"] if k not in got]
    broken = ["R-SIMDOP: oracle entries without a SIMD op in the tree: %s" % missing] if missing else []
    return findings, n, samples, broken


def rule_simdpad(rows, prop):
    """R-SIMDPAD: a partial pack with n_pad padding lanes copies exactly the n_simd_pack - n_pad data elements: inside the arm
    `tag == n_pad` of the evaluators' padding lambdas every read `ptr[offset + i]` of operand data is dominated by the true edge of
    i < n_simd_pack - n_pad (any spelling); the lanes beyond are filled from constants, never from memory."""
    findings, n, samples = [], 0, []
    for r in rows:
        if "fn" not in r or not r.get("lambda") or not r.get("cfg") or "/eval/simd/evaluator/" not in r["file"]:
            continue
        if not any(f["k"] == "if" and re.search(r"== %n_pad\)|\(%n_pad ==", f["a"]) for f in r["facts"]):
            continue
        for f in r["facts"]:
            if f["k"] != "assign":
                continue
            m = re.search(r"%(\w*data_ptr)\[\((.+) \+ %(\w+)\)\]", f["b"])
            if not m:
                continue
            n += 1
            iv = "%" + m.group(3)
            ok = any(op == "<" and a == iv and b.replace(" ", "") in ("(%n_simd_pack-%n_pad)",) for (op, a, b) in _cmp_guards(f))
            if not ok:
                findings.append(finding("R-SIMDPAD", prop, r, "%s = %s" % (f["a"], f["b"]), "partial-pack copy reads %s[... + %s] without the bound %s < n_simd_pack - n_pad: a lane past the data (or past the buffer) is read; guards: %s" % (m.group(1), iv, iv, sorted(_cmp_guards(f))[:3]), f.get("line")))
            elif len(samples) < 2:
                samples.append("R-SIMDPAD %s under %s < n_simd_pack - n_pad" % (f["b"][:60], iv))
    # operand side agreement: data of one operand is addressed with that operand's own offset (lhs_data_ptr[lhs_ptr_idx + i])
    for r in rows:
        if "fn" not in r or "/eval/simd/evaluator/" not in r["file"]:
            continue
        seen_ = set()
        for f in r["facts"]:
            for txt in (f.get("a", ""), str(f.get("b", ""))):
                for m in re.finditer(r"%(\w+?)_data_ptr\[\(?%(\w+?)_(ptr_idx|offset)\b", txt):
                    key = (m.group(0), f.get("line"))
                    if key in seen_:
                        continue
                    seen_.add(key); n += 1
                    if m.group(1) != m.group(2):
                        findings.append(finding("R-SIMDPAD.side", prop, r, txt[:160], "%s_data_ptr is addressed with the offset of '%s' (operand sides mixed)" % (m.group(1), m.group(2)), f.get("line")))
    return findings, n, samples


def comp_simd(prop, tier, comp, work):
    t0 = time.time()
    tu = os.path.join(VERIF, "drivers", "simd_inst.cpp")
    rows, err, cmd = run_nmlint(tu, filters=["eval/simd/evaluator/"], inst=True, cfg=True, flags=["-mavx2", "-mfma"])
    out = dict(broken=[], units=1, functions=len(rows), cmd=cmd)
    if err:
        out["broken"].append(err); return out
    f, inst, samples, unc = rule_simd(rows, prop)
    tu2 = os.path.join(work, "simdop.cpp"); open(tu2, "w").write('#include "nmtools/array/eval/simd/ufunc.hpp"\n')
    rows2, err2, _ = run_nmlint(tu2, filters=["eval/simd/ufunc.hpp"])
    if err2:
        out["broken"].append(err2); return out
    f2, n2, s2, b2 = rule_simdop(rows2, prop)
    f += f2; inst["R-SIMDOP"] = n2; samples += s2; out["broken"] += b2
    f3, n3, s3 = rule_simdpad(rows, prop)
    f += f3; inst["R-SIMDPAD"] = n3; samples += s3
    tot = sum(inst.values())
    out.update(findings=f, instances=inst, evaluations=tot, distinct_nontrivial=tot - len(f), samples=samples + ["(not decided: %d packed accesses with enumerator-computed offsets)" % unc], wall_s=round(time.time() - t0, 2))
    return out


# --------------------------------------------------------------------------------------------
# R-CONSTBRANCH (C09): in every resolve_optype<void, index::TAG_t, P...> specialisation the compile-time
# branch is *defined as* the run-time function paired with TAG_t applied to to_value_v<P_k> in the order of
# the specialisation's parameters, and every constant (ct<..>, clipped_*<..>) it builds takes its value from
# that call's result unmodified.  Then "computed at compile time == computed at run time" holds by construction.
# --------------------------------------------------------------------------------------------
def rule_constbranch(rows, prop):
    tbl = load_table("constbranch_tables.json")
    findings, samples = [], []
    fns = [r for r in rows if "fn" in r]
    # pairing TAG -> run-time functions, read from the source: functions that name resolve_optype_t<TAG,...>
    pair = {}
    for r in fns:
        if r.get("lambda") or not r["fn"].startswith("nmtools::index::"):
            continue
        for f in r["facts"]:
            if f["k"] == "alias":
                for m in re.finditer(r"resolve_optype_t<(?:index::)?(\w+)", f["b"]):
                    pair.setdefault(m.group(1), set()).add(r["fn"].split("::")[-1])
    groups = {}
    for r in fns:
        if r.get("lambda") and r.get("spec_of", "").endswith("resolve_optype") and len(r.get("spec_args", [])) >= 2:
            groups.setdefault((r["file"], tuple(r["spec_args"])), []).append(r)
    n_inst = 0
    for (file, sargs), rs in sorted(groups.items()):
        tag = re.sub(r"^(?:nmtools::)?(?:index::)?", "", sargs[1])
        params = list(sargs[2:])
        outer = [r for r in rs if r.get("lambda_var", "").endswith("::vtype")]
        if not outer:
            continue
        o = outer[0]
        allfacts = [f for r in rs for f in r["facts"]]
        locs = {}
        for f in o["facts"]:
            if f["k"] == "local":
                locs.setdefault(f["a"], f["b"])
        fnames = pair.get(tag, set()) | set(tbl["extra_pairing"].get(tag, []))
        calls = []
        for name, init in locs.items():
            pc = parse_call(init)
            if pc and re.sub(r"^(?:nmtools::)?index::", "", pc[0]) in fnames:
                calls.append((name, pc))
        consts = []
        for f in allfacts:
            if f["k"] == "alias":
                for m in re.finditer(r"\b(ct|clipped_size_t|clipped_integer_t|clipped_index_t)<([^<>]*(?:\([^()]*\))?[^<>]*)>", f["b"]):
                    consts.append((f, m.group(1), m.group(2).strip()))
        if not calls:
            if consts and tag not in tbl["no_runtime_call"]:
                n_inst += 1
                findings.append(finding("R-CONSTBRANCH.nocall", prop, o, tag, "specialisation builds constants %s but never calls a run-time function paired with %s (%s)" % (sorted(set(c[2] for c in consts))[:4], tag, sorted(fnames))))
            continue
        n_inst += 1
        results = set()
        for name, (callee, args) in calls:
            results.add(name)
            order = []
            for a in args:
                src = locs.get(a[1:], a) if a.startswith("%") else a
                m = re.fullmatch(r"(?:meta::)?to_value_v<(.+)>", src) or re.fullmatch(r"(\w+)\{+\}+", src)
                if m and m.group(1) in params:
                    order.append(params.index(m.group(1)))
                elif re.fullmatch(r"lambda@\d+\(\)", src):
                    # value prepared by a helper lambda (e.g. None-aware conversion): which parameter does it convert?
                    ln = int(src[7:-2]); ps = set()
                    for lr in rs:
                        if lr["line"] == ln:
                            for x in lr["facts"]:
                                if x["k"] == "return":
                                    ps |= set(m_.group(1) for m_ in re.finditer(r"to_value_v<(\w+)>", x["a"]) if m_.group(1) in params)
                    order.append(params.index(ps.pop()) if len(ps) == 1 else None)
                elif a in tbl["allowed_call_args"].get(tag, {}):
                    order.append(None)
                else:
                    findings.append(finding("R-CONSTBRANCH.arg", prop, o, init_str(callee, args), "argument '%s' (= %s) of the paired run-time call is not to_value_v<P> of a parameter of the specialisation %s" % (a, src, params)))
                    order.append(None)
            seq = [x for x in order if x is not None]
            if seq != sorted(seq) or len(set(seq)) != len(seq):
                findings.append(finding("R-CONSTBRANCH.order", prop, o, init_str(callee, args), "run-time function receives the specialisation's parameters in the order %s (positions), expected increasing" % seq))
        # locals derived from the result without arithmetic
        changed = True
        while changed:
            changed = False
            for name, init in locs.items():
                if name in results:
                    continue
                if re.fullmatch(r"\(\* %(\w+)\)|unwrap\(%(\w+)\)|(?:nmtools::)?get<\d+>\(%(\w+)\)|(?:::)?nmtools::len\(%(\w+)\)|len\(%(\w+)\)|%(\w+)", init):
                    base = [g for g in re.fullmatch(r"\(\* %(\w+)\)|unwrap\(%(\w+)\)|(?:nmtools::)?get<\d+>\(%(\w+)\)|(?:::)?nmtools::len\(%(\w+)\)|len\(%(\w+)\)|%(\w+)", init).groups() if g][0]
                    if base in results:
                        results.add(name); changed = True
        elem = set()
        for f in allfacts:
            if f["k"] == "local":
                m = re.fullmatch(r"(?:nmtools::)?at\((?:\(\* )?(?:unwrap\()?%(\w+)\)*,.*\)", f["b"])
                if m and m.group(1) in results:
                    elem.add(f["a"])
        def strip_at(v):
            # at(X, <index expr>) -> X : arithmetic on the *position* is not arithmetic on the value
            prev = None
            while prev != v:
                prev = v
                v = re.sub(r"(?:::)?(?:nmtools::)?at\(\s*((?:[^(),]|\([^()]*\))+?)\s*,(?:[^()]|\([^()]*\))*\)", r"\1", v)
            v = re.sub(r"\b(?:unwrap|static_cast<[^<>]*>)\(([^()]*)\)", r"\1", v)
            v = re.sub(r"\((?:::)?[\w:]+(?:<[^<>]*>)?\)(?=[\w(*])", "", v)          # C-style casts (T)x
            v = v.replace("*", "", 1) if v.startswith("*") else v
            return v.strip()
        for f, kind, val in consts:
            core = strip_at(val)
            first = core.split(",")[-1].strip() if kind == "clipped_integer_t" else core
            ok = first in results or first in elem or first in params \
                or (re.fullmatch(r"\w+::(value|max|min)", first) and first.split("::")[0] in params) \
                or first in tbl["allowed_const_names"].get(tag, {})
            if not ok:
                findings.append(finding("R-CONSTBRANCH.value", prop, o, "%s<%s>" % (kind, val), "constant %s<%s> is not the unmodified result of the paired run-time call (results: %s)" % (kind, val, sorted(results | elem))))
        if len(samples) < 5:
            samples.append("R-CONSTBRANCH %s: %s = %s" % (tag, calls[0][0], init_str(*calls[0][1])))
    return findings, n_inst, samples


def init_str(callee, args):
    return "%s(%s)" % (callee, ",".join(args))


def comp_constbranch(prop, tier, comp, work):
    t0 = time.time()
    tu, n = gen_umbrella(["nmtools/array/index"], work, "umb_idx.cpp")
    rows, err, cmd = run_nmlint(tu, filters=["include/nmtools/array/index/"])
    out = dict(broken=[], units=n, functions=len(rows), cmd=cmd)
    if err:
        out["broken"].append(err); return out
    if comp.get("anchors"):
        # restricted to the specialisations that live in this property's anchor files (the compile-time branch of THESE index
        # functions is the run-time function applied to the type's value, arguments in order)
        anchors = anchor_files(prop)
        keep = lambda fl: any(relfile(fl) == a or (a.endswith("/") and relfile(fl).startswith(a)) for a in anchors)
        rows = [r for r in rows if keep(r.get("file", ""))]
    f, inst, samples = rule_constbranch(rows, prop)
    if comp.get("anchors") and inst == 0:
        out["broken"].append("R-CONSTBRANCH: no resolve_optype specialisation with a compile-time branch in the anchor files of %s" % prop)
    out.update(findings=f, instances={"R-CONSTBRANCH": inst}, evaluations=inst, distinct_nontrivial=inst - len(set(x["function"] + x["file"] + str(x["line"]) for x in f)), samples=samples, wall_s=round(time.time() - t0, 2))
    return out


# --------------------------------------------------------------------------------------------
# R-TRAITPROV (C11): every static shape/dim/size/bound trait of a view type is derived only from the
# *type of the run-time accessors* (decltype(view.shape()) / decltype(view.size()), the view's
# dst_shape_type / dst_size_type / shape_type / size_type typedefs) or, recursively, from the same
# traits of its operands; no literals, no arithmetic on values except the product of extents / of
# operand bounds and the fold over operands, never ::min for an upper bound, never ::max for an exact value.
# --------------------------------------------------------------------------------------------
TRAITS = ("fixed_shape", "fixed_dim", "fixed_size", "bounded_dim", "bounded_size")
PROV_NAMES = ("shape_type", "size_type", "dst_shape_type", "dst_size_type")

def rule_traitprov(rows, prop):
    tbl = load_table("traitprov_tables.json")
    findings, samples, n = [], [], 0
    fns = [r for r in rows if "fn" in r and r.get("lambda") and r.get("spec_of", "").split("::")[-1] in TRAITS]
    for r in fns:
        trait = r["spec_of"].split("::")[-1]
        view = r["spec_args"][0] if r.get("spec_args") else "?"
        n += 1
        aliases = {f["a"]: f["b"] for f in r["facts"] if f["k"] == "alias"}
        locs, _ = single_def_locals(r)
        for f in r["facts"]:
            if f["k"] != "return":
                continue
            e = subst_locals(f["a"], {k: v for k, v in locs.items() if not v.startswith("lambda@")})
            if re.search(r"error::\w+|detail::Fail", e):
                continue
            me = re.fullmatch(r"(\w+)\{\{\}\}", e)
            if me and re.search(r"error::", aliases.get(me.group(1), "")):
                continue
            key = "%s|%s" % (trait, re.sub(r"<.*", "", view.split("view::decorator_t<")[-1]).split(",")[0].replace("nmtools::view::", ""))
            if e in tbl["allowed_returns"].get(key, {}):
                continue
            bad = []
            if re.search(r"(?<![\w.])\d+(?:\.\d+)?(?:UL|ul|u|L)?\b", re.sub(r",0\)$", ")", re.sub(r"type-parameter-\d+-\d+|lambda@\d+", "", e))):
                bad.append("numeric literal")
            if "::min" in e:
                bad.append("::min used for a static bound")
            if trait.startswith("fixed") and "::max" in e:
                bad.append("::max (an upper bound) used for an exact value")
            if re.search(r" [-/%] ", e):
                bad.append("arithmetic on values")
            if " + " in e and not re.fullmatch(r"\(\$init \+ [%\w:<>, ]+\)", e):
                bad.append("addition outside the fold over operands")
            # provenance of every type the value is read from
            for m in re.finditer(r"(?:to_value_v|len_v)<((?:[^<>]|<[^<>]*>)+)>|((?:[\w:]|<(?:[^<>]|<[^<>]*>)*>)+)::(?:value|max)\b|((?:[\w:]|<(?:[^<>]|<[^<>]*>)*>)+)\{\{\}\}", e):
                t = (m.group(1) or m.group(2) or m.group(3)).strip()
                last = t.split("::")[-1]
                d = aliases.get(last)
                if last == "array_type" and m.group(1) and "len_v<" in m.group(0):
                    continue    # number of operands of the view
                if last in PROV_NAMES and (d is None or re.search(r"decltype\(declval<.*view_type>\(\)\.(shape|size)\(\)\)$", d) or re.fullmatch(r"typename view_type::(dst_)?(shape|size)_type", d)):
                    if (trait in ("fixed_shape", "fixed_dim", "bounded_dim")) and "size_type" in last and "shape" not in last:
                        bad.append("%s derived from a size type" % trait)
                    continue
                bad.append("value read from type '%s', which is not the type of the view's shape()/size() accessor" % t)
            for m in re.finditer(r"\b(\w+)_v<((?:[^<>]|<[^<>]*>)+)>", e):
                nm = m.group(1)
                if nm in ("to_value", "len"):
                    continue
                if nm not in TRAITS:
                    bad.append("derived from '%s_v', not a shape/size trait" % nm)
            for b in bad:
                findings.append(finding("R-TRAITPROV", prop, r, e, "%s of %s: %s" % (trait, view[:80], b), f.get("line")))
        if len(samples) < 5:
            rs_ = [x["a"] for x in r["facts"] if x["k"] == "return" and "error" not in x["a"]]
            if rs_:
                samples.append("R-TRAITPROV %s<%s>: %s" % (trait, view[:50], rs_[0][:80]))
    return findings, n, samples


def comp_traitprov(prop, tier, comp, work):
    t0 = time.time()
    tu, n = gen_umbrella(["nmtools/array/view"], work, "umb_view.cpp")
    rows, err, cmd = run_nmlint(tu, filters=["include/nmtools/array/view/"])
    out = dict(broken=[], units=n, functions=len(rows), cmd=cmd)
    if err:
        out["broken"].append(err); return out
    f, inst, samples = rule_traitprov(rows, prop)
    out.update(findings=f, instances={"R-TRAITPROV": inst}, evaluations=inst, distinct_nontrivial=inst - len(set((x["file"], x["line"]) for x in f)), samples=samples, wall_s=round(time.time() - t0, 2))
    return out


# --------------------------------------------------------------------------------------------
# R-MAYBE / R-DIV (C15) on the instantiation driver drivers/maybe_inst.cpp (CFG guards):
#  R-MAYBE: every dereference (*m, m->, m.value(), unwrap(m)) of a maybe-typed expression is reached only through
#           the true edge of a truth test of the same expression (static_cast<bool>(m), m, has_value(m), m.has_value(),
#           or a bool local initialised from one of these); decltype/sizeof operands are not dereferences.
#  R-DIV:   every integer / and % in index/ and view/ has a divisor that is a non-zero literal, is guarded against zero,
#           or is given a role in tools/roles.json (source extents >= 1 ...), whose supporting guard is re-checked.
# --------------------------------------------------------------------------------------------
def split_top(c, op):
    """split '(A op B)' at top level; returns [c] if c is not such an expression"""
    c = c.strip()
    if not (c.startswith("(") and c.endswith(")")):
        return [c]
    depth = 0
    inner = c[1:-1]
    parts, cur, i = [], "", 0
    while i < len(inner):
        ch = inner[i]
        if ch in "([{<":
            depth += 1 if ch != "<" else 0
        elif ch in ")]}":
            depth -= 1
        if depth < 0:
            return [c]
        if depth == 0 and inner.startswith(" " + op + " ", i):
            parts.append(cur); cur = ""; i += len(op) + 2; continue
        cur += ch; i += 1
    parts.append(cur)
    return parts if len(parts) > 1 else [c]


def expand_guards(gs):
    """a true conjunction makes every conjunct true, a false disjunction makes every disjunct false"""
    out = []
    todo = [(g["cond"], g["pol"]) for g in gs if "cond" in g]
    while todo:
        c, pol = todo.pop()
        parts = split_top(c, "&&") if pol == 1 else split_top(c, "||")
        if len(parts) > 1:
            todo += [(p_, pol) for p_ in parts]
        else:
            out.append(dict(cond=c, pol=pol))
    return out


def is_maybe_type(t):
    return bool(re.match(r"(const )?(std::optional<|nmtools::utl::maybe<|optional<|maybe<)", t))

def truth_subject(c, locs):
    c = c.replace(" ", "")
    for _ in range(3):
        m = re.fullmatch(r"%(\w+)", c)
        if m and m.group(1) in locs:
            c = locs[m.group(1)].replace(" ", ""); continue
        m = re.fullmatch(r"bool\((.+)\)", c) or re.fullmatch(r"(?:nmtools::)?has_value\((.+)\)", c) or re.fullmatch(r"(.+)\.has_value\(\)", c)
        if m:
            c = m.group(1); continue
        break
    return c

def rule_maybe(rows, prop, only=None, fn_only=None):
    tbl = load_table("roles.json")
    findings, samples, n = [], [], 0
    seen = set()
    for r in rows:
        if "fn" not in r or not r.get("cfg"):
            continue
        if re.fullmatch(r"nmtools::unwrap", r["fn"]):
            continue   # the primitive itself: its call sites are the dereferences
        if fn_only and not re.search(fn_only, r["fn"]):
            continue
        locs, _ = single_def_locals(r)
        for f in r["facts"]:
            if f["k"] != "deref" or not is_maybe_type(f["c"]):
                continue
            key = (r["file"], f.get("line"), f.get("col"), f["a"], r.get("sig", "")[:400])
            if key in seen:
                continue
            if only and not re.search(only, f["a"] + " " + truth_subject(f["a"].replace(" ", ""), locs)):
                continue
            seen.add(key); n += 1
            x = f["a"].replace(" ", "")
            xs = {x, truth_subject(x, locs)}   # the dereferenced expression as written and looked through single-definition locals
            ok = False
            for g in expand_guards(f.get("g", [])):
                c, pol_ = _strip_not(g["cond"].replace(" ", ""), g["pol"])   # peels !x / !!x, flipping the edge each time
                if pol_ == 1 and ({truth_subject(c, locs), truth_subject(c, {})} & xs):
                    ok = True
            if not ok:
                # a bool local that was conjoined with the truth test right before it is branched on:
                #   valid = valid && has_value(x); if (valid) { *x }
                for g in expand_guards(f.get("g", [])):
                    mv = re.fullmatch(r"%(\w+)", g["cond"].replace(" ", ""))
                    if not mv or g["pol"] != 1:
                        continue
                    defs = [(d.get("line", 0), d["b"]) for d in r["facts"] if d["k"] in ("assign", "local") and d["a"].lstrip("%") == mv.group(1) and d.get("line", 0) <= g.get("line", 10**9)]
                    if not defs:
                        continue
                    last = max(defs)[1].replace(" ", "")
                    if _wraps_whole(last):
                        last = last[1:-1]
                    conj, depth, cur = [], 0, ""
                    k = 0
                    while k < len(last):
                        ch = last[k]
                        depth += ch == "("; depth -= ch == ")"
                        if depth == 0 and last[k:k + 2] == "&&":
                            conj.append(cur); cur = ""; k += 2; continue
                        cur += ch; k += 1
                    conj.append(cur)
                    if any(({truth_subject(c_, locs), truth_subject(c_, {})} & xs) for c_ in conj):
                        ok = True
            # (a lambda is named by its enclosing file only, not by its line: an exemption must survive edits that move lines)
            site = "%s:%s" % (relfile(r["file"]), re.sub(r"\(lambda@\d+\)", "(lambda)", r["fn"].split("::")[-1]))
            if not ok and site + ":" + f["a"] in tbl["maybe_exempt"]:
                ok = True
            if not ok:
                findings.append(finding("R-MAYBE", prop, r, "%s%s" % (f["b"], f["a"]), "maybe-typed %s is dereferenced (%s) without a dominating truth test on it; guards seen: %s" % (f["a"], f["b"], [(g.get("cond"), g.get("pol")) for g in f.get("g", [])][:4]), f.get("line")))
            elif len(samples) < 4:
                samples.append("R-MAYBE %s: %s%s guarded" % (site, f["b"], f["a"]))
    return findings, n, samples


def rule_div(rows, prop):
    tbl = load_table("roles.json")
    findings, samples = [], []
    sites = {}
    for r in rows:
        if "fn" not in r or not r.get("cfg"):
            continue
        if "/include/nmtools/array/index/" not in r["file"] and "/include/nmtools/array/view/" not in r["file"]:
            continue
        locs, _ = single_def_locals(r)
        for f in r["facts"]:
            if f["k"] != "div":
                continue
            key = (relfile(r["file"]), f.get("line"), f["c"])
            if key in sites:
                continue
            d = f["c"].replace(" ", "")
            ok = None
            if re.fullmatch(r"\d+", d) and int(d) != 0:
                ok = "non-zero literal"
            for g in expand_guards(f.get("g", [])):
                c = g["cond"].replace(" ", "")
                if (g["pol"] == 1 and c in ("(%s!=0)" % d, "(%s>0)" % d, "(0<%s)" % d, d, "bool(%s)" % d)) or (g["pol"] == 0 and c in ("(%s==0)" % d, "(!%s)" % d, "(%s<=0)" % d)):
                    ok = "guarded by " + g["cond"]
            if ok is None:
                fnshort = r["fn"].split("::(lambda")[0]
                roles_fn = tbl["divisor_roles"].get(fnshort, {})
                role = roles_fn.get(f["c"])
                erase = lambda e: re.sub(r"%\w+", "%", e)
                if not role:
                    can = erase(subst_locals(f["c"], locs))
                    for rv in roles_fn.values():
                        if can in rv.get("canonical", []):
                            role = rv; break
                if role:
                    sup = role.get("requires_return_guard")
                    if sup:
                        # the validation lives in the enclosing function (the division may sit in one of its lambdas)
                        owners = [q for q in rows if q.get("fn") == fnshort and q.get("cfg")] if r.get("lambda") else [r]
                        has = any(x["k"] == "return" and "Nothing" in x["a"] and any(g["pol"] == 1 and erase(sup.replace(" ", "")) in [erase(p_.replace(" ", "")) for p_ in split_top(g["cond"], "||")] for g in expand_guards(x.get("g", []))) for q in owners for x in q["facts"])
                        if has:
                            ok = "role: " + role["reason"]
                        else:
                            findings.append(finding("R-DIV", prop, r, "%s %s" % (f["a"], f["c"]), "divisor %s relies on the validation '%s -> return Nothing', which is no longer present" % (f["c"], sup), f.get("line")))
                            sites[key] = "violation"; continue
                    else:
                        ok = "role: " + role["reason"]
            if ok is None:
                findings.append(finding("R-DIV", prop, r, "%s %s" % (f["a"], f["c"]), "integer division by %s: divisor is neither a non-zero literal, nor guarded against zero, nor listed with a role in tools/roles.json" % f["c"], f.get("line")))
                sites[key] = "violation"
            else:
                sites[key] = ok
                if len(samples) < 4:
                    samples.append("R-DIV %s:%s %s %s -- %s" % (key[0], key[1], f["a"], f["c"], ok))
    return findings, len(sites), samples


def comp_maybe_div(prop, tier, comp, work):
    t0 = time.time()
    tu = os.path.join(VERIF, "drivers", "maybe_inst.cpp")
    rows, err, cmd = run_nmlint(tu, filters=["/include/nmtools/"], inst=True, cfg=True)
    out = dict(broken=[], units=1, functions=len(rows), cmd=cmd)
    if err:
        out["broken"].append(err); return out
    f1, n1, s1 = rule_maybe(rows, prop)
    f2, n2, s2 = rule_div(rows, prop)
    out.update(findings=f1 + f2, instances={"R-MAYBE": n1, "R-DIV": n2}, evaluations=n1 + n2, distinct_nontrivial=n1 + n2 - len(f1 + f2), samples=s1 + s2, wall_s=round(time.time() - t0, 2))
    return out


def comp_maybe_compare(prop, tier, comp, work):
    """R-MAYBE restricted to the comparison oracles (C18): isequal / isclose / apply_isequal / apply_isclose never dereference an
    optional operand that was not tested on that path - two empty optionals are compared without being read"""
    t0 = time.time()
    tu = os.path.join(VERIF, "drivers", "maybe_inst.cpp")
    rows, err, cmd = run_nmlint(tu, filters=["/include/nmtools/utility/"], inst=True, cfg=True)
    out = dict(broken=[], units=1, functions=len(rows), cmd=cmd)
    if err:
        out["broken"].append(err); return out
    f, k, samples = rule_maybe(rows, prop, fn_only=r"nmtools::utils::(detail::)?(apply_)?is(equal|close)")
    for x in f:
        x["rule"] = "R-MAYBE.compare"
    if k == 0:
        out["broken"].append("R-MAYBE.compare: no dereference of an optional found in the comparison oracles (driver lost its instantiations)")
    out.update(findings=f, instances={"R-MAYBE.compare": k}, evaluations=k, distinct_nontrivial=k - len(f), samples=samples, wall_s=round(time.time() - t0, 2))
    return out


def comp_maybe_bcast(prop, tier, comp, work):
    """R-MAYBE restricted to broadcast results (C06): every dereference of the result of broadcast_shape / broadcast_to /
    broadcast_arrays / broadcast_size is dominated by the true edge of its own truth test - an operand combination that does not
    broadcast is reported as Nothing by every consumer instead of being read"""
    t0 = time.time()
    tu = os.path.join(VERIF, "drivers", "maybe_inst.cpp")
    rows, err, cmd = run_nmlint(tu, filters=["/include/nmtools/"], inst=True, cfg=True)
    out = dict(broken=[], units=1, functions=len(rows), cmd=cmd)
    if err:
        out["broken"].append(err); return out
    f, k, samples = rule_maybe(rows, prop, only=r"broadcast|bcast")
    for x in f:
        x["rule"] = "R-MAYBE.broadcast"
    out.update(findings=f, instances={"R-MAYBE.broadcast": k}, evaluations=k, distinct_nontrivial=k - len(f), samples=samples, wall_s=round(time.time() - t0, 2))
    return out


# --------------------------------------------------------------------------------------------
# R-OWN (C19) on instantiations of utl::vector<T> and of utl::either/maybe with a non-trivial alternative:
#  vector: every constructor allocates its buffer; a store to buffer_ happens only when buffer_ is null or after
#  deallocate(buffer_) on the same path and only from allocate(); growing copies the old contents before freeing;
#  copy-ctor / operator= resize to the source size and copy element-wise (never the pointer); the destructor frees
#  whenever buffer_ is non-null.  either/maybe: the destructor destroys the active alternative.
# --------------------------------------------------------------------------------------------
def _null_norm(c, pol):
    """canonical form of pointer-nullness tests: every spelling of `p is non-null` becomes (p, 1), of `p is null` (p, 0)"""
    c, pol = _strip_not(c, pol)
    if _wraps_whole(c) and not re.search(r"[=!<>]=|[<>]", c[1:-1]):
        c = c[1:-1]
    m = re.fullmatch(r"\(?(?:bool\()?((?:this\.|\$|%)[\w.]+)\)?\)?", c)
    if m and re.fullmatch(r"(?:bool\()?(?:this\.|\$|%)[\w.]+\)?", c.strip("()")) and "==" not in c and "!=" not in c:
        return (m.group(1), pol)
    m = re.fullmatch(r"\(((?:this\.|\$|%)[\w.]+)(==|!=)(?:nullptr|0|NULL)\)", c) or None
    if m:
        return (m.group(1), pol if m.group(2) == "!=" else 1 - pol)
    m = re.fullmatch(r"\((?:nullptr|0|NULL)(==|!=)((?:this\.|\$|%)[\w.]+)\)", c)
    if m:
        return (m.group(2), pol if m.group(1) == "!=" else 1 - pol)
    return None


def _cmp_norm(c, pol):
    """canonical form of an ordered comparison edge: ('<', a, b) means a < b holds on this edge (>, >=, <= and negations folded in)"""
    c, pol = _strip_not(c, pol)
    if not _wraps_whole(c):
        return None
    inner = c[1:-1]
    depth = 0
    for k, ch in enumerate(inner):
        depth += ch == "("; depth -= ch == ")"
        if depth == 0:
            for op in ("<=", ">=", "<", ">"):
                if inner.startswith(op, k) and not inner.startswith("<<", k) and not inner.startswith(">>", k) and (k == 0 or inner[k-1] not in "<>-"):
                    a, b = inner[:k], inner[k + len(op):]
                    if pol == 0:
                        op = {"<": ">=", "<=": ">", ">": "<=", ">=": "<"}[op]
                    if op in (">", ">="):
                        a, b = b, a; op = {">": "<", ">=": "<="}[op]
                    return (op, a, b)
    return None


def _gset(f):
    """guards of a fact as a set of (condition, polarity); pointer-nullness tests are reduced to (pointer, 1|0) so that
    `if (p)`, `if (p != nullptr)`, `if (!(p == nullptr))` are one guard"""
    out = set()
    for g in expand_guards(f.get("g", [])):
        c = g["cond"].replace(" ", "")
        nn = _null_norm(c, g["pol"])
        if nn and nn[0].split(".")[-1].endswith("buffer_"):
            out.add((nn[0], nn[1]))
            if nn[1] == 0:
                out.add(("(!%s)" % nn[0], 1))
        else:
            out.add((c, g["pol"]))
    return out


def _cmp_guards(f):
    return set(x for x in (_cmp_norm(g["cond"].replace(" ", ""), g["pol"]) for g in expand_guards(f.get("g", []))) if x)

def _push_back_alias(r, prop, facts, label):
    """std::vector allows v.push_back(v[i]): the reference parameter may point INTO the storage, so it must not be read on a path that
    has already replaced the storage (a call of this.resize); a local copy taken before the call is fine."""
    out = []
    for gcall in [f for f in facts if f["k"] == "call" and f["a"] == "this.resize"]:
        gc = _gset(gcall)
        for f in facts:
            if f["k"] in ("assign", "localstmt") and re.search(r"\$t\b", str(f.get("b", ""))) and f.get("line", 0) > gcall.get("line", 0):
                gf = _gset(f)
                if not any((c_, 1 - p_) in gf for (c_, p_) in gc):
                    out.append(finding(label, prop, r, "%s = %s" % (f.get("a"), f.get("b")), "the reference parameter t is read after resize() may have replaced the storage: v.push_back(v[i]) reads dead storage when the container grows", f.get("line")))
    return out


def rule_own(rows, prop):
    findings, samples = [], []
    n = 0
    for r in rows:
        if "fn" not in r or not r.get("cfg") or r.get("lambda"):
            continue
        cls = r.get("class", "")
        short = r["fn"].split("::")[-1]
        facts = r["facts"]
        if re.fullmatch(r"nmtools::utl::vector", cls) and "/utl/vector.hpp" in r["file"]:
            n += 1
            is_ctor = short == "vector" or short.startswith("vector<")
            is_dtor = short == "~vector"
            inits = {f["a"]: f["b"] for f in facts if f["k"] == "ctorinit"}
            locs, _ = single_def_locals(r)
            if is_ctor and not re.search(r"allocate\(", inits.get("buffer_", "")):
                findings.append(finding("R-OWN.vector.ctor", prop, r, "buffer_", "constructor does not initialise buffer_ from allocate(): %s" % inits.get("buffer_", "<none>")))
            deallocs = [f for f in facts if f["k"] == "call" and f["a"].endswith("deallocate") and f["b"].endswith("deallocate(this.buffer_)")]
            for f in facts:
                if f["k"] == "assign" and f["a"] == "this.buffer_":
                    src = subst_locals(f["b"], locs)
                    if "allocate(" not in src:
                        findings.append(finding("R-OWN.vector.store", prop, r, "buffer_ = " + f["b"], "buffer_ is assigned from %s, not from a fresh allocation (pointer copy / aliasing)" % src, f.get("line"))); continue
                    g = _gset(f)
                    if ("(!this.buffer_)", 1) in g:
                        continue
                    ok = any(d.get("line", 0) < f.get("line", 0) and (_gset(d) - {("this.buffer_", 1)}) <= g for d in deallocs)
                    if not ok:
                        findings.append(finding("R-OWN.vector.store", prop, r, "buffer_ = " + f["b"], "buffer_ is overwritten without deallocate(buffer_) on the same path (leak)", f.get("line")))
                if f["k"] == "assign" and re.search(r"\$other\.buffer_$", f["b"]) and f["a"] == "this.buffer_":
                    findings.append(finding("R-OWN.vector.copy", prop, r, f["b"], "pointer of the source is copied", f.get("line")))
            if short == "resize":
                mem = [f for f in facts if f["k"] == "call" and f["a"].endswith("memcpy")]
                for d in deallocs:
                    if not any(m.get("line", 0) < d.get("line", 0) and re.search(r"memcpy\(%new_buffer,this\.buffer_,\(sizeof\(\w+\) \* %old_size\)\)", m["b"]) for m in mem):
                        findings.append(finding("R-OWN.vector.grow", prop, r, d["b"], "old buffer is freed before its old_size elements are copied into the new buffer", d.get("line")))
                if not deallocs:
                    findings.append(finding("R-OWN.vector.grow", prop, r, "resize", "growing path never frees the old buffer"))
            if short == "resize":
                # std::vector semantics: the elements that come into existence, [old size, new size), are value-initialised
                locs_r, _ = single_def_locals(r)
                fills_ = []
                for f in facts:
                    m_ = re.fullmatch(r"this\.buffer_\[%(\w+)\]", f["a"]) if f["k"] == "assign" else None
                    if m_ and re.fullmatch(r"[\w:<>, ]*\{\}|0|\w+\(\)", f["b"].strip()):
                        iv_ = m_.group(1)
                        first_def = next((x["b"] for x in facts if x["k"] == "local" and x["a"] == iv_), "")   # the induction variable's initial value
                        start_ = subst_locals(first_def, locs_r).replace(" ", "")
                        bounded = any(op_ == "<" and a_ == "%" + iv_ and b_ == "$new_size" for (op_, a_, b_) in _cmp_guards(f))
                        if bounded and start_ in ("this.size_", "%old_size"):
                            fills_.append(f)
                if not fills_:
                    findings.append(finding("R-OWN.vector.resize_init", prop, r, "resize", "elements that come into existence when the vector grows are not value-initialised (no `buffer_[i] = T{}` for i from the old size up to new_size): unlike std::vector the new elements hold stale or uninitialised memory"))
            if is_ctor and [p["name"] for p in r["params"]] == ["N"]:
                # a sized constructor must grow from empty (size_ 0, then resize(N)) or initialise its N elements itself
                grows = inits.get("size_", "").strip() == "0" and any(f["k"] == "call" and f["b"].replace(" ", "") == "this.resize($N)" for f in facts)
                fills = any(f["k"] == "assign" and re.fullmatch(r"this\.buffer_\[%\w+\]", f["a"]) and re.fullmatch(r"[\w:<>, ]*\{\}|0|\w+\(\)", f["b"].strip()) for f in facts)
                if not (grows or fills):
                    findings.append(finding("R-OWN.vector.resize_init", prop, r, "vector(N)", "vector(N) does not value-initialise its N elements (size_ starts at %s, so resize(N) sees nothing to initialise): std::vector<T>(N) holds N zeros" % inits.get("size_", "?")))
            if is_dtor:
                if not deallocs:
                    findings.append(finding("R-OWN.vector.dtor", prop, r, "~vector", "destructor never deallocates buffer_"))
                for d in deallocs:
                    extra = _gset(d) - {("this.buffer_", 1)}
                    if extra:
                        findings.append(finding("R-OWN.vector.dtor", prop, r, d["b"], "deallocation additionally depends on %s: a non-null buffer can be leaked" % sorted(extra), d.get("line")))
            if (is_ctor and [p["name"] for p in r["params"]] == ["other"]) or short == "operator=":
                has_resize = any(f["k"] == "call" and f["b"] == "this.resize($other.size_)" for f in facts)
                # `i < size_` bounds the reads of the source only if size_ IS the source's size at that point: the resize to the
                # source's size must then be unconditional (a resize that only grows leaves size_ above other.size_ when shrinking)
                resize_uncond = any(f["k"] == "call" and f["b"] == "this.resize($other.size_)" and not _gset(f) for f in facts)
                def _elem_copy(f):
                    if f["k"] != "assign":
                        return False
                    ma = re.fullmatch(r"this\.buffer_\[%(\w+)\]", f["a"]); mb = re.fullmatch(r"\$other\.buffer_\[%(\w+)\]", f["b"])
                    if not (ma and mb and ma.group(1) == mb.group(1)):
                        return False
                    v = "%" + ma.group(1)
                    return any(op == "<" and a == v and (b == "$other.size_" or (b == "this.size_" and resize_uncond)) for (op, a, b) in _cmp_guards(f))
                has_copy = any(_elem_copy(f) for f in facts)
                if not (has_resize and has_copy):
                    findings.append(finding("R-OWN.vector.copy", prop, r, short, "copy does not resize to the source size and copy element-wise under i < size_ (resize=%s, element copy=%s)" % (has_resize, has_copy)))
            if short == "push_back":
                FULL = {("<", "this.buffer_size_", "(this.size_+1)"), ("<=", "this.buffer_size_", "this.size_")}
                ROOM = {("<=", "(this.size_+1)", "this.buffer_size_"), ("<", "this.size_", "this.buffer_size_")}
                grow = any(f["k"] == "call" and f["b"].replace(" ", "") in ("this.resize((this.size_+1))", "this.resize((1+this.size_))") and (_cmp_guards(f) & FULL) for f in facts)
                inc = any(f["k"] == "assign" and f["a"] == "this.size_" and f["b"].replace(" ", "") in ("(this.size_+1)", "(1+this.size_)") and (_cmp_guards(f) & ROOM) for f in facts) \
                      or any(f["k"] in ("assign", "incr") and f["a"] == "this.size_" and (_cmp_guards(f) & ROOM) for f in facts if f["k"] == "incr")
                # the stored value is the parameter or a local copy of it
                locs_pb, _ = single_def_locals(r)
                def _is_t(x):
                    x = x.strip()
                    return x == "$t" or (x.startswith("%") and subst_locals(x, locs_pb).strip() == "$t")
                st = any(f["k"] == "assign" and f["a"] == "this.buffer_[(this.size_ - 1)]" and _is_t(f["b"]) for f in facts)
                findings.extend(_push_back_alias(r, prop, facts, "R-OWN.vector.push_back_alias"))
                if not (grow and inc and st):
                    findings.append(finding("R-OWN.vector.push_back", prop, r, "push_back", "push_back is not {grow when full | size_+1 otherwise; buffer_[size_-1] = t} (grow=%s, inc=%s, store=%s)" % (grow, inc, st)))
            if len(samples) < 3:
                samples.append("R-OWN %s" % r.get("sig", r["fn"])[:90])
        elif cls == "nmtools::small_vector" and short == "push_back" and "small_vector.hpp" in r["file"]:
            n += 1
            findings.extend(_push_back_alias(r, prop, facts, "R-OWN.small_vector.push_back_alias"))
        elif cls == "nmtools::small_vector" and short == "resize" and "small_vector.hpp" in r["file"]:
            # growing out of the inline storage: the old contents - prev_size = size() elements, not more - are copied into the new buffer
            # before it replaces the old one
            n += 1
            locs, _ = single_def_locals(r)
            copies = [f for f in facts if f["k"] == "assign" and re.fullmatch(r"%(\w+)\.at\(%(\w+)\)", f["a"]) and re.search(r"static_ptr\)?\.at\(%\w+\)", f["b"])]
            if not copies:
                findings.append(finding("R-OWN.small_vector.grow", prop, r, "resize", "growing path does not copy the inline elements into the new buffer"))
            for c in copies:
                iv = "%" + re.fullmatch(r"%(\w+)\.at\(%(\w+)\)", c["a"]).group(2)
                bounds = [b_ for (op_, a_, b_) in _cmp_guards(c) if op_ == "<" and a_ == iv]
                okb = any(subst_locals(b_, locs).replace(" ", "") in ("this.size()", "(*%static_ptr).size()", "%static_ptr.size()") for b_ in bounds)
                if not okb:
                    findings.append(finding("R-OWN.small_vector.grow", prop, r, "%s = %s" % (c["a"], c["b"]), "copy of the inline elements is bounded by %s, expected the previous size (size() before the resize): elements past the old contents are read" % (bounds or "nothing"), c.get("line")))
            swaps = [f for f in facts if f["k"] == "assign" and f["a"] == "this.buffer_"]
            if copies and swaps and not all(sw.get("line", 0) > max(c.get("line", 0) for c in copies) for sw in swaps):
                findings.append(finding("R-OWN.small_vector.grow", prop, r, "buffer_ = ...", "the new buffer replaces the old one before the old contents are copied"))
        elif re.fullmatch(r"nmtools::utl::(either|maybe)", cls) and short in ("~either", "~maybe") and "vector" in r.get("sig", ""):
            n += 1
            destroys = any(f["k"] == "call" and (".~" in f["b"] or "~" in f["a"]) for f in facts)
            if not destroys:
                findings.append(finding("R-OWN.either.dtor", prop, r, short, "destructor of an either/maybe with a non-trivially-destructible alternative destroys no member (the active alternative's resources are leaked)"))
    return findings, n, samples


def comp_own(prop, tier, comp, work):
    t0 = time.time()
    tu = os.path.join(VERIF, "drivers", "utl_inst.cpp")
    rows, err, cmd = run_nmlint(tu, filters=["/include/nmtools/utl/", "/include/nmtools/utility/small_vector.hpp"], inst=True, cfg=True)
    out = dict(broken=[], units=1, functions=len(rows), cmd=cmd)
    if err:
        out["broken"].append(err); return out
    f, n, samples = rule_own(rows, prop)
    out.update(findings=f, instances={"R-OWN": n}, evaluations=n, distinct_nontrivial=n - len(set((x["function"], x["instantiation"]) for x in f)), samples=samples, wall_s=round(time.time() - t0, 2))
    return out


# --------------------------------------------------------------------------------------------
# R-EVAL (C10) on instantiations of evaluator_t<view, none_t, resolver>: the default evaluator copies
# view -> output index-for-index over ndindex(shape(view)), only after the shapes were found equal, and the
# allocating overload resizes the result to shape(view) before the copy and returns that object.
# --------------------------------------------------------------------------------------------
def rule_eval(rows, prop):
    findings, samples, n = [], [], 0
    seen = set()
    SHAPE_O, SHAPE_V = "nmtools::shape($output)", "nmtools::shape(this.view)"
    for r in rows:
        if "fn" not in r or not r.get("cfg") or not re.search(r"evaluator_t<.*>::operator\(\)$", r["fn"]) and not r["fn"].endswith("evaluator_t::operator()"):
            continue
        if "/array/eval.hpp" not in r["file"] or "none_t" not in r.get("sig", "") and "none_t" not in r.get("class", ""):
            continue
        params = [p["name"] for p in r["params"]]
        key = (r["line"], r.get("sig", "")[:600])
        if key in seen:
            continue
        seen.add(key)
        locs, _ = single_def_locals(r)
        sub = lambda e: subst_locals(e, locs)
        facts = r["facts"]
        if params == ["output"] and any(f["k"] == "loop" for f in facts):
            n += 1
            copies = [f for f in facts if f["k"] == "assign" and f["a"].startswith("nmtools::apply_at(")]
            if len(copies) != 1:
                findings.append(finding("R-EVAL.copy", prop, r, "loop", "expected exactly one element copy in the evaluator loop, found %d" % len(copies))); continue
            c = copies[0]
            lhs, rhs = sub(c["a"]), sub(c["b"])
            # one induction variable, whatever its name; the two shapes were found equal before the loop, so either may
            # parametrise either ndindex
            ml = re.fullmatch(r"nmtools::apply_at\(\$output,nmtools::index::ndindex\((.+?)\)\[%(\w+)\]\)", lhs)
            mr = re.fullmatch(r"nmtools::apply_at\(this\.view,nmtools::index::ndindex\((.+?)\)\[%(\w+)\]\)", rhs)
            iv = ml.group(2) if ml else "i"
            if not (ml and mr and ml.group(2) == mr.group(2) and ml.group(1) in (SHAPE_O, SHAPE_V) and mr.group(1) in (SHAPE_O, SHAPE_V)):
                findings.append(finding("R-EVAL.copy", prop, r, "%s = %s" % (c["a"], c["b"]), "element copy is %s = %s; expected output[ndindex(shape(output))[i]] = view[ndindex(shape(view))[i]] with one induction variable" % (lhs, rhs), c.get("line")))
            loops = [f for f in facts if f["k"] == "loop"]
            bound = sub(loops[0]["b"])
            cn = _cmp_norm(bound.replace(" ", ""), 1)
            ok_bounds = ["nmtools::index::ndindex(%s).size()" % SHAPE_V, "nmtools::index::ndindex(%s).size()" % SHAPE_O]
            if not (cn and cn[0] == "<" and cn[1] == "%" + iv and cn[2] in ok_bounds):
                findings.append(finding("R-EVAL.bound", prop, r, loops[0]["b"], "copy loop runs while %s, expected i < ndindex(shape(view)).size()" % bound, loops[0].get("line")))
            EQ = ("nmtools::utils::isequal(%s,%s)" % (SHAPE_O, SHAPE_V), "nmtools::utils::isequal(%s,%s)" % (SHAPE_V, SHAPE_O))
            def shapes_equal_edges(facts_g):
                # edges on which isequal(shape(output), shape(view)) is known to hold (1) / not to hold (0), negations peeled
                out_ = set()
                for x in expand_guards(facts_g):
                    c_, p_ = _strip_not(sub(x["cond"]).replace(" ", ""), x["pol"])
                    if c_ in EQ:
                        out_.add(p_)
                return out_
            if 1 not in shapes_equal_edges(c.get("g", [])):
                findings.append(finding("R-EVAL.guard", prop, r, c["a"], "element copy is not preceded by the shape-equality test of output and view", c.get("line")))
            rets = [f for f in facts if f["k"] == "return"]
            for rt in rets:
                gr = set((sub(x["cond"]).replace(" ", ""), x["pol"]) for x in expand_guards(rt.get("g", [])))
                if 0 not in shapes_equal_edges(rt.get("g", [])):
                    findings.append(finding("R-EVAL.guard", prop, r, "return", "early return of the evaluator is not the shape-mismatch exit; guards: %s" % sorted(gr)[:3], rt.get("line")))
            if len(samples) < 2:
                samples.append("R-EVAL %s = %s" % (lhs, rhs))
        elif params == []:
            n += 1
            rs = [f for f in facts if f["k"] == "call" and f["a"].endswith("apply_resize")]
            calls = [f for f in facts if f["k"] == "call" and f["b"].replace(" ", "") == "(*this)(%output)"]
            rets = [f["a"] for f in facts if f["k"] == "return"]
            if rets != ["%output"] or not calls:
                findings.append(finding("R-EVAL.alloc", prop, r, "operator()()", "allocating overload does not copy into and return its local result (returns %s, copy call present: %s)" % (rets, bool(calls))))
            sub2 = lambda e: subst_locals(e, {k: v for k, v in locs.items() if k != "output"})
            for x in rs:
                if sub2(x["b"]) != "nmtools::detail::apply_resize(%%output,%s)" % SHAPE_V:
                    findings.append(finding("R-EVAL.resize", prop, r, x["b"], "result is resized with %s, expected apply_resize(output, shape(view))" % sub2(x["b"]), x.get("line")))
                elif calls and not (x.get("line", 0) < calls[0].get("line", 0)):
                    findings.append(finding("R-EVAL.resize", prop, r, x["b"], "resize does not precede the copy", x.get("line")))
            if "is_resizable" in " ".join(g_.get("cond", "") for x in facts for g_ in x.get("g", [])) and not rs:
                findings.append(finding("R-EVAL.resize", prop, r, "operator()()", "resizable result is never resized to shape(view)"))
    return findings, n, samples


def comp_eval(prop, tier, comp, work):
    t0 = time.time()
    tu = os.path.join(VERIF, "drivers", "maybe_inst.cpp")
    rows, err, cmd = run_nmlint(tu, filters=["/include/nmtools/array/eval.hpp"], inst=True, cfg=True)
    out = dict(broken=[], units=1, functions=len(rows), cmd=cmd)
    if err:
        out["broken"].append(err); return out
    f, n, samples = rule_eval(rows, prop)
    out.update(findings=f, instances={"R-EVAL": n}, evaluations=n, distinct_nontrivial=n - len(set((x["instantiation"], x["line"]) for x in f)), samples=samples, wall_s=round(time.time() - t0, 2))
    return out


# --------------------------------------------------------------------------------------------
# R-EQSHAPE (C18) on instantiations of utils::detail::isequal / isclose that contain an element loop:
# the loop is entered only through the false edges of run-time tests (not asserts) of length - for index
# arrays - resp. dimension AND shape equality - for ndarrays -, whose true edges return false.
# --------------------------------------------------------------------------------------------
def _eq_atoms(guards, locs):
    """facts known on a path, independent of spelling: ('ne'|'eq', A, B) for A != B / A == B (either order, negations peeled,
    single-definition locals looked through) and ('iseq', X, Y, 0|1) for the truth of isequal(X, Y)"""
    out = set()
    for g in expand_guards(guards):
        c, pol = _strip_not(subst_locals(g["cond"], locs).replace(" ", ""), g["pol"])
        m = re.fullmatch(r"\((.+?)(==|!=)(false|true)\)", c)
        if m and _balanced(m.group(1)):
            c, pol = _strip_not(m.group(1), pol if (m.group(2) == "==") == (m.group(3) == "true") else 1 - pol)
        mi = re.fullmatch(r"(?:::)?(?:nmtools::)?(?:utils::)?(?:detail::)?isequal\((.+)\)", c)
        if mi:
            args = split_args(mi.group(1))
            if len(args) == 2:
                out.add(("iseq",) + tuple(sorted(args)) + (pol,)); continue
        if _wraps_whole(c):
            inner = c[1:-1]; depth = 0
            for k in range(len(inner) - 1):
                ch = inner[k]
                depth += ch == "("; depth -= ch == ")"
                if depth == 0 and inner[k:k + 2] in ("==", "!="):
                    A, B = inner[:k], inner[k + 2:]
                    if _balanced(A) and _balanced(B):
                        kind = "eq" if (inner[k:k + 2] == "==") == (pol == 1) else "ne"
                        out.add((kind,) + tuple(sorted((A, B))))
                    break
    return out


def _balanced(e):
    d = 0
    for ch in e:
        d += ch == "("; d -= ch == ")"
        if d < 0:
            return False
    return d == 0


def _mirror(A, B):
    """B is A with the first operand replaced by the second ($t -> $u): the same quantity of the two operands"""
    return A != B and (A.replace("$t", "$u") == B or B.replace("$t", "$u") == A)


def rule_eqshape(rows, prop):
    findings, samples, n = [], [], 0
    seen = set()
    for r in rows:
        if "fn" not in r or not r.get("cfg") or r["fn"] not in ("nmtools::utils::detail::isequal", "nmtools::utils::detail::isclose"):
            continue
        loops = [f for f in r["facts"] if f["k"] == "loop"]
        if not loops or r.get("sig") in seen:
            continue
        seen.add(r.get("sig")); n += 1
        locs, _ = single_def_locals(r)
        rets_false = [f for f in r["facts"] if f["k"] == "return" and f["a"] == "false"]
        ret_atoms = [_eq_atoms(f.get("g", []), locs) for f in rets_false]
        loop_atoms = [_eq_atoms(l.get("g", []), locs) for l in loops]
        def mirrored(atoms, kind, word):
            return any(a[0] == kind and _mirror(a[1], a[2]) and re.search(word, a[1]) for a in atoms)
        bound = subst_locals(loops[0]["b"], locs).replace(" ", "")
        index_flavour = bool(re.search(r"nmtools::len\(\$[tu]\)", bound))
        if index_flavour:
            ok = any(mirrored(a, "ne", r"len\(") for a in ret_atoms) and all(mirrored(a, "eq", r"len\(") for a in loop_atoms)
            if not ok:
                findings.append(finding("R-EQSHAPE.length", prop, r, loops[0]["b"], "element loop over index arrays is not preceded by a run-time length test returning false (an assert does not count)", loops[0].get("line")))
        else:
            okd = any(mirrored(a, "ne", r"dim|len\(") for a in ret_atoms) and all(mirrored(a, "eq", r"dim|len\(") for a in loop_atoms)
            if not okd:
                findings.append(finding("R-EQSHAPE.dim", prop, r, loops[0]["b"], "element loop over ndarrays is not preceded by a run-time dimension test returning false", loops[0].get("line")))
            oks = any(any(a[0] == "iseq" and a[3] == 0 and _mirror(a[1], a[2]) and "shape" in a[1] for a in atoms) for atoms in ret_atoms)
            if not oks:
                findings.append(finding("R-EQSHAPE.shape", prop, r, loops[0]["b"], "element loop over ndarrays is not preceded by a run-time shape-equality test returning false in this instantiation (e.g. (2,3) vs (3,2) with equal element count)", loops[0].get("line")))
        if len(samples) < 3:
            samples.append("R-EQSHAPE %s" % r.get("sig", "")[:160])
    return findings, n, samples


def comp_eqshape(prop, tier, comp, work):
    t0 = time.time()
    tu = os.path.join(VERIF, "drivers", "maybe_inst.cpp")
    rows, err, cmd = run_nmlint(tu, filters=["/include/nmtools/utility/is"], inst=True, cfg=True)
    out = dict(broken=[], units=1, functions=len(rows), cmd=cmd)
    if err:
        out["broken"].append(err); return out
    f, n, samples = rule_eqshape(rows, prop)
    out.update(findings=f, instances={"R-EQSHAPE": n}, evaluations=n, distinct_nontrivial=n - len(set(x["instantiation"] for x in f)), samples=samples, wall_s=round(time.time() - t0, 2))
    return out


# --------------------------------------------------------------------------------------------
# R-PAIR (sibling agreement inside one function): a local named for one operand side (a_*, lhs_*, left_* /
# b_*, rhs_*, right_*) is computed from identifiers of its own side; one that mentions only the OTHER side's
# identifiers is the copy-paste slip "b_dst_shape = f(a_src_shape)".  Single-letter stage names (a, b, c) are not sides.
# Scope: the anchor files of the property (read from properties.jsonl).
# --------------------------------------------------------------------------------------------
SIDE_A, SIDE_B = {"a", "lhs", "left"}, {"b", "rhs", "right"}

def _sides(txt):
    ha = hb = False
    for t in re.findall(r"[%$]?[A-Za-z_][A-Za-z0-9_]*", txt):
        comps = t.lstrip("%$").split("_")
        if any(c in SIDE_A for c in comps):
            ha = True
        if any(c in SIDE_B for c in comps):
            hb = True
    return ha, hb

def anchor_files(prop):
    for l in open(os.path.join(VERIF, "properties.jsonl")):
        pr = json.loads(l)
        if pr["id"] == prop:
            return pr["anchors"]["files"]
    return []

def rule_pair(rows, prop):
    tbl = load_table("pair_tables.json")
    anchors = anchor_files(prop)
    findings, samples, n = [], [], 0
    for r in rows:
        if "fn" not in r:
            continue
        rf = relfile(r["file"])
        if not any(rf == a or (a.endswith("/") and rf.startswith(a)) for a in anchors):
            continue
        for f in r["facts"]:
            if f["k"] != "local" or not f["b"]:
                continue
            comps = f["a"].split("_")
            if len(comps) < 2:
                continue
            na = any(c in SIDE_A for c in comps); nb = any(c in SIDE_B for c in comps)
            if na == nb:
                continue
            ha, hb = _sides(f["b"])
            if not (ha or hb):
                continue
            n += 1
            bad = (nb and ha and not hb) or (na and hb and not ha)
            key = "%s:%s:%s" % (rf, r["fn"].split("::")[-1].split("(lambda")[0] or "lambda", f["a"])
            if bad and key not in tbl["exempt"]:
                findings.append(finding("R-PAIR", prop, r, "%s = %s" % (f["a"], f["b"]), "local '%s' is named for one operand side but is computed only from the other side's identifiers: %s" % (f["a"], f["b"])))
            elif len(samples) < 3:
                samples.append("R-PAIR %s: %s = %s" % (rf.split("/")[-1], f["a"], f["b"][:60]))
    return findings, n, samples


def comp_pair(prop, tier, comp, work):
    t0 = time.time()
    tu, n = gen_umbrella(["nmtools/array/view", "nmtools/array/index"], work, "umb_vi.cpp")
    rows, err, cmd = run_nmlint(tu, filters=["include/nmtools/array/view/", "include/nmtools/array/index/"])
    out = dict(broken=[], units=n, functions=len(rows), cmd=cmd)
    if err:
        out["broken"].append(err); return out
    f, inst, samples = rule_pair(rows, prop)
    out.update(findings=f, instances={"R-PAIR": inst}, evaluations=inst, distinct_nontrivial=inst - len(f), samples=samples, wall_s=round(time.time() - t0, 2))
    return out


# --------------------------------------------------------------------------------------------
# R-FOLD (C08): the reduction views fold, accumulator first, over the C-order flattening of exactly the slice
# index::reduction_slices designates (proved separately by E1), in increasing index order; accumulate folds the
# prefix [0, s+1) of the axis.  Structural facts of view/ufunc/reduce.hpp and accumulate.hpp (template definitions).
# --------------------------------------------------------------------------------------------
def rule_fold(rows, prop):
    findings, samples, n = [], [], 0
    fns = [r for r in rows if "fn" in r]
    by_line = {}
    for r in fns:
        by_line[(r["file"], r["line"])] = r
    def lam(r, expr):
        m = re.fullmatch(r"lambda@(\d+)\(\)", expr)
        return by_line.get((r["file"], int(m.group(1)))) if m else None
    for r in fns:
        fn = r["fn"]
        facts = r["facts"]
        locs = {f["a"]: f["b"] for f in facts if f["k"] == "local"}
        rets = [f["a"] for f in facts if f["k"] == "return"]
        if fn == "nmtools::view::reducer_t::operator()":
            n += 1
            acc = rets[0][1:] if len(rets) == 1 and rets[0].startswith("%") else None
            loops = [f for f in facts if f["k"] == "loop"]
            asg = [f for f in facts if f["k"] == "assign" and f["a"] == "%" + str(acc)]
            ok = acc and len(loops) == 1 and len(asg) == 1
            why = ""
            if ok:
                m = re.fullmatch(r"\(%(\w+) < %(\w+)\)", loops[0]["b"])
                iv = m.group(1) if m else None
                if not m or locs.get(m.group(2)) != "len($array)":
                    ok = False; why = "loop bound is %s, expected i < len(array)" % loops[0]["b"]
                elif not re.fullmatch(r"\(%" + iv + r" post\+\+\)|\(\+\+ %" + iv + r"\)", loops[0]["c"]):
                    ok = False; why = "induction variable is not incremented by one: " + loops[0]["c"]
                elif asg[0]["b"] != "this.op(%%%s,at($array,%%%s))" % (acc, iv):
                    ok = False; why = "fold step is %s, expected op(accumulator, element i) with the accumulator first" % asg[0]["b"]
                else:
                    start = locs.get(iv); init = locs.get(acc, "")
                    if not ((init == "$init" and start == "0") or (init == "at($array,0)" and start == "1")):
                        ok = False; why = "accumulator starts from %s and the loop from %s (expected init/0 or element 0/1)" % (init, start)
            else:
                why = "expected one accumulator returned, one loop and one fold step"
            if not ok:
                findings.append(finding("R-FOLD.reducer", prop, r, "; ".join("%s=%s" % (f["a"], f["b"]) for f in asg)[:200], why))
            else:
                samples.append("R-FOLD reducer: %s = %s" % (asg[0]["a"], asg[0]["b"]))
        elif re.fullmatch(r"nmtools::view::reduce_t(<.*>)?::operator\(\)", fn) and not r.get("lambda"):
            n += 1
            flat = locs.get("flattened", "")
            full = "none_t" in fn       # specialisation for axis=None: the whole array is folded
            okc = True; why = ""
            if full:
                lf = lam(r, flat)
                lrets = [f["a"] for f in lf["facts"] if f["k"] == "return"] if lf else []
                if not lrets or any(x not in ("unwrap(view::flatten((* this.array)))", "unwrap(view::flatten(this.array))") for x in lrets):
                    okc = False; why = "full reduction does not fold the C-order flattening of the whole array: %s" % lrets
            else:
                if flat != "unwrap(view::flatten(%sliced))":
                    okc = False; why = "folded sequence is %s, expected the C-order flattening of the slice" % flat
                ls = lam(r, locs.get("sliced", ""))
                if okc and ls:
                    sl = {f["a"]: f["b"] for f in ls["facts"] if f["k"] == "local"}
                    lrets = [f["a"] for f in ls["facts"] if f["k"] == "return"]
                    want = "index::reduction_slices(%indices_,unwrap(detail::shape<true>(this.array)),this.axis,this.keepdims)"
                    if sl.get("slices") != want or locs.get("indices_") != "pack_indices($indices...)":
                        okc = False; why = "slices are %s of %s, expected %s of the packed result index" % (sl.get("slices"), locs.get("indices_"), want)
                    elif any(x not in ("apply_slice((* this.array),%slices)", "apply_slice(this.array,%slices)") for x in lrets) or not lrets:
                        okc = False; why = "slice is not taken from the operand array: %s" % lrets
                elif okc:
                    okc = False; why = "slice computation not found"
            lr = lam(r, rets[0]) if len(rets) == 1 else None
            rr = [f["a"] for f in lr["facts"] if f["k"] == "return"] if lr else []
            if okc and (not rr or any(x not in ("this.reducer.operator()(%flattened)", "this.reducer.operator()(%flattened,this.initial)") for x in rr)):
                okc = False; why = "result is not reducer(flattened[, initial]): %s" % rr
            if not okc:
                findings.append(finding("R-FOLD.reduce", prop, r, fn.split("::")[-1], why))
        elif fn == "nmtools::view::accumulate_t::operator()":
            n += 1
            okc = True; why = ""
            if not re.fullmatch(r"\(\(%i == (?:this\.|%)\w*axis\w*\) \? 0 : %s\)", locs.get("start", "")) or locs.get("stop") != "(%s + 1)" or locs.get("s") != "at(%indices_,%i)":
                okc = False; why = "prefix slice is [%s, %s) with s = %s; expected [i==axis ? 0 : s, s+1) with s = result index i" % (locs.get("start"), locs.get("stop"), locs.get("s"))
            asg = [f for f in facts if f["k"] == "assign" and f["a"] == "at(%slices,%i)"]
            if okc and (len(asg) != 1 or asg[0]["b"] != "{%start,%stop}"):
                okc = False; why = "slice i is not {start, stop}"
            if okc and (locs.get("flattened") != "unwrap(view::flatten(%sliced))" or rets != ["this.reducer.operator()(%flattened)"]):
                okc = False; why = "running fold is not reducer(flatten(slice))"
            if not okc:
                findings.append(finding("R-FOLD.accumulate", prop, r, "accumulate_t::operator()", why))
    return findings, n, samples


RED_ALIASES = {"sum": ("reduce", "add"), "prod": ("reduce", "multiply"), "cumsum": ("accumulate", "add"), "cumprod": ("accumulate", "multiply")}

def rule_redfwd(rows, prop):
    """sum / prod / cumsum / cumprod are the add / multiply reduction resp. accumulation with the operands in order"""
    findings, n = [], 0
    for r in rows:
        if "fn" not in r or r.get("lambda"):
            continue
        m = re.fullmatch(r"nmtools::view::(sum|prod|cumsum|cumprod)", r["fn"])
        if not m or os.path.basename(r["file"])[:-4] != m.group(1):
            continue
        name = m.group(1); ctor, opname = RED_ALIASES[name]
        n += 1
        aliases = {f["a"]: f["b"] for f in r["facts"] if f["k"] == "alias"}
        named = ["$" + p_["name"] for p_ in r["params"] if p_["name"]]
        for rt in [f for f in r["facts"] if f["k"] == "return"]:
            pc = parse_call(rt["a"])
            if not pc:
                findings.append(finding("R-REDFWD", prop, r, rt["a"], "does not return a reduction")); continue
            callee, args = pc
            if callee in (name, "view::" + name):
                rest = args
            elif callee == ctor:
                opt = re.sub(r"\{.*$", "", args[0]) if args else ""
                opt = aliases.get(opt, opt)
                if base_op_name(opt) != opname:
                    findings.append(finding("R-REDFWD", prop, r, rt["a"], "view::%s folds with op '%s', expected %s" % (name, opt, opname), rt.get("line"))); continue
                rest = args[1:]
            else:
                findings.append(finding("R-REDFWD", prop, r, rt["a"], "view::%s returns %s(...), expected %s(...) or a delegation to itself" % (name, callee, ctor), rt.get("line"))); continue
            k = len(named)
            if rest[:k] != named or any(t.startswith("$") for t in rest[k:]):
                findings.append(finding("R-REDFWD", prop, r, rt["a"], "operands passed %s differ from the parameters in order %s" % (rest, named), rt.get("line")))
    return findings, n


def comp_fold(prop, tier, comp, work):
    t0 = time.time()
    tu = os.path.join(work, "umb_ufc2.cpp"); open(tu, "w").write('#include "nmtools/array/view/ufunc.hpp"\n')
    rows, err, cmd = run_nmlint(tu, filters=["include/nmtools/array/view/ufunc/"])
    out = dict(broken=[], units=1, functions=len(rows), cmd=cmd)
    if err:
        out["broken"].append(err); return out
    # R-FOLD proper (the textual shape of reducer_t / reduce_t / accumulate_t) was retired: it named local variables and fired on
    # behaviour-preserving renames. The fold order and the folded elements are proved semantically by E1 (obligations/c08b_fold.cpp).
    f, n, samples = [], 0, []
    tu2, nn = gen_umbrella(["nmtools/array/view"], work, "umb_view2.cpp")
    rows2, err2, _ = run_nmlint(tu2, filters=["include/nmtools/array/view/sum.hpp", "include/nmtools/array/view/prod.hpp", "include/nmtools/array/view/cumsum.hpp", "include/nmtools/array/view/cumprod.hpp"])
    if err2:
        out["broken"].append(err2); return out
    f2, n2 = rule_redfwd(rows2, prop)
    out["functions"] += len(rows2)
    out.update(findings=f + f2, instances={"R-REDFWD": n2}, evaluations=n + n2, distinct_nontrivial=n + n2 - len(f + f2), samples=samples, wall_s=round(time.time() - t0, 2))
    return out


# --------------------------------------------------------------------------------------------
# R-MEMCOPY (C20, C19): inside a copy-assignment operator or copy constructor taking `other`, a store into member M
# of *this (this.M, at(this.M,i), this.M[i]) whose value is read from `other` reads the SAME member: other.M.
# ("strides_[i] = other.shape_[i]" is the slip.)  Also: operator= does not modify *this before it first reads `other`
# (self-assignment safety).  Template definitions of ndarray/, utl/ and view/.
# --------------------------------------------------------------------------------------------
def rule_memcopy(rows, prop, files):
    findings, samples, n = [], [], 0
    for r in rows:
        if "fn" not in r or r.get("lambda"):
            continue
        if not any(x in r["file"] for x in files):
            continue
        short = r["fn"].split("::")[-1]
        pnames = [p_["name"] for p_ in r["params"]]
        cls_short = r.get("class", "").split("::")[-1]
        # the single parameter is an object of the class itself (whatever it is called)
        same_class_param = len(r["params"]) == 1 and pnames[0] and cls_short and re.search(r"\b" + re.escape(cls_short) + r"\b", r["params"][0].get("type", ""))
        is_assign = short == "operator=" and same_class_param
        is_cctor = r.get("class") and same_class_param and (short == cls_short or short.startswith(cls_short + "<"))
        if not (is_assign or is_cctor):
            continue
        OTHER = "$" + pnames[0]
        first_other = None
        for f in r["facts"]:
            if OTHER in f["a"] + f["b"] and f.get("line") is not None:
                first_other = f["line"] if first_other is None else min(first_other, f["line"])
        for f in r["facts"]:
            if f["k"] == "assign":
                ml = re.match(r"(?:nmtools::)?(?:at\()?this\.(\w+)", f["a"])
                if not ml:
                    continue
                mr = re.findall(re.escape(OTHER) + r"\.(\w+)", f["b"])
                if mr:
                    n += 1
                    if any(x != ml.group(1) for x in mr):
                        findings.append(finding("R-MEMCOPY", prop, r, "%s = %s" % (f["a"], f["b"]), "member '%s' of *this is copied from member(s) %s of other" % (ml.group(1), mr), f.get("line")))
                    elif len(samples) < 3:
                        samples.append("R-MEMCOPY %s: %s = %s" % (r["fn"].split("::")[-2] if "::" in r["fn"] else r["fn"], f["a"], f["b"]))
                elif is_assign and first_other is not None and f.get("line") is not None and f["line"] < first_other and f["c"] == "=":
                    n += 1
                    findings.append(finding("R-MEMCOPY.selfassign", prop, r, "%s = %s" % (f["a"], f["b"]), "operator= writes member '%s' of *this before it first reads `other`: x = x then sees the modified object (self-assignment is not harmless)" % ml.group(1), f.get("line")))
            elif f["k"] == "ctorinit" and is_cctor:
                mr = re.findall(re.escape(OTHER) + r"\.(\w+)", f["b"])
                if mr:
                    n += 1
                    if any(x != f["a"] for x in mr) and f["a"] != "<base>":
                        findings.append(finding("R-MEMCOPY", prop, r, "%s(%s)" % (f["a"], f["b"]), "member '%s' is copy-initialised from member(s) %s of other" % (f["a"], mr)))
    return findings, n, samples


def comp_memcopy(prop, tier, comp, work):
    t0 = time.time()
    dirs = comp.get("dirs", ["nmtools/array/ndarray", "nmtools/utl"])
    tu, nn = gen_umbrella(dirs, work, "umb_mc.cpp", extra_lines=['#include "nmtools/array/eval/kernel_helper.hpp"'] if "nmtools/array/ndarray" in dirs else [])
    files = ["include/" + d + "/" for d in dirs] + (["kernel_helper.hpp"] if "nmtools/array/ndarray" in dirs else [])
    rows, err, cmd = run_nmlint(tu, filters=files)
    out = dict(broken=[], units=nn, functions=len(rows), cmd=cmd)
    if err:
        out["broken"].append(err); return out
    f, n, samples = rule_memcopy(rows, prop, files)
    out.update(findings=f, instances={"R-MEMCOPY": n}, evaluations=n, distinct_nontrivial=n - len(f), samples=samples, wall_s=round(time.time() - t0, 2))
    return out


# --------------------------------------------------------------------------------------------
# R-AXISNORM (C03/C04/C08/C15): NumPy axes may be negative.  Whenever a loop counter / dimension position is compared
# for equality with an axis-valued expression, that expression must be a *normalised* axis: a local initialised from
# normalize_axis(...) (directly or through a helper lambda), a local named normalized_*, or the function must handle the
# sign itself ((axis < 0) test).  A raw parameter or member compared with a counter silently never matches for axis=-1.
# Scope: anchor files of the property; reviewed exceptions (callers that normalise) in tools/axisnorm_tables.json.
# --------------------------------------------------------------------------------------------
def rule_axisnorm(rows, prop):
    tbl = load_table("axisnorm_tables.json")
    anchors = anchor_files(prop)
    findings, samples, seen = [], [], set()
    fns = [r for r in rows if "fn" in r]
    by_line = {(r["file"], r["line"]): r for r in fns}
    n = 0
    for r in fns:
        rf = relfile(r["file"])
        if anchors and not any(rf == a or (a.endswith("/") and rf.startswith(a)) for a in anchors):
            continue
        locs = {f["a"]: f["b"] for f in r["facts"] if f["k"] == "local"}
        alltxt = " ".join((f.get("a", "") + " " + f.get("b", "") + " " + f.get("c", "")) for f in r["facts"])
        owner = r["fn"].split("(")[0].rstrip(":") if (r.get("lambda") or "(anonymous class)" in r["fn"]) else r["fn"]
        for f in r["facts"]:
            for field in ("a", "b", "c"):
                v = f.get(field, "")
                if ("axis" not in v and "axes" not in v) or "==" not in v:
                    continue
                for m in re.finditer(r"\(([^()]*) == ([^()]*)\)", v):
                    for side, other in ((m.group(1), m.group(2)), (m.group(2), m.group(1))):
                        for nme in re.findall(r"(?:this\.|[$%])\w*ax[ie]s\w*", side):
                            if not re.search(r"[$%]\w+", other) or re.search(r"ax[ie]s", other):
                                continue
                            key = (rf, owner.split("::")[-1], nme)
                            if key in seen:
                                continue
                            seen.add(key); n += 1
                            ok = "normaliz" in nme
                            if nme.startswith("%") and not ok:
                                # locals of this function and, for a lambda, of the enclosing function (captured by reference)
                                scope = dict(locs)
                                if r.get("lambda"):
                                    for q in fns:
                                        if q["fn"] == owner and q["file"] == r["file"] and not q.get("lambda"):
                                            for x in q["facts"]:
                                                if x["k"] == "local":
                                                    scope.setdefault(x["a"], x["b"])
                                cur, depth = nme[1:], 0
                                while cur in scope and depth < 4 and not ok:
                                    init = scope[cur]; depth += 1
                                    if "normalize_axis" in init or re.search(r">= 0\) \?|< 0\) \?", init):
                                        ok = True; break
                                    ml = re.fullmatch(r"lambda@(\d+)\(\)", init)
                                    if ml and (r["file"], int(ml.group(1))) in by_line:
                                        ok = any("normalize_axis" in x["a"] + x["b"] for x in by_line[(r["file"], int(ml.group(1)))]["facts"] if x["k"] in ("return", "local", "call"))
                                        break
                                    mm = re.fullmatch(r"\(\* %(\w+)\)|unwrap\(%(\w+)\)|%(\w+)", init)
                                    if not mm:
                                        break
                                    cur = [g_ for g_ in mm.groups() if g_][0]
                            if not ok and re.search(r"\(" + re.escape(nme) + r" < 0\)", alltxt):
                                ok = True
                            ek = "%s:%s:%s" % (rf, owner.split("::")[-1], nme)
                            if not ok and ek in tbl["exempt"]:
                                ok = True
                            if not ok:
                                findings.append(finding("R-AXISNORM", prop, r, m.group(0), "position compared with the raw axis %s: a negative axis (counting from the end, as NumPy allows) never matches, the operation is silently applied to no axis" % nme, f.get("line")))
                            elif len(samples) < 3:
                                samples.append("R-AXISNORM %s %s: %s" % (rf.split("/")[-1], owner.split("::")[-1], m.group(0)))
    return findings, n, samples


def comp_axisnorm(prop, tier, comp, work):
    t0 = time.time()
    tu, nn = gen_umbrella(["nmtools/array/view", "nmtools/array/index"], work, "umb_vi2.cpp")
    rows, err, cmd = run_nmlint(tu, filters=["include/nmtools/array/view/", "include/nmtools/array/index/"])
    out = dict(broken=[], units=nn, functions=len(rows), cmd=cmd)
    if err:
        out["broken"].append(err); return out
    f, inst, samples = rule_axisnorm(rows, prop)
    out.update(findings=f, instances={"R-AXISNORM": inst}, evaluations=inst, distinct_nontrivial=inst - len(f), samples=samples, wall_s=round(time.time() - t0, 2))
    return out


def _axis_normalised(expr, locs, by_line, file, depth=0):
    """is the expression passed as an axis argument visibly normalised? (name, normalize_axis, or a `< 0 ? x + n : x` form,
    followed through single-definition locals and immediately-invoked lambdas)"""
    if depth > 4:
        return False
    if "normaliz" in expr or "normalize_axis" in expr or re.search(r"< 0\) \?|>= 0\) \?", expr):
        return True
    m = re.fullmatch(r"%(\w+)", expr.strip())
    if m and m.group(1) in locs:
        return _axis_normalised(locs[m.group(1)], locs, by_line, file, depth + 1)
    ml = re.fullmatch(r"lambda@(\d+)\(\)", expr.strip())
    if ml and (file, int(ml.group(1))) in by_line:
        lam = by_line[(file, int(ml.group(1)))]
        llocs = {f["a"]: f["b"] for f in lam["facts"] if f["k"] == "local"}
        return any(_axis_normalised(x["a"], llocs, by_line, file, depth + 1) for x in lam["facts"] if x["k"] == "return")
    return False


def rule_axisnorm_callers(rows, prop, scope_substr):
    """R-AXISNORM.caller: an index-level function that compares a position with its own raw `axis` parameter (loop bound or
    equality) REQUIRES a normalised axis; the obligation moves to its callers, transitively through functions that merely hand
    their own axis parameter on. Every other call site must pass a visibly normalised value."""
    fns = [r for r in rows if "fn" in r and scope_substr in r["file"]]
    by_line = {(r["file"], r["line"]): r for r in fns}
    short = lambda name: re.sub(r"<.*$", "", name).split("::")[-1]
    # 1. raw consumers: position compared with $axis in a loop / if / expression, no own `< 0` handling
    requires = {}   # short function name -> index of the axis parameter
    for r in fns:
        if r.get("lambda"):
            continue
        params = r.get("params", [])
        alltxt = " ".join((f.get("a", "") + " " + str(f.get("b", ""))) for f in r["facts"])
        for i, prm in enumerate(params):
            pn = prm if isinstance(prm, str) else prm.get("name", "")
            if not re.fullmatch(r"ax[ie]s\w*", pn or ""):
                continue
            if re.search(r"\(%\w+ (<=|<|==|>=|>) \$" + pn + r"\)|\(\$" + pn + r" (<=|<|==|>=|>) %\w+\)", alltxt) and not re.search(r"\(\$" + pn + r" < 0\)|normalize_axis\(\$" + pn, alltxt):
                requires[short(r["fn"])] = i
    changed = True
    while changed:
        changed = False
        for r in fns:
            if r.get("lambda") or short(r["fn"]) in requires:
                continue
            params = [(prm if isinstance(prm, str) else prm.get("name", "")) for prm in r.get("params", [])]
            for f in r["facts"]:
                if f["k"] != "call" or short(f["a"]) not in requires:
                    continue
                pc = parse_call(f["b"])
                if not pc or len(pc[1]) <= requires[short(f["a"])]:
                    continue
                a = pc[1][requires[short(f["a"])]].strip()
                if a.startswith("$") and a[1:] in params:
                    requires[short(r["fn"])] = params.index(a[1:]); changed = True
    # 2. every remaining call site must pass a normalised value
    findings, n, samples = [], 0, []
    for r in fns:
        params = [(prm if isinstance(prm, str) else prm.get("name", "")) for prm in r.get("params", [])]
        locs = {f["a"]: f["b"] for f in r["facts"] if f["k"] == "local"}
        seen = set()
        for f in r["facts"]:
            if f["k"] != "call" or short(f["a"]) not in requires:
                continue
            pc = parse_call(f["b"])
            if not pc or len(pc[1]) <= requires[short(f["a"])]:
                continue
            a = pc[1][requires[short(f["a"])]].strip()
            if a.startswith("$") and a[1:] in params and short(r["fn"]) in requires:
                continue   # handed on: the obligation is the caller's
            if (f["b"]) in seen:
                continue
            seen.add(f["b"]); n += 1
            if _axis_normalised(a, locs, by_line, r["file"]):
                if len(samples) < 3:
                    samples.append("R-AXISNORM.caller %s passes %s" % (short(r["fn"]), a))
            else:
                findings.append(finding("R-AXISNORM.caller", prop, r, f["b"][:200],
                    "%s compares positions with its raw axis parameter, so it needs a normalised axis; this call passes %s, which is the "
                    "caller's axis as given (a negative axis other than a special-cased value reaches the index function unnormalised)" % (short(f["a"]), a), f.get("line")))
    return findings, n, samples, sorted(requires)


def comp_axisnorm_simd(prop, tier, comp, work):
    t0 = time.time()
    tu = os.path.join(work, "umb_simd_axis.cpp")
    open(tu, "w").write('#include "nmtools/array/eval/simd/x86_avx.hpp"\n')
    rows, err, cmd = run_nmlint(tu, filters=["include/nmtools/array/eval/simd/"], flags=["-mavx2", "-mfma"])
    out = dict(broken=[], units=1, functions=len(rows), cmd=cmd)
    if err:
        out["broken"].append(err); return out
    f, inst, samples, req = rule_axisnorm_callers(rows, prop, "include/nmtools/array/eval/simd/")
    if not req:
        out["broken"].append("R-AXISNORM.caller: no index function with a raw axis comparison found under eval/simd (anchor vanished)")
    out.update(findings=f, instances={"R-AXISNORM.caller": inst}, evaluations=inst, distinct_nontrivial=inst - len(f),
               samples=samples + ["requires a normalised axis: " + ", ".join(req)], wall_s=round(time.time() - t0, 2))
    return out


RED_CALLEES = {"sum", "prod", "mean", "var", "stddev", "cumsum", "cumprod", "reduce", "accumulate", "outer", "vector_norm"}

def comp_paramuse(prop, tier, comp, work):
    """R-PARAMUSE: a named parameter of a view-level function is used somewhere in its body (or in a lambda defined in it).
    A parameter that is accepted and then never read is an argument silently dropped (dtype / initial / keepdims / axis not
    handed on to the view it composes). Scope: the functions in the property's anchor files; for C08 additionally every
    view function that composes a reduction (calls sum / prod / mean / var / stddev / cumsum / cumprod / reduce* / accumulate* / vector_norm)."""
    t0 = time.time()
    tu, nn = gen_umbrella(["nmtools/array/view", "nmtools/array/index"], work, "umb_pu.cpp")
    rows, err, cmd = run_nmlint(tu, filters=["include/nmtools/array/view/", "include/nmtools/array/index/"])
    out = dict(broken=[], units=nn, functions=len(rows), cmd=cmd)
    if err:
        out["broken"].append(err); return out
    tbl = load_table("paramuse_tables.json")
    anchors = anchor_files(prop)
    fns = [r for r in rows if "fn" in r]
    findings, n, samples = [], 0, []
    for r in fns:
        if r.get("lambda") or not re.fullmatch(r"nmtools::(view|index)::\w+", r["fn"]):
            continue
        rf = relfile(r["file"])
        in_anchor = any(rf == a or (a.endswith("/") and rf.startswith(a)) for a in anchors)
        composes_red = prop == "C08" and r["fn"].startswith("nmtools::view::") and any(
            f["k"] == "call" and (re.sub(r"<.*$", "", f["a"]).split("::")[-1] in RED_CALLEES or re.match(r"(reduce|accumulate)_", re.sub(r"<.*$", "", f["a"]).split("::")[-1])) for f in r["facts"])
        if not (in_anchor or composes_red):
            continue
        params = [p_["name"] for p_ in r["params"] if p_["name"]]
        if not params:
            continue
        txt = " ".join((f.get("a", "") + " " + str(f.get("b", "")) + " " + str(f.get("c", ""))) for f in r["facts"])
        for q in fns:
            if q.get("lambda") and q["file"] == r["file"] and q["fn"].startswith(r["fn"] + "::("):
                txt += " " + " ".join((f.get("a", "") + " " + str(f.get("b", ""))) for f in q["facts"])
        for pn in params:
            n += 1
            if re.search(r"\$" + re.escape(pn) + r"\b", txt):
                continue
            key = "%s:%s:%s" % (rf, r["fn"].split("::")[-1], pn)
            if key in tbl["unused_ok"]:
                continue
            findings.append(finding("R-PARAMUSE", prop, r, "parameter " + pn, "parameter '%s' of %s is accepted and never read: the argument is silently dropped instead of being handed on" % (pn, r["fn"])))
        if len(samples) < 2:
            samples.append("R-PARAMUSE %s(%s)" % (r["fn"], ",".join(params)))
    out.update(findings=findings, instances={"R-PARAMUSE": n}, evaluations=n, distinct_nontrivial=n - len(findings), samples=samples, wall_s=round(time.time() - t0, 2))
    return out


# AVX comparison predicates (immintrin.h): ordered signalling (_OS) / quiet (_OQ) forms of the same relation are both accepted
CMP_PRED = {"cmpge": (("13", "29"), "_CMP_GE_OS", "cmpge"), "cmpgt": (("14", "30"), "_CMP_GT_OS", "cmpgt"), "cmple": (("2", "18"), "_CMP_LE_OS", "cmple"),
            "cmplt": (("1", "17"), "_CMP_LT_OS", "cmplt"), "cmpeq": (("0", "16"), "_CMP_EQ_OQ", "cmpeq"), "cmpneq": (("4", "12"), "_CMP_NEQ_UQ", "cmpneq")}

def _simd_norm(call):
    """an x86 intrinsic call with its precision suffix erased: _mm256_add_ps(x,y) / _mm256_add_pd(x,y) -> _mm256_add_p?(x,y)"""
    pc = parse_call(call)
    if not pc:
        return None
    name = re.sub(r"_(ps|pd)$", "_p?", pc[0])
    name = re.sub(r"(cmp|round|blendv|sqrt|max|min|add|sub|mul|div)(ps|pd)(\d*)$", r"\1p?\3", name)
    return name, tuple(a.replace(" ", "") for a in pc[1])


def rule_simdsib(rows, prop):
    """R-SIMDSIB: in the x86 back ends every operation of simd_op_t is written twice, for float and for double. The two branches
    must call the same intrinsic up to the precision suffix with the same arguments (incl. the comparison predicate), and a
    comparison cmpXX must use the predicate of its own name."""
    findings, n, samples = [], 0, []
    for r in rows:
        if "fn" not in r or r.get("lambda") or "simd_op_t<" not in r["fn"] or not re.search(r"/eval/simd/x86_\w+\.hpp$", r["file"]):
            continue
        op = r["fn"].split("::")[-1]
        rets = [f for f in r["facts"] if f["k"] == "return" and parse_call(f["a"])]
        fl = [f for f in rets if re.search(r"(_ps|ps\d*)\(", f["a"])]
        db = [f for f in rets if re.search(r"(_pd|pd\d*)\(", f["a"])]
        # a scalar-lane intrinsic (_ss / _sd: operates on the lowest lane only, copies the others) in an operation on whole packs
        lane = [f for f in rets if re.search(r"_mm\d*_\w+_(ss|sd)\(", f["a"])]
        if lane:
            n += 1
            findings.append(finding("R-SIMDSIB", prop, r, lane[0]["a"], "simd op '%s' returns a scalar-lane intrinsic (_ss/_sd): only the lowest lane of the pack is computed" % op, lane[0].get("line"))); continue
        if not fl or not db:
            continue
        n += 1
        a, b = _simd_norm(fl[0]["a"]), _simd_norm(db[0]["a"])
        if a != b:
            findings.append(finding("R-SIMDSIB", prop, r, "%s | %s" % (fl[0]["a"], db[0]["a"]), "float and double branches of simd op '%s' call different operations / arguments" % op, db[0].get("line"))); continue
        if op in CMP_PRED:
            txt = fl[0]["a"].replace(" ", "")
            pred_ok = CMP_PRED[op][2] in txt or any(txt.endswith("," + p_ + ")") for p_ in CMP_PRED[op][0]) or txt.endswith("," + CMP_PRED[op][1] + ")")
            if not pred_ok:
                findings.append(finding("R-SIMDSIB", prop, r, fl[0]["a"], "comparison '%s' does not use its own predicate (%s)" % (op, CMP_PRED[op][1]), fl[0].get("line"))); continue
        if len(samples) < 2:
            samples.append("R-SIMDSIB %s: %s ~ %s" % (op, fl[0]["a"], db[0]["a"]))
    return findings, n, samples


def rule_simdsib_vector(rows, prop):
    """R-SIMDSIB.vector: in the compiler-vector-extension back end a libm-style operation is written twice, lane by lane, with the single
    precision builtin (`__builtin_<name>f`) for float data and the double precision one (`__builtin_<name>`) otherwise. The two branches
    must call the same function up to the `f` suffix, with the same arguments, and the function must be the one the operation is named after."""
    findings, n, samples = [], 0, []
    for r in rows:
        if "fn" not in r or r.get("lambda") or "simd_op_t<" not in r["fn"] or not r["file"].endswith("/eval/simd/vector_extension.hpp"):
            continue
        op = r["fn"].split("::")[-1]
        calls = [f for f in r["facts"] if f["k"] == "call" and f["a"].startswith("__builtin_") and not f["a"].startswith("__builtin_shuffle")]
        if len(calls) < 2:
            continue
        n += 1
        names = [c["a"][len("__builtin_"):] for c in calls]
        args = set(c["b"][c["b"].index("("):] for c in calls)
        single = [x for x in names if x.endswith("f") and x[:-1] in [y for y in names] + [x[:-1]]]
        bases = set(x[:-1] if (x.endswith("f") and (x[:-1] in names or all(y == x for y in names))) else x for x in names)
        ok = len(set(names)) == 2 and len(bases) == 1 and len(args) == 1
        if ok:
            base = list(bases)[0]
            fl, db = base + "f", base
            # the float branch is the first one (under `is_same_v<data_t,float>`)
            ok = names[0] == fl and names[-1] == db and base.endswith(op.rstrip("_"))
        if not ok:
            findings.append(finding("R-SIMDSIB", prop, r, " | ".join(c["b"] for c in calls), "single and double precision branches of vector-extension op '%s' do not call one function in its two precisions (float branch first) named after the operation" % op, calls[-1].get("line")))
        elif len(samples) < 2:
            samples.append("R-SIMDSIB.vector %s: %s ~ %s" % (op, calls[0]["b"], calls[-1]["b"]))
    return findings, n, samples


def comp_simdsib(prop, tier, comp, work):
    t0 = time.time()
    tu = os.path.join(work, "umb_simd_sib.cpp")
    open(tu, "w").write('#include "nmtools/array/eval/simd/x86_avx.hpp"\n#include "nmtools/array/eval/simd/x86_sse.hpp"\n')
    rows, err, cmd = run_nmlint(tu, filters=["include/nmtools/array/eval/simd/x86_"], flags=["-mavx2", "-mfma"])
    out = dict(broken=[], units=1, functions=len(rows), cmd=cmd)
    if err:
        out["broken"].append(err); return out
    f, n, samples = rule_simdsib(rows, prop)
    if n == 0:
        out["broken"].append("R-SIMDSIB: no float/double operation pair found in the x86 back ends (anchor vanished)")
    tu2 = os.path.join(work, "umb_simd_vx.cpp")
    open(tu2, "w").write('#include "nmtools/array/eval/simd/vector_extension.hpp"\n')
    rows2, err2, _ = run_nmlint(tu2, filters=["include/nmtools/array/eval/simd/vector_extension.hpp"], flags=["-mavx2", "-mfma"])
    if err2:
        out["broken"].append(err2); return out
    f2, n2, s2 = rule_simdsib_vector(rows2, prop)
    if n2 == 0:
        out["broken"].append("R-SIMDSIB.vector: no lane-by-lane builtin pair found in the vector-extension back end (anchor vanished)")
    f += f2; samples += s2
    out.update(findings=f, instances={"R-SIMDSIB": n, "R-SIMDSIB.vector": n2}, evaluations=n + n2, distinct_nontrivial=n + n2 - len(f), samples=samples, wall_s=round(time.time() - t0, 2))
    return out


def comp_eqlen(prop, tier, comp, work):
    """R-EQLEN (C18): in apply_isequal / apply_isclose (the comparison helpers behind the library's own expectations) every branch that
    walks two sequences starts its verdict from the EQUALITY of their lengths: a local initialised from a comparison of len(left) with
    len(right) is `len(left) == len(right)` in either order - never an ordering (>=, <=) that lets a longer operand pass as a prefix."""
    t0 = time.time()
    tu = os.path.join(work, "umb_eqlen.cpp")
    open(tu, "w").write('#include "nmtools/utility/apply_isequal.hpp"\n#include "nmtools/utility/apply_isclose.hpp"\n')
    rows, err, cmd = run_nmlint(tu, filters=["include/nmtools/utility/apply_is"])
    out = dict(broken=[], units=1, functions=len(rows), cmd=cmd)
    if err:
        out["broken"].append(err); return out
    findings, n, samples = [], 0, []
    for r in rows:
        if "fn" not in r:
            continue
        for f in r["facts"]:
            if f["k"] != "local":
                continue
            e = f["b"].replace(" ", "")
            m = re.fullmatch(r"\((?:nmtools::)?len\(\$(\w+)\)(==|!=|<=|>=|<|>)(?:nmtools::)?len\(\$(\w+)\)\)", e)
            if not m or m.group(1) == m.group(3):
                continue
            n += 1
            if m.group(2) != "==":
                findings.append(finding("R-EQLEN", prop, r, "%s = %s" % (f["a"], f["b"]), "the verdict of an element-wise comparison starts from `%s` of the two lengths instead of their equality: an operand that is a proper prefix of the other compares equal (and the longer one may be read past the shorter)" % m.group(2), f.get("line")))
            elif len(samples) < 2:
                samples.append("R-EQLEN %s: %s = %s" % (r["fn"].split("::")[-1], f["a"], f["b"]))
    if n == 0:
        out["broken"].append("R-EQLEN: no length comparison found in apply_isequal / apply_isclose (anchor vanished)")
    out.update(findings=findings, instances={"R-EQLEN": n}, evaluations=n, distinct_nontrivial=n - len(findings), samples=samples, wall_s=round(time.time() - t0, 2))
    return out


# --------------------------------------------------------------------------------------------
# driver
# --------------------------------------------------------------------------------------------
def run(prop, tier, spec, jobs=16):
    t0 = time.time()
    work = tempfile.mkdtemp(prefix="e2_", dir=os.environ.get("VERIF_SCRATCH", "/var/tmp"))
    res = dict(broken=[], findings=[], instances={}, evaluations=0, distinct_nontrivial=0, samples=[], components=[], cmd="")
    try:
        for comp in spec:
            rule = comp["rule"]
            fn = RULES[rule]
            out = fn(prop, tier, comp, work)
            res["broken"] += out.get("broken", [])
            res["findings"] += out.get("findings", [])
            for k, v in out.get("instances", {}).items():
                res["instances"][k] = res["instances"].get(k, 0) + v
            res["evaluations"] += out.get("evaluations", 0)
            res["distinct_nontrivial"] += out.get("distinct_nontrivial", 0)
            res["samples"] += out.get("samples", [])
            res["components"].append(dict(engine="E2", rule=rule, units=out.get("units", 0), functions=out.get("functions", 0),
                                          instances=out.get("instances", {}), findings=len(out.get("findings", [])), wall_s=out.get("wall_s", 0)))
            if out.get("cmd") and not res["cmd"]:
                res["cmd"] = out["cmd"]
    finally:
        shutil.rmtree(work, ignore_errors=True)
    return res


def _norm_default(x):
    x = re.sub(r"\b(?:nmtools::|meta::|::)", "", x or "")
    x = re.sub(r"\s+", "", x)
    x = re.sub(r"\b(?:None|none_t\{\})", "none_t{}", x)
    return x


def _effective_default(p, tparams):
    """default value of a function parameter as the caller gets it: `T{}` / `T{v}` with T a template parameter is read through T's default type"""
    if not p.get("default"):
        return None
    tparams = dict(tparams)
    for _ in range(4):   # a default type may name an earlier template parameter (max_val_t = min_val_t)
        for k, d in list(tparams.items()):
            if d in tparams and tparams[d]:
                tparams[k] = tparams[d]
    dx = p.get("defexpr", "")
    m = re.fullmatch(r"(\w+)\{(.*)\}", dx)
    if m and m.group(1) in tparams:
        d = tparams[m.group(1)]
        return _norm_default(d + "{" + m.group(2) + "}") if d else None
    m = re.fullmatch(r"(\w+)\((.*)\)", dx)
    if m and m.group(1) in tparams:
        d = tparams[m.group(1)]
        return _norm_default(d + "{" + m.group(2) + "}") if d else None
    return _norm_default(dx) if dx and dx != "<default>" else None


def rule_fwd_defaults(rows, prop):
    """R-FWD.defaults (C10): a defaulted leading parameter of array::X has the default the lazy view::X gives the parameter at the same position
    (array::X(a) must evaluate the view the user gets from view::X(a))."""
    tbl = load_table("fwd_tables.json")
    aliases = tbl["array_view_alias"]; exempt = tbl["array_exempt"]
    allowed = tbl.get("array_default_exempt", {})
    views = {}
    for r in rows:
        if "fn" in r and not r.get("lambda") and r["fn"].startswith("nmtools::view::") and "/array/view/" in r.get("file", ""):
            views.setdefault(r["fn"][len("nmtools::view::"):], []).append(r)
    findings, instances, samples = [], 0, []
    for r in rows:
        if "fn" not in r or r.get("lambda") or "/array/array/" not in r.get("file", ""):
            continue
        names = [p["name"] for p in r["params"]]
        if "context" not in names or r["fn"] in exempt:
            continue
        lead = r["params"][:names.index("context")]
        if not any(p.get("default") for p in lead):
            continue
        want = expected_view_name(r, aliases)
        cands = [v for v in views.get(want, []) if len(v["params"]) >= len(lead) and all(q.get("default") or q.get("pack") for q in v["params"][len(lead):])
                 and sum(1 for q in v["params"] if not q.get("default") and not q.get("pack")) <= len(lead)]
        if len(cands) != 1:
            continue
        v = cands[0]
        at = {t["name"]: t["default"] for t in r.get("tparams", [])}; vt = {t["name"]: t["default"] for t in v.get("tparams", [])}
        for i, p in enumerate(lead):
            q = v["params"][i]
            da, dv = _effective_default(p, at), _effective_default(q, vt)
            if da is None or dv is None:
                continue
            instances += 1
            key = "%s#%s" % (r["fn"], p["name"])
            if da != dv and key not in allowed:
                findings.append(finding("R-FWD.defaults", prop, r, "parameter " + p["name"],
                                        "eager wrapper defaults parameter %d ('%s') to %s, the lazy view %s defaults it to %s: omitting the argument evaluates a different view" % (i, p["name"], da, v["fn"], dv)))
            elif len(samples) < 4:
                samples.append("R-FWD.defaults %s: %s = %s" % (r["fn"], p["name"], da))
    return findings, instances, samples


def comp_fwd_array(prop, tier, comp, work):
    t0 = time.time()
    tu, n = gen_umbrella(["nmtools/array/array"], work, "umb_array.cpp")
    rows_all, err, cmd = run_nmlint(tu, filters=["include/nmtools/array/array/", "include/nmtools/array/view/"])
    rows = [r for r in rows_all if "/array/array/" in r.get("file", "")]
    out = dict(broken=[], units=n, functions=len(rows), cmd=cmd)
    if err:
        out["broken"].append(err); return out
    f, inst, samples = rule_fwd_array(rows, prop)
    f2, inst2, samples2 = rule_fwd_defaults(rows_all, prop)
    out.update(findings=f + f2, instances={"R-FWD.array": inst, "R-FWD.defaults": inst2}, evaluations=inst + inst2, distinct_nontrivial=inst + inst2 - len(f) - len(f2), samples=samples + samples2, wall_s=round(time.time() - t0, 2))
    return out


# --------------------------------------------------------------------------------------------
# R-STICKYFAIL (C06, C15, C09): a failure flag that a per-axis helper OVERWRITES (`success = <this axis is compatible>`, not
# `success = success && ...`) is only meaningful if every body that calls the helper repeatedly (a loop, or the lambda handed to
# template_for) tests the flag itself - stops at, or skips after, the first failure. Otherwise a later compatible axis erases an
# earlier failure and incompatible shapes are accepted. Both sibling bodies of one function (compile-time-length and run-time-length)
# are instances, so the two container-kind branches are held to the same discipline. Name-free: the flag is any bool local initialised
# `true` of the enclosing function, the helper any local lambda of it that assigns the flag from an expression not mentioning it.
# --------------------------------------------------------------------------------------------
def rule_stickyfail(rows, prop):
    findings, samples, n = [], [], 0
    fns = [r for r in rows if "fn" in r]
    by_parent = {}
    for r in fns:
        if r.get("lambda"):
            by_parent.setdefault((r["file"], r.get("parent_sig")), []).append(r)
    for F in fns:
        if F.get("lambda"):
            continue
        flags = [f["a"] for f in F["facts"] if f["k"] == "local" and f.get("c", "").replace("const ", "") == "bool" and f.get("b") == "true"]
        if not flags:
            continue
        lambdas = by_parent.get((F["file"], F.get("sig")), [])
        for flag in flags:
            ref = "%" + flag
            helpers = []
            for L in lambdas:
                if not L.get("lambda_var"):
                    continue
                for f in L["facts"]:
                    if f["k"] == "assign" and f["a"] == ref and f.get("c") == "=" and ref not in re.findall(r"%\w+", f.get("b", "")) and f.get("b") not in ("false", "true"):
                        helpers.append(L["lambda_var"]); break
            for h in helpers:
                href = "%" + h
                for R in [F] + lambdas:
                    if R.get("lambda_var") == h:
                        continue
                    # (a) loops of this body that call the helper: the loop body itself must read the flag
                    for f in R["facts"]:
                        if f["k"] != "loopbody" or href not in f.get("b", "").split(";"):
                            continue
                        n += 1
                        if ref not in f.get("c", "").split(";"):
                            row = dict(R); row["line"] = f.get("line", R.get("line"))
                            findings.append(finding("R-STICKYFAIL", prop, row, "loop calls %s(...) without reading '%s'" % (h, flag),
                                                    "the helper '%s' overwrites the failure flag '%s' on every call; this loop calls it for every axis and never reads the flag, so a later compatible axis erases an earlier failure" % (h, flag)))
                        elif len(samples) < 3:
                            samples.append("R-STICKYFAIL %s: loop at line %s calls %s and reads %s" % (relfile(R["file"]).split("/")[-1], f.get("line"), h, flag))
                    # (b) a lambda (handed to a compile-time loop) that calls the helper outside any loop of its own: the lambda must test the flag
                    if R.get("lambda") and any(f["k"] == "call" and f["a"] == href for f in R["facts"]) and not any(f["k"] == "loopbody" and href in f.get("b", "").split(";") for f in R["facts"]):
                        n += 1
                        tested = any(f["k"] in ("if", "cond") and ref in re.findall(r"%\w+", f.get("a", "")) for f in R["facts"])
                        if not tested:
                            findings.append(finding("R-STICKYFAIL", prop, R, "lambda calls %s(...) without a test of '%s'" % (h, flag),
                                                    "the helper '%s' overwrites the failure flag '%s' on every call; this lambda is applied to every axis and never tests the flag" % (h, flag)))
                        elif len(samples) < 3:
                            samples.append("R-STICKYFAIL %s: lambda at line %s calls %s and tests %s" % (relfile(R["file"]).split("/")[-1], R.get("line"), h, flag))
                # (c) the helper handed directly to a compile-time loop (template_for<N>(helper)): nothing between two calls can test the flag
                for R in [F] + lambdas:
                    for f in R["facts"]:
                        if f["k"] == "call" and re.search(r"template_for<[^>]*>\(" + re.escape(href) + r"\)", f.get("b", "")):
                            n += 1
                            row = dict(R); row["line"] = f.get("line", R.get("line"))
                            findings.append(finding("R-STICKYFAIL", prop, row, "%s handed directly to template_for" % h,
                                                    "the helper '%s' overwrites the failure flag '%s' on every call and is applied to every axis with no test of the flag in between" % (h, flag)))
    return findings, n, samples


def comp_stickyfail(prop, tier, comp, work):
    t0 = time.time()
    tu, n = gen_umbrella(["nmtools/array/view", "nmtools/array/index"], work, "umb_vi.cpp")
    rows, err, cmd = run_nmlint(tu, filters=["include/nmtools/array/view/", "include/nmtools/array/index/"])
    out = dict(broken=[], units=n, functions=len(rows), cmd=cmd)
    if err:
        out["broken"].append(err); return out
    f, inst, samples = rule_stickyfail(rows, prop)
    out.update(findings=f, instances={"R-STICKYFAIL": inst}, evaluations=inst, distinct_nontrivial=inst - len(f), samples=samples, wall_s=round(time.time() - t0, 2))
    return out


# --------------------------------------------------------------------------------------------
# R-SIMDATTR (C12): the SIMD reduction evaluator must consume every attribute of the reduction view that changes the result
# (op, axis, initial, keepdims) - read it, or test it in order to refuse the view. An evaluator that never looks at `initial`
# cannot equal the default evaluator for a reduction that has one (found as F38). The attribute list is the reviewed table below;
# an attribute counts as consumed when any fact of eval_reduction or of a lambda inside it mentions `view.<attribute>`.
# --------------------------------------------------------------------------------------------
SIMD_REDUCTION_ATTRS = ["op", "axis", "initial", "keepdims"]
def comp_simdattr(prop, tier, comp, work):
    t0 = time.time()
    tu = os.path.join(work, "umb_simd_attr.cpp")
    open(tu, "w").write('#include "nmtools/array/eval/simd/x86_avx.hpp"\n#include "nmtools/array/eval/simd/ufunc.hpp"\n')
    rows, err, cmd = run_nmlint(tu, filters=["include/nmtools/array/eval/simd/evaluator/ufunc.hpp"], flags=["-mavx2", "-mfma"])
    out = dict(broken=[], units=1, functions=len(rows), cmd=cmd)
    if err:
        out["broken"].append(err); return out
    rs = [r for r in rows if "fn" in r and "::eval_reduction" in r["fn"]]
    if not rs:
        out["broken"].append("R-SIMDATTR: eval_reduction not found in eval/simd/evaluator/ufunc.hpp (anchor vanished)"); return out
    text = " ".join(json.dumps(f) for r in rs for f in r["facts"])
    findings, n, samples = [], 0, []
    main = [r for r in rs if not r.get("lambda")][0]
    for a in SIMD_REDUCTION_ATTRS:
        n += 1
        if not re.search(r"view\.%s\b" % a, text):
            findings.append(finding("R-SIMDATTR", prop, main, "view.%s is never read" % a,
                                    "the SIMD reduction evaluator never looks at the reduction view's '%s' attribute: it can neither honour it nor refuse the view, so its result differs from the default evaluator's whenever the attribute is set" % a))
        elif len(samples) < 2:
            samples.append("R-SIMDATTR eval_reduction reads view.%s" % a)
    out.update(findings=findings, instances={"R-SIMDATTR": n}, evaluations=n, distinct_nontrivial=n - len(findings), samples=samples, wall_s=round(time.time() - t0, 2))
    return out


# --------------------------------------------------------------------------------------------
# R-SIBWRITE (C20): overloads of one state-changing member function of an array class (`resize`, `init`) are siblings: each of them has to
# leave ALL the members that describe the array (shape, strides, cached element count, buffer length, offset functor) consistent, so the
# sets of members they write must be equal - unless an overload delegates to a sibling. A member that one overload forgets to refresh
# (a stale cached element count, stale strides) is reported with the overload and the member.
# --------------------------------------------------------------------------------------------
_MUTATING = ("resize", "push_back", "clear", "assign", "emplace_back", "pop_back")
def rule_sibwrite(rows, prop, names=("resize", "init")):
    findings, samples, n = [], [], 0
    groups = {}
    for r in rows:
        if "fn" not in r or r.get("lambda"):
            continue
        leaf = r["fn"].split("::")[-1]
        if leaf in names and "/array/ndarray/" in r["file"]:
            groups.setdefault(r["fn"], []).append(r)
    for fn, rs in sorted(groups.items()):
        if len(rs) < 2:
            continue
        info = []
        for r in rs:
            written = set(); delegates = False
            for f in r["facts"]:
                if f["k"] == "assign" and f["a"].startswith("this."):
                    written.add(re.split(r"[.(\[]", f["a"][5:])[0])
                elif f["k"] == "assign" and re.match(r"(?:::)?nmtools::at\(this\.(\w+)", f["a"]):
                    written.add(re.match(r"(?:::)?nmtools::at\(this\.(\w+)", f["a"]).group(1))
                elif f["k"] == "call" and f["a"].startswith("this."):
                    parts = f["a"][5:].split(".")
                    if len(parts) >= 2 and parts[-1] in _MUTATING:
                        written.add(parts[0])
                    if len(parts) == 1 and parts[0] == fn.split("::")[-1]:
                        delegates = True
                elif f["k"] == "call" and f["a"] == fn.split("::")[-1]:
                    delegates = True
            info.append((r, written, delegates))
        full = [w for _, w, d in info if not d]
        if len(full) < 2:
            continue
        union = set().union(*full)
        for r, w, d in info:
            if d:
                continue
            n += 1
            missing = sorted(union - w)
            if missing:
                findings.append(finding("R-SIBWRITE", prop, r, "%s does not write %s" % (fn.split("::")[-1], ", ".join(missing)),
                                        "overload of %s at line %s leaves member(s) %s untouched while its sibling overloads refresh them (%s): the array's description becomes inconsistent after this overload" % (fn, r.get("line"), missing, sorted(union))))
            elif len(samples) < 2:
                samples.append("R-SIBWRITE %s (line %s) writes %s" % (fn, r.get("line"), sorted(w)))
    return findings, n, samples


def comp_sibwrite(prop, tier, comp, work):
    t0 = time.time()
    tu, n = gen_umbrella(["nmtools/array/ndarray"], work, "umb_nd.cpp", extra_lines=['#include "nmtools/array/eval/kernel_helper.hpp"'])
    rows, err, cmd = run_nmlint(tu, filters=["include/nmtools/array/ndarray/"])
    out = dict(broken=[], units=n, functions=len(rows), cmd=cmd)
    if err:
        out["broken"].append(err); return out
    f, inst, samples = rule_sibwrite(rows, prop)
    if inst == 0:
        out["broken"].append("R-SIBWRITE: no overloaded resize / init found under array/ndarray (anchor vanished)")
    out.update(findings=f, instances={"R-SIBWRITE": inst}, evaluations=inst, distinct_nontrivial=inst - len(f), samples=samples, wall_s=round(time.time() - t0, 2))
    return out


# --------------------------------------------------------------------------------------------
# R-REDAXIS (C17 / C08): sibling agreement inside one composing view - every reduction a view function composes
# (reduce_* / sum / prod / mean / var / stddev / amax / amin / vector_norm / cumsum / cumprod / accumulate_*) is taken over the SAME
# axis expression. softmax's maximum and its normalising sum, var's mean and its sum of squares, the mean and the variance of a
# normalisation, the two norms and the dot product of cosine_similarity: each pair describes one set of slices. A reduction over
# another axis (or over None) is a different function for inputs whose slices differ in level, even where the formula is
# shift-invariant on paper (softmax with the global maximum underflows to 0/0 for slices far below it).
# --------------------------------------------------------------------------------------------
_RED_RE = re.compile(r"^(view::)?(reduce_\w+|sum|prod|mean|var|stddev|amax|amin|vector_norm|cumsum|cumprod|accumulate_\w+)$")

def _split_top(s):
    out, depth, cur = [], 0, ""
    for ch in s:
        if ch in "([{<":
            depth += 1
        elif ch in ")]}>":
            depth -= 1
        if ch == "," and depth == 0:
            out.append(cur.strip()); cur = ""
        else:
            cur += ch
    if cur.strip():
        out.append(cur.strip())
    return out

def rule_redaxis(rows, prop):
    findings, n, samples = [], 0, []
    for r in rows:
        if "fn" not in r or r.get("lambda") or not re.fullmatch(r"nmtools::view::\w+", r["fn"]):
            continue
        calls = [f for f in r["facts"] if f["k"] == "call" and _RED_RE.match(re.sub(r"<.*$", "", f["a"]))]
        if len(calls) < 2:
            continue
        axes = []
        for f in calls:
            m = re.match(r"^[\w:<>]+\((.*)\)$", f["b"])
            args = _split_top(m.group(1)) if m else []
            axes.append(args[1] if len(args) > 1 else "(no axis argument)")
        n += len(calls)
        # the majority expression is the reference (ties: the first)
        ref = max(axes, key=lambda a: (axes.count(a), -axes.index(a)))
        for f, a in zip(calls, axes):
            if a != ref:
                findings.append(finding("R-REDAXIS", prop, r, f["b"][:160], "reduction over `%s` while the sibling reduction(s) of %s are taken over `%s`: the composed reductions describe different slices" % (a, r["fn"], ref), line=f["line"]))
        if len(samples) < 3:
            samples.append("R-REDAXIS %s: %s" % (r["fn"], " | ".join(f["a"] + " over " + a for f, a in zip(calls, axes))))
    return findings, n, samples

def comp_redaxis(prop, tier, comp, work):
    t0 = time.time()
    tu, nn = gen_umbrella(["nmtools/array/view"], work, "umb_ra.cpp")
    rows, err, cmd = run_nmlint(tu, filters=["include/nmtools/array/view/"])
    out = dict(broken=[], units=nn, functions=len(rows), cmd=cmd)
    if err:
        out["broken"].append(err); return out
    f, inst, samples = rule_redaxis(rows, prop)
    if inst == 0:
        out["broken"].append("R-REDAXIS: no view function composing two reductions found (anchor vanished)")
    out.update(findings=f, instances={"R-REDAXIS": inst}, evaluations=inst, distinct_nontrivial=inst - len(f), samples=samples, wall_s=round(time.time() - t0, 2))
    return out


# --------------------------------------------------------------------------------------------
# R-EITHERSIB (C07 / C08 / C18): a function that dispatches on the active alternative of an either-typed operand calls the same
# callee for the left and for the right alternative; the two calls must agree in every other argument (an eps, a keepdims, an
# operand dropped or reordered in ONE alternative is a behaviour that depends on which alternative happens to be active).
# --------------------------------------------------------------------------------------------
_EITHERSIB_SCOPE = {
    "C08": [("include/nmtools/array/view/ufunc.hpp", r"nmtools::view::reduce$")],
    "C07": [("include/nmtools/array/view/ufunc.hpp", r"nmtools::view::(ufunc|unary_ufunc|binary_ufunc|broadcast_binary_ufunc)$")],
    "C18": [("include/nmtools/utility/isequal.hpp", r"nmtools::utils::detail::isequal$"), ("include/nmtools/utility/isclose.hpp", r"nmtools::utils::detail::isclose$")],
}
_L_RE = re.compile(r"%(l_ptr|lptr|left)\b"); _R_RE = re.compile(r"%(r_ptr|rptr|right)\b")

def rule_eithersib(rows, prop):
    findings, n, samples = [], 0, []
    for r in rows:
        if "fn" not in r or r.get("lambda"):
            continue
        rf = relfile(r["file"])
        if not any(rf == f_ and re.search(pat, r["fn"]) for f_, pat in _EITHERSIB_SCOPE.get(prop, [])):
            continue
        calls = [f for f in r["facts"] if f["k"] == "call"]
        lefts = sorted(_L_RE.sub("%SIDE", f["b"]).replace(" ", "") for f in calls if re.search(r"\(\* ?%(l_ptr|lptr)\)", f["b"]))
        rights = sorted(_R_RE.sub("%SIDE", f["b"]).replace(" ", "") for f in calls if re.search(r"\(\* ?%(r_ptr|rptr)\)", f["b"]))
        if not lefts and not rights:
            continue
        n += max(len(lefts), len(rights))
        from collections import Counter as _C
        cl, cr = _C(lefts), _C(rights)
        for k in (cl - cr):
            findings.append(finding("R-EITHERSIB", prop, r, k[:160], "the call for the LEFT alternative of the either operand has no counterpart with the same arguments for the RIGHT alternative (right-hand calls: %s)" % sorted(cr - cl)[:3]))
        for k in (cr - cl):
            if not (cl - cr):
                findings.append(finding("R-EITHERSIB", prop, r, k[:160], "the call for the RIGHT alternative of the either operand has no counterpart with the same arguments for the LEFT alternative"))
        if len(samples) < 3:
            samples.append("R-EITHERSIB %s: %s" % (r["fn"], lefts[:2]))
    return findings, n, samples

def comp_eithersib(prop, tier, comp, work):
    t0 = time.time()
    tu, nn = gen_umbrella(["nmtools/array/view", "nmtools/utility"], work, "umb_es.cpp")
    rows, err, cmd = run_nmlint(tu, filters=["include/nmtools/array/view/ufunc.hpp", "include/nmtools/utility/isequal.hpp", "include/nmtools/utility/isclose.hpp"])
    out = dict(broken=[], units=nn, functions=len(rows), cmd=cmd)
    if err:
        out["broken"].append(err); return out
    f, inst, samples = rule_eithersib(rows, prop)
    if inst == 0:
        out["broken"].append("R-EITHERSIB: no either-dispatching function found in scope for %s (anchor vanished)" % prop)
    out.update(findings=f, instances={"R-EITHERSIB": inst}, evaluations=inst, distinct_nontrivial=inst - len(f), samples=samples, wall_s=round(time.time() - t0, 2))
    return out


RULES = {"R-FWD.array": comp_fwd_array, "R-FWD.functional": comp_fwd_functional, "R-UFUNC": comp_ufunc, "R-KSIB": comp_ksib, "R-SIMD": comp_simd, "R-CONSTBRANCH": comp_constbranch, "R-TRAITPROV": comp_traitprov, "R-MAYBE-DIV": comp_maybe_div, "R-OWN": comp_own, "R-EVAL": comp_eval, "R-EQSHAPE": comp_eqshape, "R-PAIR": comp_pair, "R-FOLD": comp_fold, "R-MEMCOPY": comp_memcopy, "R-AXISNORM": comp_axisnorm, "R-AXISNORM.simd": comp_axisnorm_simd, "R-UFWD.reduce": comp_ufwd_reduce, "R-PARAMUSE": comp_paramuse, "R-GETFN": comp_getfn, "R-MAYBE.broadcast": comp_maybe_bcast, "R-SIMDSIB": comp_simdsib, "R-EQLEN": comp_eqlen, "R-MAYBE.compare": comp_maybe_compare, "R-STICKYFAIL": comp_stickyfail, "R-SIMDATTR": comp_simdattr, "R-SIBWRITE": comp_sibwrite, "R-REDAXIS": comp_redaxis, "R-EITHERSIB": comp_eithersib}
