"""E1 `oblige`: obligation discharge by LLVM's mid-end (DESIGN.md §2).

A driver TU under /verif/obligations is compiled twice against /repo/include as it is now:
  prove   : OBLIGE(id,c) == if(!c) __verif_fail(id,...)   -> calls that SURVIVE -O2 are the residual
  declare : OBLIGE(id,c) == __verif_declare(id,...,c)     -> surviving calls are the reachable
                                                              obligation points (non-vacuity)
Nothing is executed; the verdict is read off the optimised IR.
"""
import os, re, subprocess, json, hashlib, shutil, time, tempfile

VERIF = os.path.dirname(os.path.dirname(os.path.abspath(__file__)))
REPO = os.environ.get("VERIF_REPO", "/repo")
OBDIR = os.path.join(VERIF, "obligations")
CLANG = "clang++"
OPT = "opt-14"
CXXFILT = "llvm-cxxfilt-14"

BASE_FLAGS = ["-std=gnu++17", "-fwrapv", "-g1", "-w", "-DNMTOOLS_VERIF", "-DNDEBUG",
              "-I%s/include" % REPO, "-I" + OBDIR, "-S", "-emit-llvm"]
INL = ["-mllvm", "-inline-threshold=20000"]

# sound pipelines, tried in order until the residual is empty (each is a refinement)
def _pipelines():
    return [
        ("clang-O2", None),
        ("opt-O2x2", [[OPT, "-O2", "-inline-threshold=20000", "-S"]] * 2),
        ("opt-O3", [[OPT, "-O3", "-inline-threshold=20000", "-S"]]),
        ("opt-reassoc", [[OPT, "-passes=function(reassociate,instcombine,gvn,correlated-propagation,simplifycfg,instcombine)", "-S"],
                         [OPT, "-O2", "-inline-threshold=20000", "-S"]]),
    ]

_STR_RE = re.compile(r'^(@[\w.$"]+) = .*? c"((?:[^"\\]|\\[0-9A-Fa-f]{2})*)\\00"')
_DEF_RE = re.compile(r'^define .*? @("?[\w.$]+"?)\(')
_CALL_RE = re.compile(r'(?:call|invoke) void @(__verif_fail|__verif_declare|__verif_negctl|__verif_negctl_declare)\((.*)\)(.*)$')
_DBG_RE = re.compile(r'!dbg !(\d+)')


def _unescape(s):
    return re.sub(r'\\([0-9A-Fa-f]{2})', lambda m: chr(int(m.group(1), 16)), s)


def _split_args(s):
    out, depth, cur = [], 0, ""
    for ch in s:
        if ch in "([{":
            depth += 1
        elif ch in ")]}":
            depth -= 1
        if ch == "," and depth == 0:
            out.append(cur.strip()); cur = ""
        else:
            cur += ch
    if cur.strip():
        out.append(cur.strip())
    return out


def parse_ir(text):
    """Return dict with calls: list of (func, kind, id, ints(tuple), cond, dbg)."""
    strings = {}
    calls = []
    func = None
    md = {}
    for line in text.splitlines():
        if line.startswith("@"):
            m = _STR_RE.match(line)
            if m:
                strings[m.group(1)] = _unescape(m.group(2))
            continue
        if line.startswith("define "):
            m = _DEF_RE.match(line)
            func = m.group(1).strip('"') if m else "?"
            continue
        if line.startswith("}"):
            func = None
            continue
        if line.startswith("!"):
            mm = re.match(r'^!(\d+) = (.*)$', line)
            if mm:
                md[int(mm.group(1))] = mm.group(2)
            continue
        if "@__verif_" in line:
            m = _CALL_RE.search(line)
            if not m:
                continue
            kind = m.group(1)
            args = _split_args(m.group(2))
            sid = "?"
            ms = re.search(r'(@[\w.$"]+)', args[0]) if args else None
            if ms and ms.group(1) in strings:
                sid = strings[ms.group(1)]
            ints = []
            for a in args[1:5]:
                mi = re.search(r'(-?\d+)$', a)
                ints.append(int(mi.group(1)) if mi and not a.split()[-1].startswith('%') else "?")
            cond = None
            if kind.endswith("declare") and len(args) >= 6:
                a = args[5].split()[-1]
                cond = int(a) if re.fullmatch(r'-?\d+', a) else ("undef" if a in ("undef", "poison") else "?")
            d = _DBG_RE.search(m.group(3))
            calls.append(dict(func=func, kind=kind, id=sid, ints=tuple(ints), cond=cond,
                              dbg=int(d.group(1)) if d else None))
    return calls, md


def _dbg_chain(md, n, limit=40):
    """Resolve a !DILocation to a list of (file,line,function) from innermost to outermost."""
    out = []
    seen = 0
    while n is not None and seen < limit:
        seen += 1
        s = md.get(n, "")
        m = re.search(r'DILocation\(line: (\d+)(?:, column: (\d+))?, scope: !(\d+)(?:, inlinedAt: !(\d+))?', s)
        if not m:
            break
        line = int(m.group(1)); scope = int(m.group(3))
        fn, fl = _scope_info(md, scope)
        out.append((fl, line, fn))
        n = int(m.group(4)) if m.group(4) else None
    return out


def _scope_info(md, scope, limit=20):
    fn = "?"; fl = "?"
    k = 0
    while scope is not None and k < limit:
        k += 1
        s = md.get(scope, "")
        if s.startswith("distinct !DISubprogram") or s.startswith("!DISubprogram"):
            m = re.search(r'name: "([^"]*)"', s)
            fn = m.group(1) if m else "?"
            mf = re.search(r'file: !(\d+)', s)
            if mf:
                fs = md.get(int(mf.group(1)), "")
                m2 = re.search(r'filename: "([^"]*)"(?:, directory: "([^"]*)")?', fs)
                if m2:
                    fl = m2.group(1)
            break
        m = re.search(r'scope: !(\d+)', s)
        mf = re.search(r'file: !(\d+)', s)
        if mf and fl == "?":
            fs = md.get(int(mf.group(1)), "")
            m2 = re.search(r'filename: "([^"]*)"', fs)
            if m2:
                fl = m2.group(1)
        scope = int(m.group(1)) if m else None
    return fn, fl


def _func_body(text, func):
    """Text of one define."""
    pat = re.compile(r'^define .*? @"?' + re.escape(func) + r'"?\(', re.M)
    m = pat.search(text)
    if not m:
        return ""
    end = text.find("\n}\n", m.start())
    return text[m.start():end + 3]


def repo_path_of_residual(text, md, func):
    """Library functions (under REPO/include) whose code remains in the residual function:
    the call path the violation report names."""
    body = _func_body(text, func)
    seen = []
    for d in set(int(x) for x in _DBG_RE.findall(body)):
        for (fl, line, fn) in _dbg_chain(md, d):
            if "/include/nmtools/" in fl:
                key = (fl[fl.index("/include/nmtools/") + 1:], fn)
                if key not in seen:
                    seen.append(key)
    return sorted(seen)


def demangle(names):
    names = list(names)
    if not names:
        return {}
    p = subprocess.run([CXXFILT], input="\n".join(names), capture_output=True, text=True)
    outs = p.stdout.splitlines()
    return dict(zip(names, outs)) if len(outs) == len(names) else {n: n for n in names}


def _run(cmd, inp=None):
    p = subprocess.run(cmd, input=inp, capture_output=True, text=True)
    return p.returncode, p.stdout, p.stderr


# source-level variants, tried only on what is still residual after the IR pipelines: the verdict of a dead-branch proof
# must not depend on one particular inlining order (each variant is a sound compilation of the same TU)
SRC_VARIANTS = [
    # keeps zero-fill loops as typed stores (a memset has no type-based alias information and clobbers every length field LLVM cannot
    # separate from it by offset)
    ("clang-O2-noidiom", ["-mllvm", "-inline-threshold=20000", "-mllvm", "-disable-loop-idiom-all", "-O2"]),
    ("clang-O3-inl100k", ["-mllvm", "-inline-threshold=100000", "-O3"]),
    ("clang-O2-inl3k", ["-mllvm", "-inline-threshold=3000", "-O2"]),
    # code that uses explicit vector types (the SIMD evaluators): no auto-vectorisation (the SLP vectoriser turns the oracle's scalar sum
    # into llvm.vector.reduce.* which nothing relates to the library's lanes again), then every vector operation / load / store is split
    # into scalars so that the lane arithmetic becomes ordinary integer arithmetic
    ("clang-O2-novec-scalarized", ["-mllvm", "-inline-threshold=20000", "-O2", "-fno-slp-vectorize", "-fno-vectorize"]),   # (the -fno-* flags after -O2, or clang 14 re-enables the vectorisers)
]
# IR steps applied after a source variant (same soundness argument: LLVM passes preserve semantics)
SRC_VARIANT_POST = {
    "clang-O2-novec-scalarized": [[OPT, "-scalarize-load-store", "-passes=function(scalarizer,instcombine,gvn,reassociate,instcombine,early-cse,reassociate,instcombine,simplifycfg)", "-S"]],
}


def compile_tu(src, mode, tier, extra, workdir, opt=None, tag=""):
    flags = list(BASE_FLAGS) + (list(opt) if opt else INL + ["-O2"]) + list(extra)
    if mode == "declare":
        flags.append("-DVERIF_DECLARE")
    if tier == "thorough":
        flags.append("-DVERIF_THOROUGH")
    out = os.path.join(workdir, os.path.basename(src) + "." + mode + tag + ".ll")
    cmd = [CLANG] + flags + [src, "-o", out]
    rc, so, se = _run(cmd)
    return rc, out, se, " ".join(cmd)


def analyse_tu(src, tier="quick", extra=(), keep_ir=False):
    """Compile one driver TU in both modes; return the obligations table."""
    t0 = time.time()
    workdir = tempfile.mkdtemp(prefix="e1_", dir=os.environ.get("VERIF_SCRATCH", "/var/tmp"))
    res = dict(tu=os.path.relpath(src, VERIF), tier=tier, extra=list(extra), error=None,
               declared=[], residual=[], negctl_declared=[], negctl_residual=[], refuted=[], indeterminate=[],
               pipelines_used=[], cmd=None)
    try:
        rc, dll, se, cmd = compile_tu(src, "declare", tier, extra, workdir)
        if rc != 0:
            res["error"] = "declare-mode compile failed: " + se[-3000:]
            return res
        rc, pll, se, cmd = compile_tu(src, "prove", tier, extra, workdir)
        res["cmd"] = cmd
        if rc != 0:
            res["error"] = "prove-mode compile failed: " + se[-3000:]
            return res
        dtext = open(dll).read()
        dcalls, _ = parse_ir(dtext)
        ptext = open(pll).read()
        used = ["clang-O2"]
        pcalls, md = parse_ir(ptext)
        def residual_of(calls):
            return [c for c in calls if c["kind"] == "__verif_fail"]
        resid = residual_of(pcalls)
        trace = []
        trace.append(("clang-O2", len(resid), round(time.time() - t0, 1)))
        # every pipeline is sound on its own; stop as soon as nothing is left
        if resid:
            for name, steps in _pipelines()[1:]:
                cur = pll
                ok = True
                for i, st in enumerate(steps):
                    nxt = os.path.join(workdir, "p_%s_%d.ll" % (name, i))
                    rc, so, se = _run(st + [cur, "-o", nxt])
                    if rc != 0:
                        ok = False; break
                    cur = nxt
                if not ok:
                    continue
                used.append(name)
                t2 = open(cur).read()
                c2, md2 = parse_ir(t2)
                r2 = residual_of(c2)
                # intersect residuals by key: discharged by ANY pipeline counts
                keys2 = set((c["func"], c["id"], c["ints"]) for c in r2)
                new = [c for c in resid if (c["func"], c["id"], c["ints"]) in keys2]
                if len(new) < len(resid) or not new:
                    # keep IR/metadata of the pipeline that has the smaller residual for reporting
                    if len(r2) <= len(resid):
                        ptext, md, pcalls = t2, md2, c2
                        # re-anchor entries to this IR's dbg ids
                        m2 = {(c["func"], c["id"], c["ints"]): c for c in r2}
                        new = [m2[(c["func"], c["id"], c["ints"])] for c in new]
                    resid = new
                trace.append((name, len(resid), round(time.time() - t0, 1)) + ((sorted(set(c["func"][:60] for c in resid)),) if 0 < len(resid) <= 12 and os.environ.get("VERIF_E1_TRACE") else ()))
                if not resid:
                    break
        if resid:
            # a TU may name the source variant that suits its code (`// E1-PREFER: <variant>`): it is tried first (order only)
            m_pref = re.search(r'^// E1-PREFER: (\S+)', open(src).read(), re.M)
            variants = sorted(SRC_VARIANTS, key=lambda v: 0 if (m_pref and v[0] == m_pref.group(1)) else 1)
            for vname, vopt in variants:
                rc, vll, se, _ = compile_tu(src, "prove", tier, extra, workdir, opt=vopt, tag="." + vname)
                if rc != 0:
                    continue
                used.append(vname)
                for i, st in enumerate(SRC_VARIANT_POST.get(vname, [])):
                    nxt = os.path.join(workdir, "v_%s_%d.ll" % (vname, i))
                    rc, so, se = _run(st + [vll, "-o", nxt])
                    if rc == 0:
                        vll = nxt
                t2 = open(vll).read()
                c2, md2 = parse_ir(t2)
                keys2 = set((c["func"], c["id"], c["ints"]) for c in residual_of(c2))
                resid = [c for c in resid if (c["func"], c["id"], c["ints"]) in keys2]
                trace.append((vname, len(resid), round(time.time() - t0, 1)))
                if not resid:
                    break
        res["pipelines_used"] = used
        res["residual_after_each_pipeline"] = trace
        names = set(c["func"] for c in dcalls) | set(c["func"] for c in pcalls if c["func"])
        dm = demangle(n for n in names if n)
        for c in dcalls:
            e = dict(func=dm.get(c["func"], c["func"]), id=c["id"], ints=list(c["ints"]), cond=c["cond"])
            if c["kind"] == "__verif_declare":
                res["declared"].append(e)
                if c["cond"] == 0:
                    # the condition folded to false on a reachable point: counts as undischarged even when the prove-mode branch vanished
                    # (an earlier constant-false obligation or undefined behaviour ends the path there and would hide it)
                    res["refuted"].append(e); res["indeterminate"].append(e)
                if c["cond"] == "undef":
                    # the condition was computed from an indeterminate value (a constant out-of-bounds read of a local, an uninitialised
                    # member): the prove-mode branch on it can be folded either way, so the obligation counts as undischarged
                    res["indeterminate"].append(e)
            else:
                res["negctl_declared"].append(e)
        # jump threading can duplicate one obligation point into a copy whose condition is the constant false (on a path LLVM has not
        # proved dead in declare mode) next to a copy with the condition true / symbolic: only a point ALL of whose copies fold to
        # false / undef is a refutation
        conds = {}
        for e in res["declared"]:
            conds.setdefault((e["func"], e["id"], tuple(e["ints"])), set()).add(e["cond"])
        def _all_bad(e):
            return conds.get((e["func"], e["id"], tuple(e["ints"])), set()) <= {0, "undef"}
        res["refuted"] = [e for e in res["refuted"] if _all_bad(e)]
        res["indeterminate"] = [e for e in res["indeterminate"] if _all_bad(e)]
        for c in pcalls:
            if c["kind"] == "__verif_negctl":
                res["negctl_residual"].append(dict(func=dm.get(c["func"], c["func"]), id=c["id"], ints=list(c["ints"])))
        for c in resid:
            chain = _dbg_chain(md, c["dbg"]) if c["dbg"] is not None else []
            path = repo_path_of_residual(ptext, md, c["func"])
            res["residual"].append(dict(func=dm.get(c["func"], c["func"]), id=c["id"], ints=list(c["ints"]),
                                        driver_loc=["%s:%d (%s)" % x for x in chain[-2:]],
                                        library_path=["%s :: %s" % x for x in path][:40]))
        if res["indeterminate"]:
            # the declare-mode IR has only been through the first pipeline: a point whose condition folded to false / undef may simply be
            # unreachable in a way only the later pipelines see. Keep a candidate only if it is still there, with the same verdict,
            # after every IR-level pipeline has been applied to the declare-mode IR as well.
            cand = set((e["func"], e["id"], tuple(e["ints"])) for e in res["indeterminate"])
            for name, steps in _pipelines()[1:]:
                cur = dll; ok = True
                for i, st in enumerate(steps):
                    nxt = os.path.join(workdir, "d_%s_%d.ll" % (name, i))
                    rc, so, se = _run(st + [cur, "-o", nxt])
                    if rc != 0:
                        ok = False; break
                    cur = nxt
                if not ok:
                    continue
                c2, _ = parse_ir(open(cur).read())
                ok2 = set((dm.get(c["func"], c["func"]), c["id"], tuple(c["ints"])) for c in c2 if c["kind"] == "__verif_declare" and c["cond"] not in (0, "undef"))
                still = set((dm.get(c["func"], c["func"]), c["id"], tuple(c["ints"])) for c in c2 if c["kind"] == "__verif_declare" and c["cond"] in (0, "undef")) - ok2
                cand &= still
                if not cand:
                    break
            res["indeterminate"] = [e for e in res["indeterminate"] if (e["func"], e["id"], tuple(e["ints"])) in cand]
            res["refuted"] = [e for e in res["refuted"] if (e["func"], e["id"], tuple(e["ints"])) in cand]
        have = set((r["func"], r["id"], tuple(r["ints"])) for r in res["residual"])
        for e in res["indeterminate"]:
            if (e["func"], e["id"], tuple(e["ints"])) not in have:
                res["residual"].append(dict(func=e["func"], id=e["id"], ints=e["ints"], driver_loc=[],
                                            library_path=["(declare mode) the obligation's condition folded to %s on a reachable point" % ("false" if e.get("cond") == 0 else "undef/poison: the path reads an indeterminate value")]))
        if keep_ir:
            res["ir_dir"] = workdir
    finally:
        res["wall_s"] = round(time.time() - t0, 2)
        if not keep_ir:
            shutil.rmtree(workdir, ignore_errors=True)
    return res
