"""E3 `witness`: batched compile-pass / compile-fail type-level witnesses (DESIGN.md §2, §8).

Every witness is a few lines of C++ placed in its own namespace behind a `#line 1 "W_<id>"` marker; the
whole batch of a property is type-checked once (-fsyntax-only -ferror-limit=0) against /repo/include.
must-fail witnesses (the violating program must not build) need >= 1 error attributed to them, must-pass
witnesses (a type-level fact, stated with static_assert(is_same_v / trait)) need none.  Only types are
asserted - no value computed by library code is compared.
"""
import os, re, subprocess, tempfile, shutil, time, importlib.util

VERIF = os.path.dirname(os.path.dirname(os.path.abspath(__file__)))
REPO = os.environ.get("VERIF_REPO", "/repo")


def load_witnesses():
    spec = importlib.util.spec_from_file_location("witnesses", os.path.join(VERIF, "witness", "witnesses.py"))
    m = importlib.util.module_from_spec(spec); spec.loader.exec_module(m)
    return m


def run(prop, tier, spec):
    t0 = time.time()
    W = load_witnesses()
    ws = [w for w in W.WITNESSES if w["prop"] == prop]
    res = dict(broken=[], findings=[], witnesses=len(ws), samples=[], components=[], cmd="")
    if not ws:
        res["broken"].append("no witnesses defined for " + prop); return res
    work = tempfile.mkdtemp(prefix="e3_", dir=os.environ.get("VERIF_SCRATCH", "/var/tmp"))
    try:
        src = [W.PRELUDE]
        for w in ws:
            src.append('#line 1 "W_%s"\nnamespace w_%s {\n%s\n}\n' % (w["id"], w["id"], w["code"]))
        tu = os.path.join(work, "witness_%s.cpp" % prop)
        open(tu, "w").write("\n".join(src))
        cmd = ["clang++", "-std=gnu++17", "-fsyntax-only", "-ferror-limit=0", "-ftemplate-backtrace-limit=0", "-w", "-DNDEBUG", "-I%s/include" % REPO, tu]
        p = subprocess.run(cmd, capture_output=True, text=True)
        res["cmd"] = " ".join(cmd)
        # group diagnostics: an error line followed by its notes
        groups, cur = [], None
        for line in p.stderr.splitlines():
            if re.search(r": (fatal )?error: ", line):
                cur = [line]; groups.append(cur)
            elif cur is not None:
                cur.append(line)
        errs = {w["id"]: [] for w in ws}
        unattributed = []
        last_ids = []
        for g in groups:
            ids = set(re.findall(r"W_(\w+?):\d+", "\n".join(g)))
            ids = [i for i in ids if i in errs]
            if not ids and last_ids:
                ids = last_ids      # clang prints the instantiation backtrace once per context: follow-up errors belong to the same witness
            last_ids = ids
            if not ids:
                unattributed.append(g[0])
            for i in ids:
                errs[i].append(g[0])
        if unattributed:
            res["broken"].append("errors not attributable to a witness (prelude or header no longer parses): " + " | ".join(unattributed[:3]))
        for w in ws:
            e = errs[w["id"]]
            if w["kind"] == "fail" and not e:
                res["findings"].append(dict(rule="E3.must_fail", property=prop, file="witness/witnesses.py", line=0, function=w["id"], construct=w["code"].strip()[:200],
                                            detail="the violating program now type-checks: " + w["why"]))
            elif w["kind"] == "pass" and e:
                res["findings"].append(dict(rule="E3.must_pass", property=prop, file="witness/witnesses.py", line=0, function=w["id"], construct=w["code"].strip()[:200],
                                            detail="type-level fact no longer holds (%s): %s" % (w["why"], e[0][-300:])))
            if len(res["samples"]) < 6:
                res["samples"].append("E3 %s [%s] %s" % (w["id"], "must-" + w["kind"], w["why"]))
        res["components"].append(dict(engine="E3", witnesses=len(ws), must_fail=sum(1 for w in ws if w["kind"] == "fail"),
                                      must_pass=sum(1 for w in ws if w["kind"] == "pass"), diagnostics=len(groups), wall_s=round(time.time() - t0, 2)))
    finally:
        shutil.rmtree(work, ignore_errors=True)
    return res
