#!/bin/bash
# Build the checker binaries from /verif/tools (offline; nothing is fetched).
set -e
cd /verif
mkdir -p bin evidence replay
if [ -f tools/nmlint.cc ]; then
  if [ ! -x bin/nmlint ] || [ tools/nmlint.cc -nt bin/nmlint ]; then
    clang++ $(llvm-config-14 --cxxflags) -fno-rtti -O1 tools/nmlint.cc -o bin/nmlint \
      /usr/lib/llvm-14/lib/libclang-cpp.so.14 /usr/lib/llvm-14/lib/libLLVM-14.so
  fi
fi
echo setup ok
