// Minimal declarations so that the CUDA/HIP kernel *entry templates* parse with a host clang (nothing is compiled or run).
#pragma once
#include <cstddef>
#include <string>
struct dim3 { unsigned x, y, z; };
extern const dim3 threadIdx, blockIdx, blockDim, gridDim;
#define __global__
#define __device__
#define __host__
enum cudaError { cudaSuccess = 0 };
typedef cudaError cudaError_t;
const char* cudaGetErrorString(cudaError);
enum hipError_t { hipSuccess = 0 };
const char* hipGetErrorString(hipError_t);
