#include "../cuda_stub.hpp"
