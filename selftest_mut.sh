#!/bin/bash
# maintenance helper: run a check against a scratch copy of /repo/include with one sed-mutation applied
# usage: selftest_mut.sh <Cxx> <file-under-include/nmtools> <sed-expr>
set -e
P=$1; F=$2; S=$3
D=/var/tmp/mut_$$; rm -rf $D; mkdir -p $D; cp -r /repo/include $D/; 
sed -i "$S" $D/include/nmtools/$F
if diff -q /repo/include/nmtools/$F $D/include/nmtools/$F >/dev/null; then echo "MUTATION DID NOT APPLY"; rm -rf $D; exit 3; fi
VERIF_REPO=$D python3 /verif/check.py $P | grep -v "^       path" | head -${4:-12}
rm -rf $D
