#!/usr/bin/env python3
"""Maintenance helper (not a registered check): re-run the check(s) recorded for every stored seed against the seed, with the checks as they are now.

usage: sweep_seeds.py [-j N] [--only <glob>]

For every seeded/<id>/patch.diff that applies to the current /repo headers, the quick check of each property in its `caught_by` record is run
against a scratch copy of /repo/include with the patch (VERIF_REPO); the record is refreshed. A verdict that was 'caught' and is now 'missed'
is printed as REGRESSION (an earlier verdict may have rested on an artefact - this happened once with C08_10 / C08_11 - or a later change
of a check lost the seed). Seeds whose patch no longer applies (the site was rewritten by a repair) are listed and left alone.
"""
import sys, os, json, glob, shutil, subprocess, fnmatch, concurrent.futures as cf
jobs = int(sys.argv[sys.argv.index("-j") + 1]) if "-j" in sys.argv else 4
only = sys.argv[sys.argv.index("--only") + 1] if "--only" in sys.argv else "*"

def one(d):
    sid = os.path.basename(d); patch = os.path.join(d, "patch.diff"); mp = os.path.join(d, "meta.json")
    m = json.load(open(mp))
    scratch = "/var/tmp/sweep_%s_%d" % (sid, os.getpid()); shutil.rmtree(scratch, ignore_errors=True); os.makedirs(scratch)
    r = subprocess.run("cp -r /repo/include %s/ && cd %s && patch -p1 -s --no-backup-if-mismatch < %s" % (scratch, scratch, patch), shell=True, capture_output=True, text=True)
    if r.returncode:
        shutil.rmtree(scratch, ignore_errors=True); return sid, "DOES-NOT-APPLY", {}
    props = list(m.get("caught_by", {}).keys()) or [m.get("property", sid.split("_")[0])]
    out = {}; reports = {}
    for p in props:
        c = subprocess.run(["python3", "/verif/check.py", p, "--tier", "quick"], capture_output=True, text=True, env=dict(os.environ, VERIF_REPO=scratch, VERIF_JOBS="4"))
        lines = c.stdout.splitlines()
        nv = len([l for l in lines if l.startswith("VIOLATION")])
        out[p] = "check %s exits %d with %d VIOLATION line(s)" % (p, c.returncode, nv)
        reports[p] = [l.strip()[3:].strip()[:260] for l in lines if l.strip().startswith("->")][:3]
    shutil.rmtree(scratch, ignore_errors=True)
    before = m.get("caught_by", {})
    regress = [p for p in props if "exits 1" in before.get(p, "") and "exits 1" not in out[p]]
    m["caught_by"] = out; m["reports"] = reports
    json.dump(m, open(mp, "w"), indent=1)
    return sid, ("REGRESSION " + ",".join(regress)) if regress else "ok", out

dirs = sorted(d for d in glob.glob("/verif/seeded/*") if os.path.exists(os.path.join(d, "patch.diff")) and fnmatch.fnmatch(os.path.basename(d), only))
with cf.ThreadPoolExecutor(jobs) as ex:
    for sid, verdict, out in ex.map(one, dirs):
        print(sid, verdict, {p: ("caught" if "exits 1" in v else v) for p, v in out.items()}, flush=True)
