"""Type-level witnesses of engine E3. `kind`: 'fail' = the program must NOT type-check, 'pass' = must type-check."""
PRELUDE = r'''
#include "nmtools/array/ndarray.hpp"
#include "nmtools/array/view/reshape.hpp"
#include "nmtools/array/view/flatten.hpp"
#include "nmtools/array/view/transpose.hpp"
#include "nmtools/array/view/ref.hpp"
#include "nmtools/array/view/slice.hpp"
#include "nmtools/array/view/tile.hpp"
#include "nmtools/array/view/repeat.hpp"
#include "nmtools/array/view/take.hpp"
#include "nmtools/array/view/pad.hpp"
#include "nmtools/array/view/concatenate.hpp"
#include "nmtools/array/view/mutable_reshape.hpp"
#include "nmtools/array/view/mutable_flatten.hpp"
#include "nmtools/array/view/mutable_ref.hpp"
#include "nmtools/array/view/mutable_slice.hpp"
#include "nmtools/array/view/ufuncs/add.hpp"
#include "nmtools/array/view/ufuncs/subtract.hpp"
#include "nmtools/array/view/ufuncs/multiply.hpp"
#include "nmtools/array/view/ufuncs/less.hpp"
#include "nmtools/array/view/ufuncs/negative.hpp"
#include "nmtools/array/view/ufuncs/sin.hpp"
#include "nmtools/array/view/matmul.hpp"
#include "nmtools/array/view/expand_dims.hpp"
#include "nmtools/array/view/broadcast_to.hpp"
#include "nmtools/array/view/broadcast_arrays.hpp"
#include "nmtools/array/view/where.hpp"
#include "nmtools/array/view/stack.hpp"
#include "nmtools/array/index/tile.hpp"
#include "nmtools/array/index/broadcast_shape.hpp"
#include "nmtools/array/index/atleast_nd.hpp"
#include "nmtools/array/index/squeeze.hpp"
#include "nmtools/array/index/transpose.hpp"
#include "nmtools/array/index/pad.hpp"
#include "nmtools/array/index/repeat.hpp"
#include "nmtools/array/index/concatenate.hpp"
#include "nmtools/array/index/outer.hpp"
#include "nmtools/array/view/kron.hpp"
#include "nmtools/array/view/outer.hpp"
#include "nmtools/array/ndarray/hybrid.hpp"
#include "nmtools/array/ndarray/fixed.hpp"
#include "nmtools/array/ndarray/dynamic.hpp"
#include "nmtools/array/index/compute_strides.hpp"
#include "nmtools/array/index/reshape.hpp"
#include "nmtools/utility/ct_map.hpp"
#include "nmtools/utility/ct_digraph.hpp"
#include "nmtools/utility/isequal.hpp"
#include "nmtools/utility/cast.hpp"
#include "nmtools/utl.hpp"
#include "nmtools/array/eval.hpp"
#include <type_traits>
namespace nm = nmtools; namespace na = nm::array; namespace view = nm::view; namespace meta = nm::meta; namespace utl = nm::utl;
using namespace nmtools::literals;
using fixed_a  = na::ndarray_t<nmtools_array<float,6>, nmtools_tuple<meta::ct<2>,meta::ct<3>>>;   // constant shape, fixed buffer
using fsfb_a   = na::ndarray_t<nmtools_array<float,6>, nmtools_array<size_t,2>>;
using dyn_a    = na::ndarray_t<nmtools_list<float>, nmtools_list<size_t>>;
using clip_shape = nmtools_tuple<nm::clipped_size_t<2>,nm::clipped_size_t<3>>;
using clip_a   = na::ndarray_t<nm::utl::static_vector<float,6>, clip_shape>;                       // clipped (bounded) shape, bounded buffer
using dyn2_a   = na::ndarray_t<nmtools_list<float>, nmtools_array<size_t,2>>;                       // run-time extents, fixed dimension 2
using c13_a    = na::ndarray_t<nmtools_array<float,3>, nmtools_tuple<meta::ct<1>,meta::ct<3>>>;     // constant shape (1,3): axis 0 stretches
using c23_a    = fixed_a;
template <class T> T& lv();
using hyb_a   = na::ndarray_t<nm::utl::static_vector<float,6>, nmtools_array<size_t,2>>;          // run-time shape, fixed dimension 2, BOUNDED buffer (at most 6 elements)
using hyb1_a  = na::ndarray_t<nm::utl::static_vector<float,3>, nmtools_array<size_t,1>>;          // 1-d, at most 3 elements
using lhyb1_a = na::hybrid_ndarray<float,3,1>;                                                      // the classic hybrid array: 1-d, at most 3 elements
// a view over an operand whose element count is only BOUNDED can never know its own size exactly; a bound it reports covers the worst case
template <class V> constexpr bool bound_covers(size_t worst) { if constexpr (meta::is_bounded_size_v<V>) return (size_t)meta::bounded_size_v<V> >= worst; else return true; }
#define NO_EXACT_SIZE(V, WORST) static_assert(!meta::is_fixed_size_v<V>, "a bounded operand leaves the size unknown"); static_assert(!meta::is_fixed_shape_v<V>); static_assert(bound_covers<V>(WORST), "a reported size bound covers the worst case")
using clip13 = nmtools_tuple<nm::clipped_size_t<1>,nm::clipped_size_t<3>>;
using clip3 = nmtools_tuple<nm::clipped_size_t<3>>;
// the bounds a (clipped) result TYPE carries, compared with a value
template <class R, class V> constexpr bool bounds_are(const V& v) { return nm::utils::isequal(meta::to_value_v<R>, v); }
template <size_t... V> constexpr auto szs(){ return nmtools_array<size_t,sizeof...(V)>{V...}; }
using i23_a = na::ndarray_t<nmtools_array<int,6>, nmtools_array<size_t,2>>;       // int elements, run-time (2-d) shape
using d23_a = na::ndarray_t<nmtools_array<double,6>, nmtools_array<size_t,2>>;    // double elements
using b23_a = na::ndarray_t<nmtools_array<bool,6>, nmtools_array<size_t,2>>;
template <class T> using t23_a = na::ndarray_t<nmtools_array<T,6>, nmtools_array<size_t,2>>;   // any element type, run-time (2-d) shape
template <class V> using elem_of = meta::get_element_type_t<V>;
template <class X> using access_of = std::remove_cv_t<std::remove_reference_t<X>>;
// the array type the default evaluator allocates for a view: when the view's element count is not a compile-time constant, the
// buffer must be able to hold fewer elements than its capacity (an ndarray with a fixed-length buffer and a non-constant shape can
// only represent shapes whose extents multiply to exactly that length: ndarray_t::resize refuses every other shape)
template <class B, class = void> struct can_shrink : std::false_type {};
template <class B> struct can_shrink<B, std::void_t<decltype(std::declval<B&>().resize(size_t{}))>> : std::true_type {};
// (the resolver every eager function under array/array passes: eval_result_t<>, and its column-major sibling)
template <class V, class RES> using eval_result_of = std::remove_cv_t<std::remove_reference_t<decltype(na::eval(std::declval<const V&>(), nm::None, nm::None, meta::as_value_v<RES>))>>;
template <class V, class RES = na::eval_result_t<>> constexpr bool result_holds_every_size() { if constexpr (meta::is_fixed_size_v<V>) return true; else return can_shrink<typename eval_result_of<V,RES>::buffer_type>::value; }
using dyn12_a = na::ndarray_t<nmtools_list<float>, nmtools_list<size_t>>;
using lhyb12_a = na::hybrid_ndarray<float,12,2>;
using clipnew = nmtools_tuple<nm::clipped_size_t<6>,nm::clipped_size_t<4>>;   // a (<=6, <=4) target shape
'''

def W(id, prop, kind, why, code):
    return dict(id=id, prop=prop, kind=kind, why=why, code=code)

WITNESSES = [
 # ---------------- C20: only mutable_* views can hand out a non-const element reference
 W("c20_reshape_assign", "C20", "fail", "assignment through an immutable reshape view",
   "void f(fsfb_a& a){ auto v = nm::unwrap(view::reshape(a, nmtools_array<size_t,2>{3,2})); v(0,0) = 1.f; }"),
 W("c20_flatten_assign", "C20", "fail", "assignment through an immutable flatten view",
   "void f(fsfb_a& a){ auto v = nm::unwrap(view::flatten(a)); v(0) = 1.f; }"),
 W("c20_transpose_assign", "C20", "fail", "assignment through an immutable transpose view",
   "void f(fsfb_a& a){ auto v = nm::unwrap(view::transpose(a)); v(0,0) = 1.f; }"),
 W("c20_ref_assign", "C20", "fail", "assignment through an immutable ref view",
   "void f(fsfb_a& a){ auto v = view::ref(a); v(0,0) = 1.f; }"),
 W("c20_reshape_not_ref", "C20", "pass", "element access of an immutable reshape view is not an lvalue reference",
   "void f(fsfb_a& a){ auto v = nm::unwrap(view::reshape(a, nmtools_array<size_t,2>{3,2})); static_assert(!std::is_lvalue_reference_v<decltype(v(0,0))>); }"),
 W("c20_flatten_not_ref", "C20", "pass", "element access of an immutable flatten view is not an lvalue reference",
   "void f(fsfb_a& a){ auto v = nm::unwrap(view::flatten(a)); static_assert(!std::is_lvalue_reference_v<decltype(v(0))>); }"),
 W("c20_mutable_flatten_ref", "C20", "pass", "mutable_flatten hands out float&",
   "void f(fsfb_a& a){ auto v = nm::unwrap(view::mutable_flatten(a)); static_assert(std::is_same_v<decltype(v(0)), float&>); }"),
 W("c20_mutable_reshape_ref", "C20", "pass", "mutable_reshape hands out float&",
   "void f(fsfb_a& a){ auto v = nm::unwrap(view::mutable_reshape(a, nmtools_array<size_t,2>{3,2})); static_assert(std::is_same_v<decltype(v(0,0)), float&>); }"),
 W("c20_mutable_ref_ref", "C20", "pass", "mutable_ref hands out float&",
   "void f(fsfb_a& a){ auto v = view::mutable_ref(a); static_assert(std::is_same_v<decltype(v(0,0)), float&>); }"),
 W("c20_mutable_flatten_const", "C20", "fail", "writing through a mutable view of a const array",
   "void f(const fsfb_a& a){ auto v = nm::unwrap(view::mutable_flatten(a)); v(0) = 1.f; }"),
 W("c20_const_array_assign", "C20", "fail", "element assignment on a const array",
   "void f(const fsfb_a& a){ a(0,0) = 1.f; }"),
 # ---------------- C11: static size knowledge of views
 W("c11_fixed_operand_add", "C11", "pass", "ufunc of two constant-shape operands keeps the fixed size 6",
   "void f(fixed_a& a){ auto v = nm::unwrap(view::add(a,a)); using V = decltype(v); static_assert(meta::is_fixed_size_v<V>); static_assert(meta::fixed_size_v<V> == 6); }"),
 W("c11_tile_runtime_reps", "C11", "pass", "tile with run-time reps over a fixed-size operand reports no fixed size (element count changes at run time)",
   "void f(fixed_a& a){ auto v = nm::unwrap(view::tile(a, nmtools_array<size_t,2>{2,2})); using V = decltype(v); static_assert(!meta::is_fixed_size_v<V>); }"),
 W("c11_repeat_runtime", "C11", "pass", "repeat with a run-time count over a fixed-size operand reports no fixed size",
   "void f(fixed_a& a, size_t r){ auto v = nm::unwrap(view::repeat(a, r, 0_ct)); using V = decltype(v); static_assert(!meta::is_fixed_size_v<V>); }"),
 W("c11_take_runtime", "C11", "pass", "take with run-time indices over a fixed-size operand reports no fixed size",
   "void f(fixed_a& a){ auto v = view::take(a, nmtools_list<size_t>{0,1}, 0); using V = decltype(v); static_assert(!meta::is_fixed_size_v<V>); }"),
 W("c11_dyn_operand", "C11", "pass", "a view of a dynamic array has neither fixed shape nor fixed size",
   "void f(dyn_a& a){ auto v = nm::unwrap(view::transpose(a)); using V = decltype(v); static_assert(!meta::is_fixed_size_v<V>); static_assert(!meta::is_fixed_shape_v<V>); }"),
 W("c11_transpose_fixed", "C11", "pass", "transpose of a constant-shape operand keeps fixed size 6 and dimension 2",
   "void f(fixed_a& a){ auto v = nm::unwrap(view::transpose(a)); using V = decltype(v); static_assert(meta::fixed_size_v<V> == 6); static_assert(meta::fixed_dim_v<V> == 2); }"),
 # ---------------- C11: one operand of BOUNDED size (hybrid: run-time shape, bounded buffer) - the view's size is never a compile-time constant
 W("c11_hyb_add_fixed", "C11", "pass", "fixed (2,3) + bounded-size operand: no exact size",
   "void f(fixed_a& a, hyb_a& b){ auto v = nm::unwrap(view::add(a,b)); using V = decltype(v); NO_EXACT_SIZE(V, 6); }"),
 W("c11_hyb_add_fixed_rev", "C11", "pass", "bounded-size + fixed (2,3) operand: no exact size",
   "void f(fixed_a& a, hyb_a& b){ auto v = nm::unwrap(view::add(b,a)); using V = decltype(v); NO_EXACT_SIZE(V, 6); }"),
 W("c11_hyb_outer_fixed", "C11", "pass", "outer product of a fixed (2,3) operand and a bounded 1-d operand (at most 3): no exact size, bound >= 18",
   "void f(fixed_a& a, hyb1_a& b){ auto v = nm::unwrap(view::outer_add(a,b)); using V = decltype(v); NO_EXACT_SIZE(V, 18); }"),
 W("c11_hyb_outer_fixed_rev", "C11", "pass", "outer product of a bounded 1-d operand and a fixed (2,3) operand: no exact size, bound >= 18",
   "void f(fixed_a& a, hyb1_a& b){ auto v = nm::unwrap(view::outer_add(b,a)); using V = decltype(v); NO_EXACT_SIZE(V, 18); }"),
 W("c11_lhyb_outer_fixed", "C11", "pass", "outer product of a fixed (2,3) operand and a classic hybrid 1-d array: no exact size, bound >= 18",
   "void f(fixed_a& a, lhyb1_a& b){ auto v = nm::unwrap(view::outer_multiply(a,b)); using V = decltype(v); NO_EXACT_SIZE(V, 18); }"),
 W("c11_lhyb_outer_fixed_rev", "C11", "pass", "outer product of a classic hybrid 1-d array and a fixed (2,3) operand: no exact size, bound >= 18",
   "void f(fixed_a& a, lhyb1_a& b){ auto v = nm::unwrap(view::outer_multiply(b,a)); using V = decltype(v); NO_EXACT_SIZE(V, 18); }"),
 W("c11_hyb_outer_hyb", "C11", "pass", "outer product of two bounded operands: no exact size, bound >= 9",
   "void f(hyb1_a& a, hyb1_a& b){ auto v = nm::unwrap(view::outer_add(a,b)); using V = decltype(v); NO_EXACT_SIZE(V, 9); }"),
 W("c11_hyb_concat_fixed", "C11", "pass", "concatenate(fixed, bounded): no exact size, bound >= 12",
   "void f(fixed_a& a, hyb_a& b){ auto v = nm::unwrap(view::concatenate(a,b,0_ct)); using V = decltype(v); NO_EXACT_SIZE(V, 12); }"),
 W("c11_hyb_concat_fixed_rev", "C11", "pass", "concatenate(bounded, fixed): no exact size, bound >= 12",
   "void f(fixed_a& a, hyb_a& b){ auto v = nm::unwrap(view::concatenate(b,a,0_ct)); using V = decltype(v); NO_EXACT_SIZE(V, 12); }"),
 W("c11_hyb_kron_fixed", "C11", "pass", "kron(fixed (2,3), bounded (at most 6)): no exact size, bound >= 36",
   "void f(fixed_a& a, hyb_a& b){ auto v = nm::unwrap(view::kron(a,b)); using V = decltype(v); NO_EXACT_SIZE(V, 36); }"),
 W("c11_hyb_kron_fixed_rev", "C11", "pass", "kron(bounded, fixed): no exact size, bound >= 36",
   "void f(fixed_a& a, hyb_a& b){ auto v = nm::unwrap(view::kron(b,a)); using V = decltype(v); NO_EXACT_SIZE(V, 36); }"),
 W("c11_hyb_where_fixed", "C11", "pass", "where(fixed condition, fixed, bounded): no exact size",
   "void f(fixed_a& c, fixed_a& a, hyb_a& b){ auto v = nm::unwrap(view::where(c,a,b)); using V = decltype(v); NO_EXACT_SIZE(V, 6); }"),
 W("c11_hyb_tile_ct", "C11", "pass", "tile of a bounded operand with compile-time reps (2,1): no exact size, bound >= 12",
   "void f(hyb_a& a){ auto v = nm::unwrap(view::tile(a, nmtools_tuple{2_ct,1_ct})); using V = decltype(v); NO_EXACT_SIZE(V, 12); }"),
 W("c11_hyb_unary", "C11", "pass", "unary ufunc of a bounded operand: no exact size, bound >= 6",
   "void f(hyb_a& a){ auto v = nm::unwrap(view::sin(a)); using V = decltype(v); NO_EXACT_SIZE(V, 6); }"),
 W("c11_hyb_transpose", "C11", "pass", "transpose of a bounded operand: no exact size, bound >= 6",
   "void f(hyb_a& a){ auto v = nm::unwrap(view::transpose(a)); using V = decltype(v); NO_EXACT_SIZE(V, 6); }"),
 W("c11_repeat_clipped_repeats", "C11", "pass", "repeat of a constant-shape operand with CLIPPED repeats (upper bounds 2,2): the result shape is not a compile-time constant, a reported size bound covers 2+2 rows of 3",
   "void f(fixed_a& a){ auto v = nm::unwrap(view::repeat(a, nmtools_tuple{nm::clipped_size_t<2>(1), nm::clipped_size_t<2>(1)}, 0_ct)); using V = decltype(v); NO_EXACT_SIZE(V, 12); }"),
 # ---------------- C11 / C09: an operand whose shape is only BOUNDED (clipped) never yields a view with compile-time-exact shape or size
 W("c11_clip_unary", "C11", "pass", "a unary ufunc of a clipped-shape operand has no fixed shape/size (its run-time shape may be below the bounds), but a size bound >= 6",
   "void f(clip_a& a){ auto v = nm::unwrap(view::sin(a)); using V = decltype(v); static_assert(!meta::is_fixed_shape_v<V>); static_assert(!meta::is_fixed_size_v<V>); static_assert(meta::bounded_size_v<V> >= 6); }"),
 W("c11_clip_transpose", "C11", "pass", "transpose of a clipped-shape operand has no fixed shape/size",
   "void f(clip_a& a){ auto v = nm::unwrap(view::transpose(a)); using V = decltype(v); static_assert(!meta::is_fixed_shape_v<V>); static_assert(!meta::is_fixed_size_v<V>); }"),
 W("c11_clip_add_const", "C11", "pass", "constant-shape + clipped-shape operands: the broadcast result has no fixed shape/size",
   "void f(fixed_a& a, clip_a& b){ auto v = nm::unwrap(view::add(a,b)); using V = decltype(v); static_assert(!meta::is_fixed_shape_v<V>); static_assert(!meta::is_fixed_size_v<V>); }"),
 W("c11_clip_add_const_rev", "C11", "pass", "clipped-shape + constant-shape operands: the broadcast result has no fixed shape/size",
   "void f(fixed_a& a, clip_a& b){ auto v = nm::unwrap(view::add(b,a)); using V = decltype(v); static_assert(!meta::is_fixed_shape_v<V>); static_assert(!meta::is_fixed_size_v<V>); }"),
 W("c11_clip_concat_const", "C11", "pass", "concatenate(constant-shape, clipped-shape, ct axis) has no fixed shape/size and a size bound >= 12",
   "void f(fixed_a& a, clip_a& b){ auto v = nm::unwrap(view::concatenate(a,b,0_ct)); using V = decltype(v); static_assert(!meta::is_fixed_shape_v<V>); static_assert(!meta::is_fixed_size_v<V>); static_assert(meta::bounded_size_v<V> >= 12); }"),
 W("c11_clip_concat_const_rev", "C11", "pass", "concatenate(clipped-shape, constant-shape, ct axis) has no fixed shape/size and a size bound >= 12",
   "void f(fixed_a& a, clip_a& b){ auto v = nm::unwrap(view::concatenate(b,a,0_ct)); using V = decltype(v); static_assert(!meta::is_fixed_shape_v<V>); static_assert(!meta::is_fixed_size_v<V>); static_assert(meta::bounded_size_v<V> >= 12); }"),
 W("c11_clip_concat_axis1", "C11", "pass", "concatenate along axis 1 of (constant, clipped): no fixed shape/size",
   "void f(fixed_a& a, clip_a& b){ auto v = nm::unwrap(view::concatenate(a,b,1_ct)); using V = decltype(v); static_assert(!meta::is_fixed_shape_v<V>); static_assert(!meta::is_fixed_size_v<V>); }"),
 W("c11_clip_tile_ct", "C11", "pass", "tile of a clipped-shape operand with compile-time reps has no fixed shape/size",
   "void f(clip_a& a){ auto v = nm::unwrap(view::tile(a, nmtools_tuple{2_ct,1_ct})); using V = decltype(v); static_assert(!meta::is_fixed_shape_v<V>); static_assert(!meta::is_fixed_size_v<V>); }"),
 W("c11_clip_expand_dims", "C11", "pass", "expand_dims of a clipped-shape operand has no fixed shape/size",
   "void f(clip_a& a){ auto v = nm::unwrap(view::expand_dims(a, 0_ct)); using V = decltype(v); static_assert(!meta::is_fixed_shape_v<V>); static_assert(!meta::is_fixed_size_v<V>); }"),
 W("c11_rt_times_const_with_one", "C11", "pass", "run-time-shaped (2-d) operand broadcast with a constant (1,3) operand: axis 0 of the result is unknown at compile time, so no static size bound may be reported",
   "void f(dyn2_a& a, c13_a& b){ auto v = nm::unwrap(view::add(a,b)); using V = decltype(v); static_assert(!meta::is_fixed_size_v<V>); static_assert(!meta::is_bounded_size_v<V>); }"),
 W("c11_const_with_one_times_rt", "C11", "pass", "constant (1,3) operand broadcast with a run-time-shaped operand (other order): no static size bound",
   "void f(dyn2_a& a, c13_a& b){ auto v = nm::unwrap(view::add(b,a)); using V = decltype(v); static_assert(!meta::is_fixed_size_v<V>); static_assert(!meta::is_bounded_size_v<V>); }"),
 W("c11_rt_times_const_no_one", "C11", "pass", "run-time-shaped operand broadcast with a constant (2,3) operand: result extents are at most (2,3) or the operands do not broadcast; a bound, if reported, is >= 6",
   "void f(dyn2_a& a, c23_a& b){ auto v = nm::unwrap(view::add(a,b)); using V = decltype(v); static_assert(!meta::is_fixed_size_v<V>); if constexpr (meta::is_bounded_size_v<V>) static_assert(meta::bounded_size_v<V> >= 6); }"),
 W("c11_const_concat_const", "C11", "pass", "concatenate of two constant-shape operands along a ct axis has the exact fixed size 12",
   "void f(fixed_a& a){ auto v = nm::unwrap(view::concatenate(a,a,0_ct)); using V = decltype(v); static_assert(meta::fixed_size_v<V> == 12); }"),
 # ---------------- C18 / C19 / C02: rejected at compile time
 W("c18_fixed_len_mismatch", "C18", "fail", "isequal of fixed-length index arrays of different length is rejected at compile time (never read out of bounds)",
   "bool f(const nmtools_array<size_t,3>& a, const nmtools_array<size_t,2>& b){ return nm::utils::isequal(a,b); }"),
 W("c19_array_get_oob", "C19", "fail", "utl::array<int,3>::get<3>() is rejected (static_assert)",
   "int f(utl::array<int,3>& a){ return utl::get<3>(a); }"),
 W("c19_static_vector_get_oob", "C19", "fail", "static_vector<int,4>::get<4>() is rejected (static_assert)",
   "int f(utl::static_vector<int,4>& a){ return a.template get<4>(); }"),
 W("c19_array_get_ok", "C19", "pass", "utl::array<int,3>::get<2>() is accepted and yields int&",
   "void f(utl::array<int,3>& a){ static_assert(std::is_same_v<decltype(utl::get<2>(a)), int&>); }"),
 W("c19_tuple_get_oob", "C19", "fail", "utl::get<2> on a 2-tuple is rejected",
   "int f(utl::tuple<int,int>& t){ return utl::get<2>(t); }"),
]

# ---------------- C09: the 15-kind cast matrix - the kind tag names what the result is (shape knowledge x buffer kind)
def _cast_witnesses():
    shape_pred = {
        "cs": ("constant shape", "meta::is_constant_index_array_v<S>"),
        "fs": ("fixed-length run-time shape", "(meta::is_fixed_index_array_v<S> && !meta::is_constant_index_array_v<S> && !meta::is_clipped_index_array_v<S> && meta::len_v<S> == 2)"),
        "hs": ("bounded-length shape", "(!meta::is_fixed_index_array_v<S> && meta::bounded_size_v<S> == 2)"),
        "ds": ("dynamic shape", "(!meta::is_fixed_index_array_v<S> && meta::is_fail_v<decltype(meta::bounded_size_v<S>)>)"),
        "ls": ("clipped shape", "(meta::is_clipped_index_array_v<S> && !meta::is_constant_index_array_v<S>)"),
    }
    buf_pred = {
        "fb": ("fixed buffer of 6", "(meta::len_v<B> == 6)"),
        "hb": ("bounded buffer of at most 6", "(meta::len_v<B> == 0 && meta::bounded_size_v<B> == 6)"),
        "db": ("dynamic buffer", "(meta::len_v<B> == 0 && meta::is_fail_v<decltype(meta::bounded_size_v<B>)>)"),
    }
    out = []
    for sk, (sn, sp) in shape_pred.items():
        for bk, (bn, bp) in buf_pred.items():
            kind = "ndarray_%s_%s" % (sk, bk)
            out.append(W("c09_cast_" + sk + "_" + bk, "C09", "pass", "cast(a, kind::%s) of a constant-shape (2,3) array yields an ndarray with %s and %s, element type kept" % (kind, sn, bn),
                "void f(fixed_a& a){ using R = decltype(nm::cast(a, na::kind::%s)); using S = typename R::shape_type; using B = typename R::buffer_type; "
                "static_assert(%s); static_assert(%s); static_assert(std::is_same_v<meta::get_element_type_t<R>, float>); }" % (kind, sp, bp)))
    return out
WITNESSES += _cast_witnesses()

# ---------------- C10 / C04 / C07: the element type a view publishes (what the evaluator allocates) is the type its element access yields,
#                  and it is the common type of the value operands - a narrower published type truncates in the eager result only
def _elem_witnesses():
    out = []
    def both(id, prop, why, build):
        out.append(W(id, prop, "pass", why,
            "void f(i23_a& xi, d23_a& xd, b23_a& c){ auto v = %s; using V = decltype(v); static_assert(std::is_same_v<elem_of<V>, double>); "
            "static_assert(std::is_same_v<access_of<decltype(v(0,0))>, double>); }" % build))
    both("c10_concat_int_double", "C10", "concatenate(int array, double array): published element type and access type are double", "nm::unwrap(view::concatenate(xi, xd, 0))")
    both("c10_concat_double_int", "C10", "concatenate(double array, int array): published element type and access type are double", "nm::unwrap(view::concatenate(xd, xi, 0))")
    both("c10_add_int_double", "C10", "add(int array, double array): published element type and access type are double", "nm::unwrap(view::add(xi, xd))")
    both("c04_where_int_double", "C04", "where(cond, int x, double y): element type is the common type of x and y (y is not truncated)", "nm::unwrap(view::where(c, xi, xd))")
    both("c04_where_double_int", "C04", "where(cond, double x, int y): element type is the common type of x and y", "nm::unwrap(view::where(c, xd, xi))")
    both("c07_where_int_double", "C07", "where(cond, int x, double y) as an element-wise (ternary) function: element type is the type of c ? x : y", "nm::unwrap(view::where(c, xi, xd))")
    both("c07_where_double_int", "C07", "where(cond, double x, int y) as an element-wise (ternary) function: element type is the type of c ? x : y", "nm::unwrap(view::where(c, xd, xi))")
    return out
WITNESSES += _elem_witnesses()

# a CLIPPED operand (extents known only up to an upper bound) against a run-time shape: an extent of the clipped operand may be 1 at run
# time and stretch to any extent of the other operand, so its bounds say nothing about the result (F46)
def _bsclip(id, bounds, swapped):
    ext = ",".join("nm::clipped_size_t<%d>" % b for b in bounds)
    a, b = ("nmtools_tuple<%s>" % ext), ("nmtools_array<size_t,%d>" % len(bounds))
    if swapped: a, b = b, a
    return W(id, "C11", "pass", "broadcast_shape(%s clipped shape with bounds %s, run-time shape): the result's extents carry no static bound" % ("run-time shape," if swapped else "", bounds),
        "void f(){ using R = meta::get_maybe_type_t<decltype(nm::index::broadcast_shape(std::declval<%s>(), std::declval<%s>()))>; static_assert(!meta::is_clipped_index_array_v<R> && !meta::is_constant_index_array_v<R>); }" % (a, b))
WITNESSES += [_bsclip("c11_bshape_clipped_3", (3,), False), _bsclip("c11_bshape_clipped_3_sw", (3,), True), _bsclip("c11_bshape_clipped_34", (3,4), False), _bsclip("c11_bshape_clipped_34_sw", (3,4), True), _bsclip("c11_bshape_clipped_232", (2,3,2), False)]

# ---------------- C06 / C11: three operands - a fixed-size array, a scalar and a run-time-shaped array: the broadcast views have the size of
#                  the RESULT (run-time here), in every operand order; the fixed size survives only when all other operands are scalars
def _bcast3_witnesses():
    out = []
    pre = "using fx3_a = na::ndarray_t<nmtools_array<float,3>, nmtools_tuple<meta::ct<3>>>; template <size_t I, class R> using view_at = std::remove_cv_t<std::remove_reference_t<decltype(nm::get<I>(std::declval<R&>()))>>;\n"
    def w(id, prop, why, params, call, asserts):
        out.append(W(id, prop, "pass", why, pre + "void f(%s){ auto r = %s; using R = std::remove_cv_t<std::remove_reference_t<decltype(nm::unwrap(r))>>; %s }" % (params, call, asserts)))
    for prop in ("C06", "C11"):
        t = prop.lower()
        w(t + "_bcast3_fixed_scalar_dynamic", prop, "broadcast_arrays(fixed (3), scalar, dynamic): no view claims a compile-time size (the dynamic operand decides it)",
          "fx3_a& a, float s, dyn_a& c", "view::broadcast_arrays(a, s, c)", "static_assert(!meta::is_fixed_size_v<view_at<0,R>>); static_assert(!meta::is_fixed_size_v<view_at<2,R>>);")
        w(t + "_bcast3_fixed_dynamic_scalar", prop, "broadcast_arrays(fixed (3), dynamic, scalar): no view claims a compile-time size",
          "fx3_a& a, float s, dyn_a& c", "view::broadcast_arrays(a, c, s)", "static_assert(!meta::is_fixed_size_v<view_at<0,R>>); static_assert(!meta::is_fixed_size_v<view_at<1,R>>);")
        w(t + "_bcast3_scalar_fixed_dynamic", prop, "broadcast_arrays(scalar, fixed (3), dynamic): no view claims a compile-time size",
          "fx3_a& a, float s, dyn_a& c", "view::broadcast_arrays(s, a, c)", "static_assert(!meta::is_fixed_size_v<view_at<1,R>>);")
    w("c06_bcast3_fixed_scalar_scalar", "C06", "broadcast_arrays(fixed (3), scalar, scalar): the fixed size 3 is kept",
      "fx3_a& a, float s", "view::broadcast_arrays(a, s, s)", "static_assert(meta::is_fixed_size_v<view_at<0,R>> && meta::fixed_size_v<view_at<0,R>> == 3);")
    return out
WITNESSES += _bcast3_witnesses()

# outer: the result shape of a constant-shape operand and a CLIPPED-shape operand is not a compile-time constant (the clipped extents are
# only bounds), in either order; two constant shapes give a constant shape
def _outer_shape_witnesses():
    pre = "template <size_t... E> using cs2_t = nmtools_tuple<meta::ct<E>...>; using clip6 = nmtools_tuple<nm::clipped_size_t<6>>; template <class A, class B> using so_t = std::remove_cv_t<std::remove_reference_t<decltype(nm::index::shape_outer(std::declval<A>(), std::declval<B>()))>>;\n"
    return [
      W("c11_outer_const_clipped", "C11", "pass", "shape_outer(constant (2,3), clipped (<=6)): not a constant shape", pre + "void f(){ static_assert(!meta::is_constant_index_array_v<so_t<cs2_t<2,3>, clip6>>); }"),
      W("c11_outer_clipped_const", "C11", "pass", "shape_outer(clipped (<=6), constant (2,3)): not a constant shape", pre + "void f(){ static_assert(!meta::is_constant_index_array_v<so_t<clip6, cs2_t<2,3>>>); }"),
      W("c11_outer_const_const", "C11", "pass", "shape_outer(constant (2,3), constant (4)): the constant shape (2,3,4)", pre + "void f(){ using R = so_t<cs2_t<2,3>, cs2_t<4>>; static_assert(meta::is_constant_index_array_v<R>); static_assert(bounds_are<R>(szs<2,3,4>())); }"),
    ]
WITNESSES += _outer_shape_witnesses()

# ---------------- C10: the array type the default evaluator allocates can represent every shape the view can take
def _result_witnesses():
    out = []
    srcs = dict(dyn="dyn12_a", hyb="lhyb12_a", vec="nmtools_list<float>")
    views = dict(
        reshape_clipped=("reshape(a, clipped (<=6,<=4) shape)", "nm::unwrap(view::reshape(a, clipnew{}))"),
        transpose_reshape_clipped=("transpose(reshape(a, clipped shape))", "nm::unwrap(view::transpose(nm::unwrap(view::reshape(a, clipnew{}))))"),
        add_reshape_clipped=("add(reshape(a, clipped shape), 1)", "nm::unwrap(view::add(nm::unwrap(view::reshape(a, clipnew{})), 1.f))"),
        reshape_rt=("reshape(a, run-time (2-d) shape)", "nm::unwrap(view::reshape(a, nmtools_array<size_t,2>{3,4}))"),
        flatten=("flatten(a)", "nm::unwrap(view::flatten(a))"),
    )
    for sk, st in srcs.items():
        for vk, (vn, ve) in views.items():
            out.append(W("c10_result_%s_%s" % (vk, sk), "C10", "pass",
                "%s over a %s source: the evaluator's result buffer can hold any element count the view can have (not only its upper bound)" % (vn, sk),
                "void f(%s& a){ using V = decltype(%s); static_assert(result_holds_every_size<V>()); static_assert(result_holds_every_size<V, na::eval_result_t<na::LayoutKind::COLUMN_MAJOR>>()); }" % (st, ve)))
    return out
WITNESSES += _result_witnesses()

# ---------------- C10: whatever resolver allocates the result, its element type is the view's element type (a narrower one truncates the
#                  evaluated values only) - operand kinds and orders of a mixed-type binary view, legacy (default of na::eval) and eager resolver
def _eval_elem_witnesses():
    out = []
    pre = ("using dyn_i = na::dynamic_ndarray<int>; using dyn_f = na::dynamic_ndarray<float>; using fx_f = na::fixed_ndarray<float,3>; using fx_i = na::fixed_ndarray<int,3>; using hy_f = na::hybrid_ndarray<float,3,1>;\n"
           "template <class V> using legacy_result_t = std::remove_cv_t<std::remove_reference_t<decltype(na::eval(std::declval<const V&>()))>>;\n")
    combos = dict(raw_f_dyn_i=("float (&a)[3], dyn_i& b", "a, b"), dyn_i_raw_f=("float (&a)[3], dyn_i& b", "b, a"), fx_f_dyn_i=("fx_f& a, dyn_i& b", "a, b"), dyn_i_fx_f=("fx_f& a, dyn_i& b", "b, a"),
                  hy_f_dyn_i=("hy_f& a, dyn_i& b", "a, b"), fx_i_dyn_f=("fx_i& a, dyn_f& b", "a, b"), dyn_f_dyn_i=("dyn_f& a, dyn_i& b", "a, b"), dyn_i_dyn_f=("dyn_f& a, dyn_i& b", "b, a"))
    for k, (params, args) in combos.items():
        out.append(W("c10_elem_" + k, "C10", "pass", "add(%s) with mixed element types: the arrays the legacy and the eager resolver allocate hold the view's element type (float)" % k,
            pre + "void f(%s){ auto v = nm::unwrap(view::add(%s)); using V = decltype(v); static_assert(std::is_same_v<elem_of<V>, float>); "
            "static_assert(std::is_same_v<meta::get_element_type_t<legacy_result_t<V>>, float>, \"legacy resolver\"); "
            "static_assert(std::is_same_v<meta::get_element_type_t<eval_result_of<V, na::eval_result_t<>>>, float>, \"eager resolver\"); }" % (params, args)))
    return out
WITNESSES += _eval_elem_witnesses()

# ---------------- C07: the element type of an element-wise view is the type the scalar operation yields for the operand element types
#                  (C++ usual arithmetic conversions, bool for comparisons)
def _ufunc_type_witnesses():
    out = []
    def uw(id, why, params, build, want):
        out.append(W(id, "C07", "pass", why,
            "void f(%s){ auto v = %s; using V = decltype(v); static_assert(std::is_same_v<elem_of<V>, %s>); "
            "static_assert(std::is_same_v<access_of<decltype(v(0,0))>, %s>); }" % (params, build, want, want)))
    uw("c07_type_add_i8_i16", "add(int8, int16): element type is that of int8 + int16", "t23_a<int8_t>& a, t23_a<int16_t>& b", "nm::unwrap(view::add(a, b))", "decltype(int8_t{} + int16_t{})")
    uw("c07_type_sub_float_double", "subtract(float, double): element type is double", "t23_a<float>& a, t23_a<double>& b", "nm::unwrap(view::subtract(a, b))", "double")
    uw("c07_type_mul_double_float", "multiply(double, float): element type is double whichever side is wider", "t23_a<double>& a, t23_a<float>& b", "nm::unwrap(view::multiply(a, b))", "double")
    uw("c07_type_less_int_double", "less(int, double): a comparison yields bool", "t23_a<int>& a, t23_a<double>& b", "nm::unwrap(view::less(a, b))", "bool")
    uw("c07_type_add_u8_scalar_long", "add(uint8 array, long scalar): element type is that of uint8 + long", "t23_a<uint8_t>& a, long b", "nm::unwrap(view::add(a, b))", "decltype(uint8_t{} + long{})")
    # the outer variant: element type of op(lhs element, rhs element), whichever side is the wider one (4 indices for two 2-d operands)
    def ow(id, why, params, build, want):
        out.append(W(id, "C07", "pass", why,
            "void f(%s){ auto v = %s; using V = decltype(v); static_assert(std::is_same_v<elem_of<V>, %s>); "
            "static_assert(std::is_same_v<access_of<decltype(v(0,0,0,0))>, %s>); }" % (params, build, want, want)))
    ow("c07_type_outer_mul_int_float", "outer multiply(int, float): element type is float (the RIGHT operand's type wins)", "t23_a<int>& a, t23_a<float>& b", "nm::unwrap(view::outer_multiply(a, b))", "float")
    ow("c07_type_outer_mul_float_int", "outer multiply(float, int): element type is float", "t23_a<float>& a, t23_a<int>& b", "nm::unwrap(view::outer_multiply(a, b))", "float")
    ow("c07_type_outer_add_i8_i64", "outer add(int8, int64): element type is that of int8 + int64", "t23_a<int8_t>& a, t23_a<int64_t>& b", "nm::unwrap(view::outer_add(a, b))", "decltype(int8_t{} + int64_t{})")
    ow("c07_type_outer_add_i64_i8", "outer add(int64, int8): element type is that of int64 + int8", "t23_a<int64_t>& a, t23_a<int8_t>& b", "nm::unwrap(view::outer_add(a, b))", "decltype(int64_t{} + int8_t{})")
    ow("c07_type_outer_add_double_float", "outer add(double, float): element type is double", "t23_a<double>& a, t23_a<float>& b", "nm::unwrap(view::outer_add(a, b))", "double")
    uw("c07_type_add_int_float", "add(int, float): element type is float (the right operand's type wins)", "t23_a<int>& a, t23_a<float>& b", "nm::unwrap(view::add(a, b))", "float")
    uw("c07_type_mul_i8_i64", "multiply(int8, int64): element type is that of int8 * int64", "t23_a<int8_t>& a, t23_a<int64_t>& b", "nm::unwrap(view::multiply(a, b))", "decltype(int8_t{} * int64_t{})")
    uw("c07_type_negative_i16", "negative(int16): element type is that of -int16", "t23_a<int16_t>& a", "nm::unwrap(view::negative(a))", "decltype(-int16_t{})")
    return out
WITNESSES += _ufunc_type_witnesses()

# ---------------- C09 / C02: the result container of an index function whose result can be as long as its LONGER argument has room for it,
#                  whichever argument is the bounded one
WITNESSES += [
 W("c09_tile_cap_fixed_shape_bounded_reps", "C09", "pass", "shape_tile(fixed shape of 2, reps bounded by 4): the result can hold 4 extents",
   "void f(nmtools_array<size_t,2>& s, nm::utl::static_vector<size_t,4>& r){ using R = decltype(nm::index::shape_tile(s, r)); static_assert(meta::bounded_size_v<R> >= 4 || meta::len_v<R> >= 4); }"),
 W("c09_tile_cap_bounded_shape_fixed_reps", "C09", "pass", "shape_tile(shape bounded by 4, fixed reps of 2): the result can hold 4 extents",
   "void f(nm::utl::static_vector<size_t,4>& s, nmtools_array<size_t,2>& r){ using R = decltype(nm::index::shape_tile(s, r)); static_assert(meta::bounded_size_v<R> >= 4 || meta::len_v<R> >= 4); }"),
 W("c09_tile_cap_fixed_longer_reps", "C09", "pass", "shape_tile(fixed shape of 2, fixed reps of 3): the result holds 3 extents",
   "void f(nmtools_array<size_t,2>& s, nmtools_array<size_t,3>& r){ using R = decltype(nm::index::shape_tile(s, r)); static_assert(meta::len_v<R> == 3); }"),
 W("c09_bshape_cap_fixed_bounded", "C09", "pass", "broadcast_shape(fixed shape of 2, shape bounded by 4): the result can hold 4 extents",
   "void f(nmtools_array<size_t,2>& a, nm::utl::static_vector<size_t,4>& b){ using R = meta::get_maybe_type_t<decltype(nm::index::broadcast_shape(a, b))>; static_assert(meta::bounded_size_v<R> >= 4 || meta::len_v<R> >= 4); }"),
 W("c09_bshape_cap_bounded_fixed", "C09", "pass", "broadcast_shape(shape bounded by 4, fixed shape of 2): the result can hold 4 extents",
   "void f(nmtools_array<size_t,2>& a, nm::utl::static_vector<size_t,4>& b){ using R = meta::get_maybe_type_t<decltype(nm::index::broadcast_shape(b, a))>; static_assert(meta::bounded_size_v<R> >= 4 || meta::len_v<R> >= 4); }"),
]

# ---------------- C11 / C09: for a shape that is only BOUNDED (tuple of clipped integers) the bounds carried by the result TYPE of an index
#                  function are what the run-time function returns on the bounds themselves, extent by extent, in the right positions
def _bound_witnesses():
    out = []
    def bw(id, why, args, expr, want):
        out.append(W("c11_bounds_" + id, "C11", "pass", why,
            "void f(%s){ using R = meta::remove_cvref_t<decltype(%s)>; static_assert(bounds_are<R>(szs<%s>())); }" % (args, expr, want)))
    bw("atleast_3d", "shape_atleast_nd of a shape bounded by (2,3), nd=3: bounds (1,2,3)", "clip_shape& s", "nm::index::shape_atleast_nd(s, 3_ct)", "1,2,3")
    bw("atleast_4d", "shape_atleast_nd of a shape bounded by (2,3), nd=4: bounds (1,1,2,3)", "clip_shape& s", "nm::index::shape_atleast_nd(s, 4_ct)", "1,1,2,3")
    bw("atleast_2d_noop", "shape_atleast_nd of a shape bounded by (2,3), nd=2: bounds (2,3)", "clip_shape& s", "nm::index::shape_atleast_nd(s, 2_ct)", "2,3")
    bw("squeeze", "shape_squeeze of a shape bounded by (1,3): bounds (3)", "clip13& s", "nm::index::shape_squeeze(s)", "3")
    bw("transpose", "shape_transpose (default axes) of a shape bounded by (2,3): bounds (3,2)", "clip_shape& s", "nm::index::shape_transpose(s, nm::None)", "3,2")
    bw("repeat_axis1", "shape_repeat(bounded (2,3), 2, axis 1): bounds (2,6)", "clip_shape& s", "nm::unwrap(nm::index::shape_repeat(s, 2_ct, 1_ct))", "2,6")
    bw("broadcast", "broadcast_shape(bounded (2,3), bounded (3)): bounds (2,3)", "clip_shape& s, clip3& t", "nm::unwrap(nm::index::broadcast_shape(s, t))", "2,3")
    bw("pad", "shape_pad(bounded (2,3), widths (1,0,1,2)): bounds (4,5)", "clip_shape& s", "nm::unwrap(nm::index::shape_pad(s, nmtools_tuple{1_ct,0_ct,1_ct,2_ct}))", "4,5")
    bw("outer", "shape_outer(bounded (2,3), bounded (3)): bounds (2,3,3)", "clip_shape& s, clip3& t", "nm::unwrap(nm::index::shape_outer(s, t))", "2,3,3")
    bw("strides", "compute_strides of a shape bounded by (2,3): bounds (3,1)", "clip_shape& s", "nm::unwrap(nm::index::compute_strides(s))", "3,1")
    bw("reshape", "shape_reshape(bounded (2,3), (3,2)): bounds (3,2)", "clip_shape& s", "nm::unwrap(nm::index::shape_reshape(s, nmtools_tuple{3_ct,2_ct}))", "3,2")
    bw("concatenate", "shape_concatenate(bounded (2,3), bounded (2,3), axis 0): bounds (4,3)", "clip_shape& s", "nm::get<1>(nm::index::shape_concatenate(s, s, 0_ct))", "4,3")
    return out
WITNESSES += _bound_witnesses()

# ---------------- C14: the compile-time map / digraph under the compute graph: merging a graph re-adds nodes that are already present -
#                  that must keep the node and the edges recorded so far (one node per id, edges exactly those added)
WITNESSES += [
 W("c14_ctmap_insert_keeps_existing", "C14", "pass", "ct_map::insert of a present key keeps the stored value and the size",
   "void f(){ constexpr auto m = nm::utility::ct_map().insert(1_ct, 10_ct).insert(2_ct, 20_ct); constexpr auto m2 = m.insert(1_ct, 99_ct); "
   "static_assert(decltype(m2.size())::value == 2); static_assert(decltype(m2.at(1_ct))::value == 10); static_assert(decltype(m2.at(2_ct))::value == 20); }"),
 W("c14_ctmap_update_replaces", "C14", "pass", "ct_map::update of a present key replaces the value, keeps the other entry and the size",
   "void f(){ constexpr auto m = nm::utility::ct_map().insert(1_ct, 10_ct).insert(2_ct, 20_ct); constexpr auto m2 = m.update(1_ct, 99_ct); "
   "static_assert(decltype(m2.size())::value == 2); static_assert(decltype(m2.at(1_ct))::value == 99); static_assert(decltype(m2.at(2_ct))::value == 20); }"),
 W("c14_digraph_readd_node_keeps_edges", "C14", "pass", "ct_digraph::add_node of a node that is already present keeps its out-edges (graphs are merged by re-adding nodes)",
   "void f(){ constexpr auto g = nm::utility::ct_digraph().add_node(0_ct, 7_ct).add_node(1_ct, 8_ct).add_edge(0_ct, 1_ct); constexpr auto g2 = g.add_node(0_ct, 7_ct); "
   "static_assert(decltype(g2.size())::value == 2); static_assert(meta::len_v<decltype(g2.out_edges(0_ct))> == 1); static_assert(meta::len_v<decltype(g2.out_edges())> == 1); }"),
 W("c14_digraph_edges_exact", "C14", "pass", "ct_digraph: out_edges() lists exactly the edges added, a repeated add_edge adds nothing",
   "void f(){ constexpr auto g = nm::utility::ct_digraph().add_node(0_ct, 7_ct).add_node(1_ct, 8_ct).add_node(2_ct, 9_ct).add_edge(0_ct, 2_ct).add_edge(1_ct, 2_ct).add_edge(0_ct, 2_ct); "
   "static_assert(decltype(g.size())::value == 3); static_assert(meta::len_v<decltype(g.out_edges())> == 2); static_assert(meta::len_v<decltype(g.out_edges(2_ct))> == 0); }"),
]

# ---------------- C02: capacity carried by the result TYPE of shape functions over bounded operands that fill their capacity (the E1 component
#                  c02d_capacity2 states the same for the kinds that fold)
_CAP = "template <class R> constexpr size_t cap_of() { using T = meta::conditional_t<meta::is_maybe_v<R>, meta::get_maybe_type_t<R>, R>; if constexpr (meta::len_v<T> > 0) return meta::len_v<T>; else if constexpr (!meta::is_fail_v<decltype(meta::bounded_size_v<T>)>) return (size_t)meta::bounded_size_v<T>; else return (size_t)-1; }\n"
def _cap(id, why, params, expr, need):
    return W(id, "C02", "pass", why, _CAP + "void f(%s){ using R = decltype(%s); static_assert(cap_of<R>() >= %d, \"the result container is too small for the extents the function produces\"); }" % (params, expr, need))
_SV = "nm::utl::static_vector<size_t,%d>&"
WITNESSES += [
 _cap("c02_cap_tile_bb_23", "shape_tile(shape bounded by 2, reps bounded by 3) can hold 3 extents", (_SV % 2) + " s, " + (_SV % 3) + " r", "nm::index::shape_tile(s, r)", 3),
 _cap("c02_cap_tile_bb_32", "shape_tile(shape bounded by 3, reps bounded by 2) can hold 3 extents", (_SV % 3) + " s, " + (_SV % 2) + " r", "nm::index::shape_tile(s, r)", 3),
 _cap("c02_cap_tile_fb_13", "shape_tile(fixed shape of 1, reps bounded by 3) can hold 3 extents", "nmtools_array<size_t,1>& s, " + (_SV % 3) + " r", "nm::index::shape_tile(s, r)", 3),
 _cap("c02_cap_tile_fb_32", "shape_tile(fixed shape of 3, reps bounded by 2) can hold 3 extents", "nmtools_array<size_t,3>& s, " + (_SV % 2) + " r", "nm::index::shape_tile(s, r)", 3),
 _cap("c02_cap_outer_bb_22", "shape_outer(bounded by 2, bounded by 2) can hold 4 extents", (_SV % 2) + " a, " + (_SV % 2) + " b", "nm::index::shape_outer(a, b)", 4),
 _cap("c02_cap_outer_bb_13", "shape_outer(bounded by 1, bounded by 3) can hold 4 extents", (_SV % 1) + " a, " + (_SV % 3) + " b", "nm::index::shape_outer(a, b)", 4),
 _cap("c02_cap_outer_fb_22", "shape_outer(fixed 2, bounded by 2) can hold 4 extents", "nmtools_array<size_t,2>& a, " + (_SV % 2) + " b", "nm::index::shape_outer(a, b)", 4),
 _cap("c02_cap_outer_fb_13", "shape_outer(fixed 1, bounded by 3) can hold 4 extents", "nmtools_array<size_t,1>& a, " + (_SV % 3) + " b", "nm::index::shape_outer(a, b)", 4),
 _cap("c02_cap_outer_bf_31", "shape_outer(bounded by 3, fixed 1) can hold 4 extents", (_SV % 3) + " a, nmtools_array<size_t,1>& b", "nm::index::shape_outer(a, b)", 4),
 _cap("c02_cap_matmul_bb_32", "shape_matmul(bounded by 3, bounded by 2) can hold 3 extents", (_SV % 3) + " a, " + (_SV % 2) + " b", "nm::index::shape_matmul(a, b)", 3),
 _cap("c02_cap_matmul_bb_23", "shape_matmul(bounded by 2, bounded by 3) can hold 3 extents", (_SV % 2) + " a, " + (_SV % 3) + " b", "nm::index::shape_matmul(a, b)", 3),
 _cap("c02_cap_matmul_fb_23", "shape_matmul(fixed 2, bounded by 3) can hold 3 extents", "nmtools_array<size_t,2>& a, " + (_SV % 3) + " b", "nm::index::shape_matmul(a, b)", 3),
 _cap("c02_cap_matmul_bf_32", "shape_matmul(bounded by 3, fixed 2) can hold 3 extents", (_SV % 3) + " a, nmtools_array<size_t,2>& b", "nm::index::shape_matmul(a, b)", 3),
 _cap("c02_cap_bshape_bb_23", "broadcast_shape(bounded by 2, bounded by 3) can hold 3 extents", (_SV % 2) + " a, " + (_SV % 3) + " b", "nm::index::broadcast_shape(a, b)", 3),
 _cap("c02_cap_kron_fb_13", "kron_dst_reshape(fixed 1, bounded by 3) can hold 3 extents", "nmtools_array<size_t,1>& a, " + (_SV % 3) + " b", "nm::index::kron_dst_reshape(a, b)", 3),
 _cap("c02_cap_kron_bb_23", "kron_dst_reshape(bounded by 2, bounded by 3) can hold 3 extents", (_SV % 2) + " a, " + (_SV % 3) + " b", "nm::index::kron_dst_reshape(a, b)", 3),
]

# ---------------- C11: the bounds carried by broadcast_shape(constant shape, bounded-dimension shape). A size-1 extent of the constant shape is
#                  stretched by the other operand to ANY extent, so no upper bound on the extents may be reported then; without a 1 the
#                  largest constant extent is a sound bound
_BS = "template <class A> using bs_t = meta::get_maybe_type_t<decltype(nm::index::broadcast_shape(std::declval<A>(), std::declval<nm::utl::static_vector<size_t,3>>()))>;\ntemplate <size_t... E> using cs_t = nmtools_tuple<meta::ct<E>...>;\n"
_BS_SW = "template <class A> using bs_t = meta::get_maybe_type_t<decltype(nm::index::broadcast_shape(std::declval<nm::utl::static_vector<size_t,3>>(), std::declval<A>()))>;\ntemplate <size_t... E> using cs_t = nmtools_tuple<meta::ct<E>...>;\n"
def _bsw(id, shape, bounded, swapped=False):
    ext = ",".join(str(x) for x in shape)
    if swapped:
        w = _bsw(id, shape, bounded)
        w["code"] = w["code"].replace(_BS, _BS_SW); w["why"] = w["why"].replace("broadcast_shape(constant", "broadcast_shape(bounded-dimension shape FIRST, constant")
        return w
    if bounded:
        code = _BS + "void f(){ using R = bs_t<cs_t<%s>>; if constexpr (meta::is_clipped_index_array_v<R>) { constexpr auto b = meta::to_value_v<R>; static_assert(nm::at(b,0) >= %d && nm::at(b,1) >= %d && nm::at(b,2) >= %d, \"a reported bound covers every extent the result can have\"); } }" % (ext, shape[0], shape[1], shape[2])
        why = "broadcast_shape(constant (%s), bounded-dimension shape): a reported per-extent bound is at least the constant extent" % ext
    else:
        code = _BS + "void f(){ using R = bs_t<cs_t<%s>>; static_assert(!meta::is_clipped_index_array_v<R> && !meta::is_constant_index_array_v<R>, \"a size-1 axis stretches to any extent: no static bound on the extents\"); }" % ext
        why = "broadcast_shape(constant (%s) with a size-1 axis, bounded-dimension shape): no static bound on the extents" % ext
    return W(id, "C11", "pass", why, code)
WITNESSES += [
 _bsw("c11_bshape_const_132_bounded", (1,3,2), False), _bsw("c11_bshape_const_312_bounded", (3,1,2), False), _bsw("c11_bshape_const_513_bounded", (5,1,3), False),
 _bsw("c11_bshape_const_321_bounded", (3,2,1), False), _bsw("c11_bshape_const_123_bounded", (1,2,3), False), _bsw("c11_bshape_const_231_bounded", (2,3,1), False),
 _bsw("c11_bshape_const_232_bounded", (2,3,2), True), _bsw("c11_bshape_const_423_bounded", (4,2,3), True),
 # the same facts with the operands in the other order (a separate branch of the resolver)
 _bsw("c11_bshape_bounded_const_132", (1,3,2), False, True), _bsw("c11_bshape_bounded_const_312", (3,1,2), False, True), _bsw("c11_bshape_bounded_const_513", (5,1,3), False, True),
 _bsw("c11_bshape_bounded_const_321", (3,2,1), False, True), _bsw("c11_bshape_bounded_const_123", (1,2,3), False, True), _bsw("c11_bshape_bounded_const_231", (2,3,1), False, True),
 _bsw("c11_bshape_bounded_const_232", (2,3,2), True, True), _bsw("c11_bshape_bounded_const_423", (4,2,3), True, True),
]
