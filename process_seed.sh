#!/bin/bash
# maintenance helper: take a sub-agent's deliverables (<worktree>-out), confirm them (confirm_seed2.py) and store the seed with the verdict
# of the named checks (store_seed.py); the sub-agent's worktree is removed afterwards.
# usage: process_seed.sh <agent-worktree-name> <seed-id> <Cxx> [<Cxx> ...]
set -u
W=$1; SID=$2; shift 2
SRC=/tmp/seedwt/$W-out; D=/var/tmp/seeds_work/$SID
rm -rf $D; mkdir -p $D
cp $SRC/patch.diff $SRC/demo.cpp $SRC/meta.json $D/ || { echo "deliverables missing in $SRC"; exit 2; }
python3 /verif/confirm_seed2.py $D -j 8 || exit 3
grep -q '"verdict": "CONFIRMED"' $D/confirm.json || { echo "NOT CONFIRMED - kept in $D"; exit 4; }
python3 /verif/store_seed.py $D "$@"
git -C /repo worktree remove --force /tmp/seedwt/$W 2>/dev/null; rm -rf /tmp/seedwt/$W-out
